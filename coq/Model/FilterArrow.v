(* Model of ONE method of the PyArrow filter engine: the regex filter (C11, known-finding domain).  Definitions only.

   Source: mloda_plugins/compute_framework/base_implementations/pyarrow/pyarrow_filter_engine.py do_regex_filter:
       mask = pc.match_substring_regex(column, value);  return data.filter(mask)
   match_substring_regex is RE2 *search* semantics: the pattern may match anywhere in the string unless it is anchored
   by "^" / "$" itself; a null cell gives a null mask entry, which Table.filter drops.  For the pattern family of
   Spec/Filter.v ( ["^"] literal ["$"] ) search semantics is: equal / prefix / suffix / infix.
   The other PyArrow methods and the whole Pandas engine are library calls; they are compared with the SPEC directly
   (correspondence only, no model). *)
From Coq Require Import List String ZArith Bool.
Import ListNotations.
Require Import MV.Spec.Filter.

Fixpoint infix (l s : string) : bool :=
  prefix l s || match s with EmptyString => false | String _ s' => infix l s' end.
Fixpoint suffix (l s : string) : bool :=
  String.eqb s l || match s with EmptyString => false | String _ s' => suffix l s' end.

Definition arrow_matches (p : pattern) (s : string) : bool :=
  match caret p, dollar p with
  | true, true => String.eqb s (lit p)
  | true, false => prefix (lit p) s
  | false, true => suffix (lit p) s
  | false, false => infix (lit p) s
  end.

(* row predicate of the PyArrow regex filter on a string column *)
Definition arrow_regex_holds (p : pattern) (x : value) : bool :=
  match x with VStr s => arrow_matches p s | _ => false end.

(* known-finding domain: the pattern is not anchored at the start by the user *)
Definition kf_arrow_regex (p : pattern) : bool := negb (caret p).

(* what the PyArrow engine returns for a list of filters when regex filters use search semantics *)
Definition arrow_sat (f : filt) (r : row) : bool :=
  match denote f with
  | Some (CRegex p) => arrow_regex_holds p (get r (f_col f))
  | Some c => holds c (get r (f_col f))
  | None => false
  end.
Definition arrow_expected (names : list string) (fs : list filt) (t : table) : table :=
  filter (fun r => forallb (fun f => negb (applicable names f) || arrow_sat f r) fs) t.
