(* Model of ONE method of the PyArrow filter engine: the regex filter (C11).  Definitions only.

   Source: mloda_plugins/compute_framework/base_implementations/pyarrow/pyarrow_filter_engine.py do_regex_filter
   (as of /repo d2087b7 "anchor the PyArrow regex filter at the start of the string"):
       pattern = value if value.startswith("^") else f"^(?:{value})"
       mask = pc.match_substring_regex(column, pattern);  return data.filter(mask)
   match_substring_regex is RE2 *search* semantics: the pattern may match anywhere in the string unless it is anchored
   by "^" / "$" itself (`search`); a null cell gives a null mask entry, which Table.filter drops.  For the pattern
   family of Spec/Filter.v ( ["^"] literal ["$"] ) search semantics is: equal / prefix / suffix / infix, and
   "^(?:" lit ["$"] ")" is the same pattern with the caret set (`anchored`).
   Before d2087b7 the engine searched with the user's pattern as given (`search p s`): that is the repaired known
   finding C11-pyarrow-regex-unanchored, kept as C11_search_semantics_differs.
   The other PyArrow methods and the whole Pandas engine are library calls; they are compared with the SPEC directly
   (correspondence only, no model). *)
From Coq Require Import List String ZArith Bool.
Import ListNotations.
Require Import MV.Spec.Filter.

Fixpoint infix (l s : string) : bool :=
  prefix l s || match s with EmptyString => false | String _ s' => infix l s' end.
Fixpoint suffix (l s : string) : bool :=
  String.eqb s l || match s with EmptyString => false | String _ s' => suffix l s' end.

(* RE2 search with a pattern of the family *)
Definition search (p : pattern) (s : string) : bool :=
  match caret p, dollar p with
  | true, true => String.eqb s (lit p)
  | true, false => prefix (lit p) s
  | false, true => suffix (lit p) s
  | false, false => infix (lit p) s
  end.

(* value if value.startswith("^") else "^(?:" + value + ")" *)
Definition anchored (p : pattern) : pattern :=
  if caret p then p else {| caret := true; lit := lit p; dollar := dollar p |}.

Definition arrow_matches (p : pattern) (s : string) : bool := search (anchored p) s.

(* row predicate of the PyArrow regex filter on a string column *)
Definition arrow_regex_holds (p : pattern) (x : value) : bool :=
  match x with VStr s => arrow_matches p s | _ => false end.
