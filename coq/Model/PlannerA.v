(* Model of the planning pipeline of mloda for the STRICT STAGE-A FRAGMENT: requests in which every feature group has the
   same single compute framework, there are no Links, no global filter, no declared data types and only default
   options.  Definitions only; proofs are in Proofs/PlannerAP.v, statements in Props/PlannerA.v.

   Input: the feature graph after de-duplication, i.e. Engine.feature_link_parents together with the per-feature
   properties, as a list of nodes IN THE INSERTION ORDER OF THAT DICT, each with its direct inputs IN THE ITERATION
   ORDER OF ITS PARENT SET.  Both orders are parameters: theorems quantify over every list order (Spec/PlannerASpec.v
   graph_equiv).  How the recursion Engine.setup_features_recursion / _process_feature / add_feature_to_collection /
   _handle_input_features_recursion / _update_feature_link_parents produces that graph is described declaratively by
   request_graph below (nodes = one copy per requested name + one copy per name reachable through at least one input
   edge; a requested feature and the same-named dependency are different Feature objects because Feature.__eq__
   compares child_options: None for a requested feature, Options({}) for an input feature) and tied by correspondence.

   Mirrors, in pipeline order (mloda/core/...):
     prepare/graph/build_graph.py  BuildGraph.build_graph_from_feature_links       node_order, edges, children
     prepare/graph/graph.py        Graph.create_in_degree / iterate_nodes_and_edges  indeg, roots, dfs, queue_of
                                   Graph.get_direct_parents_for_each_child /
                                   set_direct_parents_for_each_child               gdp, pbd_of
                                   Graph.get_all_parents_for_each_child /
                                   set_all_parents_for_each_child                  gap, p2c_of   (parent_to_children_mapping)
     prepare/resolve_graph.py      get_nodes_with_same_feature_group_class         members
                                   combine_features_of_feature_group               planned_queue
                                   (resolve_links / add_links_to_queue / ResolveComputeFrameworks.links are the identity
                                    without Links: link_trekker.data stays empty)
     prepare/execution_plan.py     group_features_by_compute_framework_and_options Grouping.group_items (C15's model)
                                   _split_features_by_dependency_levels            split_levels, lv_loop
                                   retrieve_nodes_which_must_be_calculated_before  req_of_level
                                   get_parent_children_mapping / children_if_root  inverted, cir_of
                                   run_feature_group / add_feature_group_step      mk_step, steps_of_group, raw_plan
                                   add_joinstep / add_tfs                          add nothing in the fragment: tfs_needed
                                   _validate_required_uuids_are_produced           validate_A
                                   _validate_steps_do_not_wait_in_a_cycle          runsim, runsim_accepts   (/repo 12fe10c, 7287741)
   step.uuid is uuid4(): the model numbers the steps by their position in the plan (the exporter does the same).

   Python sets and dicts are lists in insertion order.  Every place where the code ITERATES a set whose order can reach
   the result passes through the order oracle `ord site l` (a permutation of l, Spec ord_ok); intermediate sets that are
   only tested for membership / filtered are kept as lists (their content, not their order, is what the code uses).
   Recursive Python functions get a fuel argument; Proofs show the fuel is never exhausted on acyclic graphs. *)
From Coq Require Import List Bool Arith.
Import ListNotations.
Require Import MV.Model.Orch MV.Model.OrchCheck MV.Model.Grouping.

(* ---------- Python sets / dicts ---------- *)
Definition set_add (x : nat) (l : list nat) : list nat := if mem x l then l else l ++ [x].
(* a.union(b), a.update(b) *)
Definition set_union (a b : list nat) : list nat := fold_left (fun acc x => set_add x acc) b a.
Definition dedupe (l : list nat) : list nat := set_union [] l.

Definition amap := list (nat * list nat).            (* Dict[UUID, Set[UUID]] in insertion order *)
Fixpoint aget (k : nat) (m : amap) : option (list nat) :=
  match m with [] => None | (k', v) :: t => if Nat.eqb k k' then Some v else aget k t end.
Definition aget0 (k : nat) (m : amap) : list nat := match aget k m with Some v => v | None => [] end.
(* m[k].add(x) on a defaultdict(set) *)
Fixpoint aadd (k x : nat) (m : amap) : amap :=
  match m with
  | [] => [(k, [x])]
  | (k', v) :: t => if Nat.eqb k k' then (k', set_add x v) :: t else (k', v) :: aadd k x t
  end.

(* order oracle: ord site l = the order in which the set l is iterated at that place of the code *)
Definition oparam := nat -> list nat -> list nat.
Definition ord_id : oparam := fun _ l => l.

(* ---------- the feature graph ---------- *)
Record fnode := {
  fid : nat;            (* feature.uuid (renamed) *)
  fgrp : nat;           (* feature group class *)
  fins : list nat;      (* feature_link_parents[uuid]: uuids of the direct input features *)
  freq : bool;          (* initial_requested_data *)
  fcfw : nat            (* the single element of feature.compute_frameworks *)
}.
Definition fgraph := list fnode.

Definition ids (g : fgraph) : list nat := map fid g.
Definition node_of (g : fgraph) (u : nat) : option fnode := find (fun n => Nat.eqb (fid n) u) g.
Definition grp_of (g : fgraph) (u : nat) : nat := match node_of g u with Some n => fgrp n | None => 0 end.
Definition cfw_of (g : fgraph) (u : nat) : nat := match node_of g u with Some n => fcfw n | None => 0 end.
Definition isreq (g : fgraph) (u : nat) : bool := match node_of g u with Some n => freq n | None => false end.
Definition ins_of (g : fgraph) (u : nat) : list nat := match node_of g u with Some n => fins n | None => [] end.

(* ---------- BuildGraph.build_graph_from_feature_links ---------- *)
(* for child, parents in feature_link_parents.items(): add_node(child); for parent in parents: add_node(parent); add_edge *)
Definition node_order (g : fgraph) : list nat := dedupe (flat_map (fun n => fid n :: fins n) g).     (* Graph.nodes keys *)
Definition edges (g : fgraph) : list (nat * nat) :=                                                   (* (parent, child) *)
  flat_map (fun n => map (fun p => (p, fid n)) (fins n)) g.
Definition children (g : fgraph) (p : nat) : list nat :=                                              (* adjacency_list[p] *)
  map snd (filter (fun e => Nat.eqb (fst e) p) (edges g)).
(* keys of adjacency_list that have a non-empty list, in insertion order (the keys added later by the defaultdict
   access in dfs have empty lists and contribute nothing to any loop over adjacency_list.items()) *)
Definition adj_keys (g : fgraph) : list nat := dedupe (map fst (edges g)).

(* ---------- Graph.iterate_nodes_and_edges ---------- *)
Definition indeg (g : fgraph) (u : nat) : nat := List.length (filter (fun e => Nat.eqb (snd e) u) (edges g)).
Definition roots (g : fgraph) : list nat := filter (fun u => Nat.eqb (indeg g u) 0) (node_order g).

(* dfs(node): state = (visited, queue) *)
Fixpoint dfs (fuel : nat) (g : fgraph) (node : nat) (st : list nat * list nat) : list nat * list nat :=
  match fuel with
  | 0 => st
  | S f =>
    if mem node (fst st) then st
    else fold_left (fun st' c => dfs f g c (if mem c (fst st') then st' else (fst st', snd st' ++ [c])))
                   (children g node) (node :: fst st, snd st)
  end.
Definition dfs_all (g : fgraph) : list nat * list nat :=
  fold_left (fun st r => dfs (S (List.length g)) g r st) (roots g) ([], roots g).
Definition queue_of (g : fgraph) : list nat := snd (dfs_all g).

(* ---------- Graph.set_direct_parents_for_each_child ---------- *)
(* get_direct_parents_for_each_child(parent, children): the recursion re-walks all descendants; it only ever adds pairs
   (child, direct parent) *)
Fixpoint gdp (fuel : nat) (g : fgraph) (parent : nat) (chs : list nat) (acc : amap) : amap :=
  fold_left (fun acc' c => let acc1 := aadd c parent acc' in
                           match fuel with 0 => acc1 | S f => gdp f g c (children g c) acc1 end) chs acc.
Definition pbd_of (g : fgraph) : amap :=                                                  (* parents_by_direct_ *)
  fold_left (fun acc p => gdp (List.length g) g p (children g p) acc) (adj_keys g) [].

(* ---------- Graph.set_all_parents_for_each_child ---------- *)
Fixpoint gap (fuel : nat) (pbd : amap) (parents : list nat) : list nat :=
  match parents with
  | [] => []
  | _ :: _ =>
    match fuel with
    | 0 => parents          (* Python: RecursionError on a cyclic graph; never reached on acyclic graphs *)
    | S f => set_union parents (fold_left (fun rs p => set_union rs (gap f pbd (aget0 p pbd))) parents [])
    end
  end.
Definition p2c_of (g : fgraph) : amap :=                                                  (* parent_to_children_mapping *)
  let pbd := pbd_of g in
  map (fun kv => (fst kv, set_union (gap (S (List.length g)) pbd (snd kv)) (snd kv))) pbd.
(* parent_to_children_mapping.get(u, set()) *)
Definition closure (g : fgraph) (u : nat) : list nat := aget0 u (p2c_of g).

(* ---------- ResolveGraph ---------- *)
(* nodes_per_feature_group[fg]: the features of the queue with that class (a set) *)
Definition members (g : fgraph) (q : list nat) (grp : nat) : list nat :=
  dedupe (filter (fun u => Nat.eqb (grp_of g u) grp) q).
(* combine_features_of_feature_group: the group is placed where its first feature is *)
Definition planned_queue (g : fgraph) (q : list nat) : list (nat * list nat) :=
  snd (fold_left (fun st u => if mem u (fst st) then st
                              else let ms := members g q (grp_of g u) in (fst st ++ ms, snd st ++ [(grp_of g u, ms)]))
                 q ([], [])).

(* ---------- ExecutionPlan._split_features_by_dependency_levels ---------- *)
Definition intra_of (cl : nat -> list nat) (feats : list nat) (u : nat) : list nat :=
  filter (fun a => mem a feats) (cl u).                                   (* ancestors & feature_uuids *)

(* the while loop; the boolean records whether the `ready = remaining` fallback was taken *)
Fixpoint lv_loop (fuel : nat) (intra : nat -> list nat) (remaining placed : list nat)
                 (levels : list (list nat)) (fb : bool) : list (list nat) * bool :=
  match fuel with
  | 0 => (levels, fb)
  | S f =>
    match remaining with
    | [] => (levels, fb)
    | _ :: _ =>
      let ready := filter (fun u => subset (intra u) placed) remaining in
      let ready' := match ready with [] => remaining | _ :: _ => ready end in
      let fb' := match ready with [] => true | _ :: _ => fb end in
      lv_loop f intra (remove_all ready' remaining) (placed ++ ready') (levels ++ [ready']) fb'
    end
  end.

Definition no_deps (intra : nat -> list nat) (feats : list nat) : bool :=
  forallb (fun u => match intra u with [] => true | _ :: _ => false end) feats.

Definition split_levels (cl : nat -> list nat) (feats : list nat) : list (list nat) * bool :=
  let intra := intra_of cl feats in
  if no_deps intra feats then ([feats], false)
  else lv_loop (List.length feats) intra feats [] [] false.

(* ---------- ExecutionPlan.run_feature_group ---------- *)
(* base_similarity_properties = hash((options, frozenset(cfw))): default options everywhere, so the class is the cfw *)
Definition item_of (g : fgraph) (u : nat) : item := {| it_id := u; it_kb := cfw_of g u; it_ty := None |}.

(* retrieve_nodes_which_must_be_calculated_before (links add nothing: child_links is empty) *)
Definition req_of_level (cl : amap) (lvl : list nat) : list nat :=
  fold_left (fun acc u => match aget u cl with Some a => set_union acc a | None => acc end) lvl [].

Definition mk_step (ord : oparam) (g : fgraph) (cl : amap) (lvl : list nat) : step :=
  {| sid := 0; skind := KFG; uuids := ord 2 lvl; req := ord 3 (req_of_level cl lvl);
     requested := existsb (isreq g) lvl |}.

Definition levels_of_group (ord : oparam) (g : fgraph) (cl : amap) (ms : list nat) : list (list (list nat) * bool) :=
  map (fun its => split_levels (fun u => aget0 u cl) (ord 1 (map it_id its)))
      (group_items (map (item_of g) (ord 0 ms))).

Definition steps_of_group (ord : oparam) (g : fgraph) (cl : amap) (ms : list nat) : list step :=
  flat_map (fun lv => map (mk_step ord g cl) (fst lv)) (levels_of_group ord g cl ms).

(* add_feature_group_step *)
Definition raw_plan (ord : oparam) (g : fgraph) : list step :=
  let cl := p2c_of g in
  flat_map (fun e => steps_of_group ord g cl (snd e)) (planned_queue g (queue_of g)).

Definition set_sid (i : nat) (s : step) : step :=
  {| sid := i; skind := skind s; uuids := uuids s; req := req s; requested := requested s |}.
Fixpoint number (i : nat) (p : list step) : plan :=
  match p with [] => [] | s :: t => set_sid i s :: number (S i) t end.
Definition plan_of (ord : oparam) (g : fgraph) : plan := number 0 (raw_plan ord g).

(* was the `if not ready: ready = remaining` fallback taken anywhere? *)
Definition fallback_used (ord : oparam) (g : fgraph) : bool :=
  let cl := p2c_of g in
  existsb (fun e => existsb (fun lv => snd lv) (levels_of_group ord g cl (snd e))) (planned_queue g (queue_of g)).

(* ---------- children_if_root (data routing; not part of Orch.step, compared by the harness) ---------- *)
(* get_parent_children_mapping *)
Definition inverted (cl : amap) : amap :=
  fold_left (fun acc kv => fold_left (fun acc' v => aadd v (fst kv) acc') (snd kv) acc) cl [].
(* children_if_root of the FeatureGroupStep for the features lvl (the constructor adds the step's own uuids) *)
Definition cir_of (cl : amap) (lvl : list nat) : list nat :=
  let inv := inverted cl in
  set_union (fold_left (fun acc u => match aget u inv with Some a => set_union acc a | None => acc end) lvl []) lvl.
Definition cir_plan (ord : oparam) (g : fgraph) : list (list nat) :=
  let cl := p2c_of g in map (fun s => cir_of cl (uuids s)) (plan_of ord g).

(* ---------- add_joinstep / add_tfs / validation ---------- *)
(* add_joinstep: the pre-execution plan contains no link tuples, so it is the identity.
   add_tfs on a FeatureGroupStep: parents = p2c[any_uuid]; a TransformFrameworkStep is created for a parent that is not a
   parent's parent and whose compute framework differs from the step's (any_uuid and the step's framework both come from
   the first feature of the step's feature set).  The model does not build such steps: it reports that one is needed. *)
Definition tfs_needed (g : fgraph) (cl : amap) (s : step) : bool :=
  match uuids s with
  | [] => false
  | a :: _ =>
    let parents := aget0 a cl in
    let pp := flat_map (fun p => aget0 p cl) parents in
    existsb (fun p => negb (mem p pp) && negb (Nat.eqb (cfw_of g a) (cfw_of g p))) parents
  end.
(* _validate_required_uuids_are_produced: every required uuid is produced by some step *)
Definition validate_A (p : plan) : bool := forallb (fun s => subset (req s) (all_uuids p)) p.

(* _validate_steps_do_not_wait_in_a_cycle (called at the end of _validate_required_uuids_are_produced; /repo 12fe10c, start
   condition as of 7287741):
     finished = set(); remaining = list(plan); progress = True
     while remaining and progress:
         ready = [step for step in remaining if set(step.required_uuids) <= finished]
         progress = bool(ready)
         for step in ready: finished.update(step.get_uuids())
         remaining = [step for step in remaining if id(step) not in ready_ids]
     if remaining: raise ValueError("... wait for each other in a cycle ...")
   The start condition is exactly ExecutionOrchestrator._can_run_step's (Model/Orch.v visit: subset (req s) finished).
   runsim returns the steps left over; fuel = number of steps (every round with progress removes at least one step). *)
Definition runsim_ready (finished : list nat) (s : step) : bool := subset (req s) finished.
Fixpoint runsim (fuel : nat) (remaining : plan) (finished : list nat) : plan :=
  match fuel with
  | 0 => remaining
  | S f =>
    match remaining with
    | [] => []
    | _ :: _ =>
      match filter (runsim_ready finished) remaining with
      | [] => remaining
      | ready => runsim f (filter (fun s => negb (runsim_ready finished s)) remaining) (finished ++ flat_map uuids ready)
      end
    end
  end.
Definition runsim_accepts (p : plan) : bool := match runsim (List.length p) p [] with [] => true | _ :: _ => false end.

(* the structural part of wf_plan (everything except the order); no_self_req: no step requires one of its own uuids (a
   consequence of well-formedness; before 7287741 it was a side condition of the validation's soundness) *)
Definition wf_struct (p : plan) : bool :=
  forallb (fun s => match uuids s with [] => false | _ => true end) p
  && nodupb (map sid p) && nodupb (all_uuids p)
  && forallb (fun s => forallb (produced p) (req s)) p.
Definition no_self_req (p : plan) : bool := forallb (fun s => disjoint (req s) (uuids s)) p.

Inductive presult := Planned (p : plan) | RejectedIncomplete | RejectedCycle | OutsideFragment.
Definition prepare_A (ord : oparam) (g : fgraph) : presult :=
  let p := plan_of ord g in
  if existsb (tfs_needed g (p2c_of g)) p then OutsideFragment
  else if negb (validate_A p) then RejectedIncomplete
  else if runsim_accepts p then Planned p else RejectedCycle.

(* ---------- the fragment, decidably ---------- *)
Definition strictb (g : fgraph) : bool :=
  match g with [] => true | n :: _ => forallb (fun m => Nat.eqb (fcfw m) (fcfw n)) g end.

(* a list of items such that every item's dependencies come earlier; used as a rank witness *)
Fixpoint topo_list (fuel : nat) (deps : nat -> list nat) (items placed : list nat) : list nat :=
  match fuel with
  | 0 => placed
  | S f =>
    match filter (fun x => negb (mem x placed) && subset (deps x) placed) items with
    | [] => placed
    | ready => topo_list f deps items (placed ++ ready)
    end
  end.
Definition before (order : list nat) (a b : nat) : bool :=
  match pos a order, pos b order with Some i, Some j => Nat.ltb i j | _, _ => false end.

Definition acyclicb (g : fgraph) : bool :=
  let order := topo_list (S (List.length g)) (ins_of g) (ids g) [] in
  forallb (fun n => forallb (fun p => before order p (fid n)) (fins n)) g.

Definition graph_okb (g : fgraph) : bool :=
  nodupb (ids g) && forallb (fun n => subset (fins n) (ids g) && nodupb (fins n)) g && acyclicb g.

(* the feature GROUPS depend on each other acyclically (edges inside one group do not count) *)
Definition grp_deps (g : fgraph) (k : nat) : list nat :=
  dedupe (flat_map (fun n => if Nat.eqb (fgrp n) k
                             then filter (fun k' => negb (Nat.eqb k' k)) (map (grp_of g) (fins n)) else []) g).
Definition group_dagb (g : fgraph) : bool :=
  let gs := dedupe (map fgrp g) in
  let order := topo_list (S (List.length gs)) (grp_deps g) gs [] in
  forallb (fun n => forallb (fun p => Nat.eqb (grp_of g p) (fgrp n) || before order (grp_of g p) (fgrp n)) (fins n)) g.

(* ---------- requests: the graph the engine recursion produces, declaratively ---------- *)
Record fdef := { dname : nat; dgrp : nat; dins : list nat; dcfw : nat }.       (* feature name -> group, input names *)
Definition def_of (defs : list fdef) (x : nat) : option fdef := find (fun d => Nat.eqb (dname d) x) defs.
Definition dins_of (defs : list fdef) (x : nat) : list nat := match def_of defs x with Some d => dins d | None => [] end.
(* names reachable from the requested names through at least one input edge *)
Fixpoint reach (fuel : nat) (defs : list fdef) (acc : list nat) : list nat :=
  match fuel with
  | 0 => acc
  | S f => reach f defs (set_union acc (flat_map (dins_of defs) acc))
  end.
Definition reach_of (defs : list fdef) (rq : list nat) : list nat :=
  reach (List.length defs) defs (dedupe (flat_map (dins_of defs) rq)).
Definition dep_id (x : nat) : nat := 2 * x.          (* the copy with child_options = Options({}) *)
Definition top_id (x : nat) : nat := 2 * x + 1.      (* the requested copy, child_options = None *)
Definition node_for (defs : list fdef) (top : bool) (x : nat) : list fnode :=
  match def_of defs x with
  | Some d => [{| fid := if top then top_id x else dep_id x; fgrp := dgrp d; fins := map dep_id (dins d);
                  freq := top; fcfw := dcfw d |}]
  | None => []
  end.
Definition request_graph (defs : list fdef) (rq : list nat) : fgraph :=
  flat_map (node_for defs true) rq ++ flat_map (node_for defs false) (reach_of defs rq).

(* decidable forms of the hypotheses on requests (Spec/PlannerASpec.v defs_ok, defs_group_dag) *)
Definition defs_okb (defs : list fdef) (rq : list nat) : bool :=
  let names := map dname defs in
  let order := topo_list (S (List.length defs)) (dins_of defs) names [] in
  nodupb names && forallb (fun d => subset (dins d) names && nodupb (dins d)) defs
  && forallb (fun d => forallb (fun x => before order x (dname d)) (dins d)) defs
  && nodupb rq && subset rq names
  && match defs with [] => true | d0 :: _ => forallb (fun d => Nat.eqb (dcfw d) (dcfw d0)) defs end.
Definition dgrp_of (defs : list fdef) (x : nat) : nat := match def_of defs x with Some d => dgrp d | None => 0 end.
Definition dgrp_deps (defs : list fdef) (k : nat) : list nat :=
  dedupe (flat_map (fun e => if Nat.eqb (dgrp e) k
                             then filter (fun k' => negb (Nat.eqb k' k)) (map (dgrp_of defs) (dins e)) else []) defs).
Definition defs_group_dagb (defs : list fdef) : bool :=
  let gs := dedupe (map dgrp defs) in
  let order := topo_list (S (List.length gs)) (dgrp_deps defs) gs [] in
  forallb (fun e => forallb (fun x => Nat.eqb (dgrp_of defs x) (dgrp e) || before order (dgrp_of defs x) (dgrp e)) (dins e)) defs.

(* ---------- checkers for the correspondence harness (harness/planner_a.py) ---------- *)
Definition amap_eqb (a b : amap) : bool :=
  forallb (fun kv => set_eqb (snd kv) (aget0 (fst kv) b)) a && forallb (fun kv => set_eqb (snd kv) (aget0 (fst kv) a)) b.
Definition nodes_equivb (a b : fnode) : bool :=
  Nat.eqb (fid a) (fid b) && Nat.eqb (fgrp a) (fgrp b) && set_eqb (fins a) (fins b)
  && Nat.eqb (List.length (fins a)) (List.length (fins b)) && Bool.eqb (freq a) (freq b) && Nat.eqb (fcfw a) (fcfw b).
Definition graph_equivb (g g' : fgraph) : bool :=
  Nat.eqb (List.length g) (List.length g') &&
  forallb (fun n => match node_of g' (fid n) with Some n' => nodes_equivb n n' | None => false end) g.

(* observed step: uuids, required_uuids, requested, children_if_root *)
Definition ostep := (list nat * list nat * bool * list nat)%type.
Definition step_matches (cl : amap) (s : step) (o : ostep) : bool :=
  match o with
  | (us, rq, rqd, cir) =>
    set_eqb (uuids s) us && Nat.eqb (List.length (uuids s)) (List.length us)
    && set_eqb (req s) rq && Nat.eqb (List.length (req s)) (List.length rq)
    && Bool.eqb (requested s) rqd && set_eqb (cir_of cl (uuids s)) cir
  end.
Fixpoint plan_matches (cl : amap) (p : plan) (o : list ostep) : bool :=
  match p, o with
  | [], [] => true
  | s :: p', x :: o' => step_matches cl s x && plan_matches cl p' o'
  | _, _ => false
  end.

(* one observed preparation: the request (definitions, requested names), the engine's graph in its own orders, the
   DFS queue, parent_to_children_mapping (non-empty entries) and the plan in plan order *)
(* pc_outcome: what the real prepare did: 0 = accepted, 1 = ValueError 'Execution plan is incomplete', 2 = ValueError
   '... wait for each other in a cycle'; the steps are observed in all three cases *)
Record pcase := { pc_defs : list fdef; pc_req : list nat; pc_g : fgraph; pc_queue : list nat; pc_p2c : amap;
                  pc_plan : list ostep; pc_outcome : nat }.
Definition outcome_code (r : presult) : nat :=
  match r with Planned _ => 0 | RejectedIncomplete => 1 | RejectedCycle => 2 | OutsideFragment => 3 end.
Definition chk_request (c : pcase) : bool :=
  defs_okb (pc_defs c) (pc_req c) && graph_equivb (request_graph (pc_defs c) (pc_req c)) (pc_g c).
Definition chk_graph (c : pcase) : bool := graph_okb (pc_g c) && strictb (pc_g c).
Definition chk_queue (c : pcase) : bool := list_eqb (queue_of (pc_g c)) (pc_queue c).
Definition chk_closure (c : pcase) : bool :=
  amap_eqb (filter (fun kv => match snd kv with [] => false | _ => true end) (p2c_of (pc_g c))) (pc_p2c c).
Definition chk_plan (c : pcase) : bool :=
  plan_matches (p2c_of (pc_g c)) (plan_of ord_id (pc_g c)) (pc_plan c)
  && Nat.eqb (outcome_code (prepare_A ord_id (pc_g c))) (pc_outcome c).
Definition chk_planner (c : pcase) : bool :=
  chk_request c && chk_graph c && chk_queue c && chk_closure c && chk_plan c.
(* the plan computed from the request alone (canonical orders) has the same steps up to order *)
Definition step_in (cl : amap) (o : list ostep) (s : step) : bool := existsb (step_matches cl s) o.
Definition chk_request_plan (c : pcase) : bool :=
  let g := request_graph (pc_defs c) (pc_req c) in
  let p := plan_of ord_id g in
  Nat.eqb (List.length p) (List.length (pc_plan c)) && forallb (step_in (p2c_of g) (pc_plan c)) p.
(* classification *)
Definition model_wf (c : pcase) : bool := wf_plan_auto (plan_of ord_id (pc_g c)).
(* the model's accept / reject decision agrees with well-formedness of the plan (theorem prepare_accepts_iff) *)
Definition model_accept_iff_wf (c : pcase) : bool :=
  Bool.eqb (Nat.eqb (outcome_code (prepare_A ord_id (pc_g c))) 0) (wf_plan_auto (plan_of ord_id (pc_g c))).
Definition model_accepted (c : pcase) : bool := Nat.eqb (outcome_code (prepare_A ord_id (pc_g c))) 0.
(* the request-level plan gives the same decision *)
Definition chk_request_outcome (c : pcase) : bool :=
  Nat.eqb (outcome_code (prepare_A ord_id (request_graph (pc_defs c) (pc_req c)))) (pc_outcome c).
Definition model_group_dag (c : pcase) : bool := group_dagb (pc_g c).
Definition model_defs_group_dag (c : pcase) : bool := defs_group_dagb (pc_defs c).
Definition model_req_covers (c : pcase) : bool :=
  req_covers (plan_of ord_id (pc_g c)) (map (fun n => (fid n, fins n)) (pc_g c)).
