(* Model of the protocol between ExecutionOrchestrator and its workers (THREADING and MULTIPROCESSING back ends) as a
   labelled transition system.  Model/Orch.v treats a worker completion as one atomic event `EDone s ok`; here the worker
   side, the command/result queues, the error register, the Flight store and the finally block are explicit and every
   shared-memory access of the orchestrator is a transition of its own, so that worker transitions interleave with the
   orchestrator INSIDE a loop iteration.  Definitions only; proofs in Proofs/WorkerP.v, statements in Props/Worker.v.

   State                       source
   ------------------------------------------------------------------------------------------------------------------
   o : Orch.ost                locals of compute()/compute_stream() (run.py:96-98,151-153), step.step_is_done /
                               WorkerManager.result_uuids_collection (= done), CfwManager.error (= failed, head = the
                               message the caller sees; set_error overwrites), result_data_collection (= results)
   pc, sc                      program counter of the main thread; sc = index of the for loop (ghost, kept after a crash)
   ws w                        worker w: MP = the process of compute-framework object w (worker_manager.py:30-44
                               process_register[cfw_uuid]); THREADING = the thread of step w (one thread per step,
                               compute_framework_executor.py:237-249)
     cmdq                      command_queue (FIFO; writers: main thread, and the worker's own final "STOP")
     resq / requeued           result_queue: messages written by the worker (FIFO) / messages the main thread took and
                               put back in wait_for_drop_completion (worker_manager.py:80-91).  A multiprocessing.Queue with
                               two writers has no order between them, so a get returns the head of resq or ANY requeued one.
     trk                       cfw.already_calculated_children_tracker inside the worker (compute_framework.py:316-333)
   tasks                       WorkerManager.tasks in creation order
   flight                      keys in the Arrow Flight store written by this run; key = str(cfw.uuid) = worker id
                               (compute_framework.py:415-437 upload_finished_data)
   sent, replies, dropfail     ghosts: commands submitted (worker, step); result/error reports produced (step, ok);
                               the final drop raised and was swallowed
   undelivered                 ghost: results that were collected but never handed to the consumer because it closed the stream
                               in the middle of a drain: what is still in DataLifecycleManager.result_data_collection when
                               GeneratorExit arrives (data_lifecycle_manager.py:148-157 pop_result_data_collection pops ONE item,
                               yields it, pops the next ...).  `o` keeps Model/Orch.v's view (the whole drain moves results to
                               yielded at the end of the scan); yielded minus undelivered = what the consumer received

   Transition                  source lines mirrored
   ------------------------------------------------------------------------------------------------------------------
   OHead                       run.py:101-108 / 156-163   while-condition FIRST, then get_error()  (head_src; Orch.loop_head
                               tests the error first - Proofs/WorkerP.v head_src_loop_head shows they agree on reachable states)
   OVisit                      run.py:111-128 a visit that touches no shared state: step finished (116), not startable (125),
                               or running and `step.uuid in result_uuids_collection or step.step_is_done` false (run.py:205-209)
   OPoll taken                 run.py:204 poll_result_queues, worker_manager.py:64-74: ONE get(block=False) per result queue in
                               set-iteration order; `taken` = the messages received.  A step uuid is added to
                               result_uuids_collection; a ("DROP_COMPLETE", uuid) tuple - an acknowledgement that arrived after
                               wait_for_drop_completion had given up - is skipped (`continue`, lines 69-71, repair 10693fe) at
                               whatever position of the iteration it is met.  Before 10693fe UUID(tuple) raised AttributeError
                               there (crash point CPoll -> finally with XRaisedBody): kept as poll_old / step_old below, used
                               only by the regression witness in Proofs/WorkerWitP.v
   OCollect ok                 run.py:205-222 _process_step_result of a done step: get_cfw, add_to_result_data_collection
                               (data_lifecycle_manager.py:86-131: download_table / convert / select), then _drop_data_if_possible
                               (run.py:224-249) -> in MP command_queue.put(feature uuids) to the worker of the object found by
                               get_cfw (wdrop), then _mark_step_as_finished (122).  ok = false: crash point CResult
   ORequeue / OGot / OTimeout  worker_manager.py:80-91 wait_for_drop_completion: get; DROP_COMPLETE -> return; other -> put back;
                               5 s timeout -> return (logs a warning)
   OExec ok                    run.py:125-129 _can_run_step (adds to currently_running BEFORE executing) + _execute_step ->
                               compute_framework_executor.py:237-272: prepare_execute_step / prepare_tfs_* (ok = false: crash
                               point CPrepare, ValueError), create_worker_process (tasks.append, start) if the object has none,
                               send_command = command_queue.put(step); THREADING: Thread(thread_worker), tasks.append, start
   OSendFail                   MP only, worker_manager.py:50-62 send_command (repair d86b7a0): the step is pickled in the caller
                               BEFORE command_queue.put; a step that cannot be pickled raises ValueError = crash point CSend.
                               It fires AFTER create_worker_process (compute_framework_executor.py:261-272): a new worker is
                               already started and in `tasks`, its command queue is empty, nothing was submitted (before
                               d86b7a0 the feeder thread dropped the step silently and the run polled for ever).  The drop
                               command (a set of uuids, run.py:242) goes through command_queue.put directly and always pickles
   OEndScan                    end of the for loop (+ run.py:185 yield from pop_result_data_collection: the first item is popped
                               (dict.popitem = the most recently collected = head of `results`) and yielded; PYield pending,
                               pending = that item :: the items still in the collection)
   ONext                       the consumer asks for the next item and there is one: popped and yielded (no loop head in between)
   OResume                     the consumer asks for the next item after the last one of the drain: the generator goes on to
                               the sleep and the loop head
   OAbandon                    the consumer closes the generator: GeneratorExit at the yield, the item it holds was delivered,
                               the rest of the drain (tl pending) never is -> undelivered
   OArtifacts ok               run.py:135 / 193 set_artifacts(cfw_register.get_artifacts()) - a manager call that precedes
                               self.join() in the finally block; ok = false: crash point CArtifacts (join is never reached)
   OTerminate w, OJoin w       worker_manager.py:93-108 join_all: for task in tasks: terminate() (processes only); join()
   OClose                      worker_manager.py:110-118 _close_queues
   ODropAll ok                 run.py:282-297 _drop_uploaded_datasets: drop_tables(location, all cfw uuids); an exception is
                               logged and swallowed (ok = false: crash point CFinalDrop)
   WTake w                     multiprocessing_worker.py:112-125 command_queue.get; "STOP" -> break; set -> dropping; step -> run
   WUpload w                   cfw.upload_finished_data: feature_group_step.py:57-60, transform_frame_work_step.py:77-78,
                               join_step.py:45-49, compute_framework.py:205-206, multiprocessing_worker.py:87-92
   WDone w                     multiprocessing_worker.py:94-95 result_queue.put(str(command.uuid)); thread_worker.py:14
                               command.step_is_done = True
   WFail w c                   multiprocessing_worker.py:131-140 / thread_worker.py:15-20: set_error, (MP) put "STOP", exit.
                               c = CCalc: command.execute raised; c = CUpload: the upload raised
   WDropAck w last dropped     multiprocessing_worker.py:27-43 _handle_data_dropping: tracker update, drop_last_data when all
                               children are calculated (dropped = the data was an uploaded object id), put DROP_COMPLETE,
                               last -> put "STOP" and exit
   WDropCrash w                the same function raises in drop_last_data (it is OUTSIDE the try of the worker loop): the
                               process dies without any report = crash point CWorkerDrop

   Not modelled: a mixed mode set (a run is THREADING or MULTIPROCESSING), the SYNC back end (Orch.v inline = true), the
   deferred drops of DataLifecycleManager (in MP the parent's cfw.data is never an object id, so they do not touch the
   store; the store is emptied by ODropAll), exceptions raised by terminate()/join() themselves, the `len(to_finish_ids)
   == 0: break` of compute_stream on an empty plan (as in Orch.v; no request reaches the runtime with an empty plan). *)
From Coq Require Import List Bool Arith.
Import ListNotations.
Require Import MV.Model.Orch.

Inductive crashpt := CCalc | CUpload.
Inductive cmd := CStep (s : nat) | CDrop (fs : list nat) | CStop.
Inductive rmsg := RDone (s : nat) | RDropComplete.
Inductive wphase := WNone | WIdle | WRun (s : nat) | WDropping (fs : list nat) | WExited | WFailed | WCrashed | WKilled.

Record wst := { phase : wphase; cmdq : list cmd; resq : list rmsg; requeued : list nat; trk : list nat;
                terminated : bool; joined : bool }.

Definition w0 : wst := {| phase := WNone; cmdq := []; resq := []; requeued := []; trk := []; terminated := false; joined := false |}.

Definition alive (ph : wphase) : bool := match ph with WIdle | WRun _ | WDropping _ => true | _ => false end.
Definition dead (ph : wphase) : bool := match ph with WExited | WFailed | WCrashed | WKilled => true | _ => false end.
Definition spawned (ph : wphase) : bool := match ph with WNone => false | _ => true end.

Inductive exitk := XNormal | XRaisedHead | XRaisedBody | XAbandon | XFinallyCrash.

Inductive opc :=
  | PHead | PVisit (i : nat) | PPolled (i : nat) | PWait (i w : nat) | PYield (pending : list nat)
  | PFinally (x : exitk) | PTerm (x : exitk) (k : nat) | PJoin (x : exitk) (k : nat) | PDrop (x : exitk) | PExited (x : exitk).

Record cfg := {
  cplan : plan;
  mp : bool;                         (* MULTIPROCESSING (true) or THREADING (false) *)
  cstream : bool;                    (* compute_stream (true) or compute (false) *)
  wof : nat -> nat;                  (* sid -> worker (object) that executes the step: result of prepare_execute_step *)
  wdrop : nat -> nat;                (* sid -> object found by get_cfw in _process_step_result (receives the drop command) *)
  children : nat -> list nat;        (* worker -> cfw.children_if_root *)
  wfail : nat -> option crashpt      (* oracle: sid -> the execution raises at this crash point *)
}.

Record pst := {
  o : ost; pc : opc; sc : option nat; ws : nat -> wst; tasks : list nat; flight : list nat;
  sent : list (nat * nat); replies : list (nat * bool); dropfail : bool; undelivered : list nat
}.

Definition upd (f : nat -> wst) (w : nat) (x : wst) : nat -> wst := fun k => if Nat.eqb k w then x else f k.

Definition pinit : pst :=
  {| o := init; pc := PHead; sc := None; ws := fun _ => w0; tasks := []; flight := []; sent := []; replies := []; dropfail := false;
     undelivered := [] |}.

(* ---- record updates ---- *)
Definition set_phase (x : wst) (ph : wphase) : wst :=
  {| phase := ph; cmdq := cmdq x; resq := resq x; requeued := requeued x; trk := trk x; terminated := terminated x; joined := joined x |}.
Definition set_cmdq (x : wst) (q : list cmd) : wst :=
  {| phase := phase x; cmdq := q; resq := resq x; requeued := requeued x; trk := trk x; terminated := terminated x; joined := joined x |}.
Definition set_resq (x : wst) (q : list rmsg) (r : list nat) : wst :=
  {| phase := phase x; cmdq := cmdq x; resq := q; requeued := r; trk := trk x; terminated := terminated x; joined := joined x |}.
Definition set_trk (x : wst) (t : list nat) : wst :=
  {| phase := phase x; cmdq := cmdq x; resq := resq x; requeued := requeued x; trk := t; terminated := terminated x; joined := joined x |}.
Definition set_term (x : wst) : wst :=
  {| phase := if alive (phase x) then WKilled else phase x; cmdq := cmdq x; resq := resq x; requeued := requeued x; trk := trk x;
     terminated := true; joined := joined x |}.
Definition set_joined (x : wst) : wst :=
  {| phase := phase x; cmdq := cmdq x; resq := resq x; requeued := requeued x; trk := trk x; terminated := terminated x; joined := true |}.

Definition add_done (s : nat) (a : ost) : ost :=
  {| finished := finished a; running := running a; started := started a; done := s :: done a; failed := failed a;
     results := results a; yielded := yielded a; scans := scans a |}.
Definition add_failed (s : nat) (a : ost) : ost :=
  {| finished := finished a; running := running a; started := started a; done := done a; failed := s :: failed a;
     results := results a; yielded := yielded a; scans := scans a |}.

Definition mk (st : pst) (a : ost) (q : opc) (i : option nat) (f : nat -> wst) : pst :=
  {| o := a; pc := q; sc := i; ws := f; tasks := tasks st; flight := flight st; sent := sent st; replies := replies st;
     dropfail := dropfail st; undelivered := undelivered st |}.
Definition set_pc (st : pst) (q : opc) : pst := mk st (o st) q (sc st) (ws st).
Definition set_tasks (st : pst) (t : list nat) (sn : list (nat * nat)) : pst :=
  {| o := o st; pc := pc st; sc := sc st; ws := ws st; tasks := t; flight := flight st; sent := sn; replies := replies st;
     dropfail := dropfail st; undelivered := undelivered st |}.
Definition set_flight (st : pst) (fl : list nat) (df : bool) : pst :=
  {| o := o st; pc := pc st; sc := sc st; ws := ws st; tasks := tasks st; flight := fl; sent := sent st; replies := replies st;
     dropfail := df; undelivered := undelivered st |}.
Definition add_reply (st : pst) (r : nat * bool) : pst :=
  {| o := o st; pc := pc st; sc := sc st; ws := ws st; tasks := tasks st; flight := flight st; sent := sent st;
     replies := r :: replies st; dropfail := dropfail st; undelivered := undelivered st |}.
Definition set_undelivered (st : pst) (u : list nat) : pst :=
  {| o := o st; pc := pc st; sc := sc st; ws := ws st; tasks := tasks st; flight := flight st; sent := sent st;
     replies := replies st; dropfail := dropfail st; undelivered := u |}.

(* ---- the orchestrator's tests ---- *)
Definition nofail : nat -> bool := fun _ => false.
Definition ovisit (a : ost) (s : step) : ost := visit false nofail a s.
Definition is_fin (s : step) (a : ost) : bool := subset (uuids s) (finished a).
Definition can_run (s : step) (a : ost) : bool := subset (req s) (finished a) && disjoint (uuids s) (running a).

(* source order of the loop head: the while-condition first, then the error flag *)
Definition head_src (p : plan) (a : ost) : status :=
  let err := match failed a with [] => Looping | _ :: _ => Raised end in
  match finished a with
  | [] => err
  | _ :: _ => if subset (all_uuids p) (finished a) then ExitNormal else err
  end.

Definition rmsg_eqb (a b : rmsg) : bool :=
  match a, b with RDone x, RDone y => Nat.eqb x y | RDropComplete, RDropComplete => true | _, _ => false end.

Fixpoint remove1 (s : nat) (l : list nat) : list nat :=
  match l with [] => [] | x :: t => if Nat.eqb x s then t else x :: remove1 s t end.

(* one get on the result queue of a worker that returns message m *)
Definition take_msg (x : wst) (m : rmsg) : option wst :=
  let from_requeued :=
    match m with
    | RDone s => if mem s (requeued x) then Some (set_resq x (resq x) (remove1 s (requeued x))) else None
    | RDropComplete => None
    end in
  match resq x with
  | h :: r => if rmsg_eqb h m then Some (set_resq x r (requeued x)) else from_requeued
  | [] => from_requeued
  end.

(* poll_result_queues (worker_manager.py:64-74): a step uuid is recorded, a DROP_COMPLETE acknowledgement is consumed and
   skipped, wherever in the iteration over the result queues it is met *)
Fixpoint poll (f : nat -> wst) (a : ost) (taken : list (nat * rmsg)) : option ((nat -> wst) * ost) :=
  match taken with
  | [] => Some (f, a)
  | (w, m) :: t =>
    if spawned (phase (f w)) then
      match take_msg (f w) m with
      | None => None
      | Some x => poll (upd f w x) (match m with RDone s => add_done s a | RDropComplete => a end) t
      end
    else None
  end.

(* PRE-10693fe behaviour of poll_result_queues, kept as a regression input only: the bool says that UUID(...) raised on a
   DROP_COMPLETE tuple (then it is the last message taken) *)
Fixpoint poll_old (f : nat -> wst) (a : ost) (taken : list (nat * rmsg)) : option ((nat -> wst) * ost * bool) :=
  match taken with
  | [] => Some (f, a, false)
  | (w, m) :: t =>
    if spawned (phase (f w)) then
      match take_msg (f w) m with
      | None => None
      | Some x =>
        match m with
        | RDone s => poll_old (upd f w x) (add_done s a) t
        | RDropComplete => match t with [] => Some (upd f w x, a, true) | _ :: _ => None end
        end
      end
    else None
  end.

Inductive label :=
  | OHead | OVisit | OPoll (taken : list (nat * rmsg)) | OCollect (ok : bool)
  | ORequeue (w s : nat) | OGot (w : nat) | OTimeout (w : nat)
  | OExec (ok : bool) | OEndScan | OResume | OAbandon
  | OArtifacts (ok : bool) | OTerminate (w : nat) | OJoin (w : nat) | OClose | ODropAll (ok : bool)
  | WTake (w : nat) | WUpload (w : nat) | WDone (w : nat) | WFail (w : nat) (c : crashpt)
  | WDropAck (w : nat) (last dropped : bool) | WDropCrash (w : nat)
  | OSendFail | ONext.

Definition is_worker_label (l : label) : bool :=
  match l with WTake _ | WUpload _ | WDone _ | WFail _ _ | WDropAck _ _ _ | WDropCrash _ => true | _ => false end.

Definition crashpt_eqb (a b : crashpt) : bool := match a, b with CCalc, CCalc => true | CUpload, CUpload => true | _, _ => false end.

Section Step.
  Variable c : cfg.
  Let p := cplan c.

  Definition next (st : pst) (a : ost) (i : nat) (f : nat -> wst) : pst := mk st a (PVisit (S i)) (Some (S i)) f.

  (* submit step s (OExec true) *)
  Definition submit (st : pst) (a : ost) (i : nat) (s : step) : pst :=
    if mp c then
      let w := wof c (sid s) in
      let x := ws st w in
      if spawned (phase x) then
        set_tasks (next st a i (upd (ws st) w (set_cmdq x (cmdq x ++ [CStep (sid s)])))) (tasks st) ((w, sid s) :: sent st)
      else
        set_tasks (next st a i (upd (ws st) w (set_cmdq (set_phase w0 WIdle) [CStep (sid s)]))) (tasks st ++ [w]) ((w, sid s) :: sent st)
    else
      let w := sid s in
      set_tasks (next st a i (upd (ws st) w (set_phase w0 (WRun (sid s))))) (tasks st ++ [w]) ((w, sid s) :: sent st).

  Definition step (st : pst) (l : label) : option pst :=
    let a := o st in
    match l with
    (* ------------------------------------------------ main thread: the loop ------------------------------------------------ *)
    | OHead =>
      match pc st with
      | PHead =>
        match head_src p a with
        | Looping => Some (mk st a (PVisit 0) (Some 0) (ws st))
        | ExitNormal => Some (set_pc st (PFinally XNormal))
        | Raised => Some (set_pc st (PFinally XRaisedHead))
        end
      | _ => None
      end
    | OVisit =>
      match pc st with
      | PVisit i =>
        match nth_error p i with
        | Some s => if is_fin s a || (negb (cur_running s a) && negb (can_run s a)) then Some (next st (ovisit a s) i (ws st)) else None
        | None => None
        end
      | PPolled i =>
        match nth_error p i with
        | Some s => if negb (is_fin s a) && cur_running s a && negb (mem (sid s) (done a)) then Some (next st (ovisit a s) i (ws st)) else None
        | None => None
        end
      | _ => None
      end
    | OPoll taken =>
      match pc st with
      | PVisit i =>
        match nth_error p i with
        | Some s =>
          if negb (is_fin s a) && cur_running s a && nodupb (map fst taken) && (mp c || match taken with [] => true | _ => false end) then
            match poll (ws st) a taken with
            | Some (f, a') => Some (mk st a' (PPolled i) (sc st) f)
            | None => None
            end
          else None
        | None => None
        end
      | _ => None
      end
    | OCollect ok =>
      match pc st with
      | PPolled i =>
        match nth_error p i with
        | Some s =>
          if negb (is_fin s a) && cur_running s a && mem (sid s) (done a) then
            match skind s, ok with
            | KFG, false => Some (set_pc st (PFinally XRaisedBody))
            | _, false => None
            | KFG, true =>
              let w := wdrop c (sid s) in
              if mp c && spawned (phase (ws st w)) then
                Some (mk st (ovisit a s) (PWait i w) (Some (S i))
                         (upd (ws st) w (set_cmdq (ws st w) (cmdq (ws st w) ++ [CDrop (uuids s)]))))
              else Some (next st (ovisit a s) i (ws st))
            | _, true => Some (next st (ovisit a s) i (ws st))
            end
          else None
        | None => None
        end
      | _ => None
      end
    | ORequeue w s =>
      match pc st with
      | PWait i w' =>
        if Nat.eqb w w' then
          match resq (ws st w) with
          | RDone s' :: r => if Nat.eqb s s' then Some (mk st a (pc st) (sc st) (upd (ws st) w (set_resq (ws st w) r (s :: requeued (ws st w))))) else None
          | _ => None
          end
        else None
      | _ => None
      end
    | OGot w =>
      match pc st with
      | PWait i w' =>
        if Nat.eqb w w' then
          match resq (ws st w) with
          | RDropComplete :: r => Some (mk st a (PVisit (S i)) (sc st) (upd (ws st) w (set_resq (ws st w) r (requeued (ws st w)))))
          | _ => None
          end
        else None
      | _ => None
      end
    | OTimeout w =>
      match pc st with
      | PWait i w' => if Nat.eqb w w' then Some (set_pc st (PVisit (S i))) else None
      | _ => None
      end
    | OExec ok =>
      match pc st with
      | PVisit i =>
        match nth_error p i with
        | Some s =>
          if negb (is_fin s a) && negb (cur_running s a) && can_run s a then
            if ok then Some (submit st (ovisit a s) i s)
            else Some (mk st (ovisit a s) (PFinally XRaisedBody) (Some (S i)) (ws st))
          else None
        | None => None
        end
      | _ => None
      end
    | OEndScan =>
      match pc st with
      | PVisit i =>
        match nth_error p i with
        | None =>
          let a1 := bump a in
          if cstream c then
            Some (mk st (drain a1) (match results a1 with [] => PHead | _ :: _ => PYield (results a1) end) None (ws st))
          else Some (mk st a1 PHead None (ws st))
        | Some _ => None
        end
      | _ => None
      end
    | OResume => match pc st with PYield [_] => Some (set_pc st PHead) | _ => None end
    | OAbandon => match pc st with PYield (_ :: t) => Some (set_undelivered (set_pc st (PFinally XAbandon)) t) | _ => None end
    (* ------------------------------------------------ main thread: finally ------------------------------------------------ *)
    | OArtifacts ok =>
      match pc st with
      | PFinally x => Some (set_pc st (if ok then PTerm x 0 else PExited XFinallyCrash))
      | _ => None
      end
    | OTerminate w =>
      match pc st with
      | PTerm x k =>
        match nth_error (tasks st) k with
        | Some w' => if mp c && Nat.eqb w w' then Some (mk st a (PJoin x k) (sc st) (upd (ws st) w (set_term (ws st w)))) else None
        | None => None
        end
      | _ => None
      end
    | OJoin w =>
      let go x k :=
        match nth_error (tasks st) k with
        | Some w' => if Nat.eqb w w' && dead (phase (ws st w)) then Some (mk st a (PTerm x (S k)) (sc st) (upd (ws st) w (set_joined (ws st w)))) else None
        | None => None
        end in
      match pc st with
      | PJoin x k => go x k
      | PTerm x k => if mp c then None else go x k
      | _ => None
      end
    | OClose =>
      match pc st with
      | PTerm x k => match nth_error (tasks st) k with None => Some (set_pc st (PDrop x)) | Some _ => None end
      | _ => None
      end
    | ODropAll ok =>
      match pc st with
      | PDrop x =>
        if mp c then
          if ok then Some (set_pc (set_flight st (remove_all (tasks st) (flight st)) (dropfail st)) (PExited x))
          else Some (set_pc (set_flight st (flight st) true) (PExited x))
        else if ok then Some (set_pc st (PExited x)) else None
      | _ => None
      end
    (* ------------------------------------------------------- workers ------------------------------------------------------- *)
    | WTake w =>
      let x := ws st w in
      match phase x, cmdq x with
      | WIdle, cm :: t =>
        let ph := match cm with CStep s => WRun s | CDrop fs => WDropping fs | CStop => WExited end in
        Some (mk st a (pc st) (sc st) (upd (ws st) w (set_phase (set_cmdq x t) ph)))
      | _, _ => None
      end
    | WUpload w =>
      match phase (ws st w) with
      | WRun _ => if mp c then Some (set_flight st (if mem w (flight st) then flight st else w :: flight st) (dropfail st)) else None
      | _ => None
      end
    | WDone w =>
      let x := ws st w in
      match phase x with
      | WRun s =>
        match wfail c s with
        | None =>
          if mp c then Some (add_reply (mk st a (pc st) (sc st) (upd (ws st) w (set_phase (set_resq x (resq x ++ [RDone s]) (requeued x)) WIdle))) (s, true))
          else Some (add_reply (mk st (add_done s a) (pc st) (sc st) (upd (ws st) w (set_phase x WExited))) (s, true))
        | Some _ => None
        end
      | _ => None
      end
    | WFail w cp =>
      let x := ws st w in
      match phase x with
      | WRun s =>
        match wfail c s with
        | Some cp' =>
          if crashpt_eqb cp cp' then
            let x' := if mp c then set_cmdq x (cmdq x ++ [CStop]) else x in
            Some (add_reply (mk st (add_failed s a) (pc st) (sc st) (upd (ws st) w (set_phase x' WFailed))) (s, false))
          else None
        | None => None
        end
      | _ => None
      end
    | WDropAck w last dropped =>
      let x := ws st w in
      match phase x with
      | WDropping fs =>
        let t := fs ++ trk x in
        if Bool.eqb last (subset (children c w) t) && (last || negb dropped) then
          let x1 := set_resq (set_trk x t) (resq x ++ [RDropComplete]) (requeued x) in
          if last then
            Some (set_flight (mk st a (pc st) (sc st) (upd (ws st) w (set_phase (set_cmdq x1 (cmdq x1 ++ [CStop])) WExited)))
                             (if dropped then remove_all [w] (flight st) else flight st) (dropfail st))
          else Some (mk st a (pc st) (sc st) (upd (ws st) w (set_phase x1 WIdle)))
        else None
      | _ => None
      end
    | WDropCrash w =>
      let x := ws st w in
      match phase x with
      | WDropping fs =>
        if subset (children c w) (fs ++ trk x) then Some (mk st a (pc st) (sc st) (upd (ws st) w (set_phase (set_trk x (fs ++ trk x)) WCrashed)))
        else None
      | _ => None
      end
    (* ------------------------------------- main thread: send_command raises (CSend) ------------------------------------- *)
    | OSendFail =>
      match pc st with
      | PVisit i =>
        match nth_error p i with
        | Some s =>
          if negb (is_fin s a) && negb (cur_running s a) && can_run s a && mp c then
            let w := wof c (sid s) in
            if spawned (phase (ws st w)) then Some (mk st (ovisit a s) (PFinally XRaisedBody) (Some (S i)) (ws st))
            else Some (set_tasks (mk st (ovisit a s) (PFinally XRaisedBody) (Some (S i)) (upd (ws st) w (set_phase w0 WIdle)))
                                 (tasks st ++ [w]) (sent st))
          else None
        | None => None
        end
      | _ => None
      end
    (* ------------------------------------- main thread: the next item of the drain ------------------------------------- *)
    | ONext => match pc st with PYield (_ :: (x :: t)) => Some (set_pc st (PYield (x :: t))) | _ => None end
    end.

  Fixpoint exec (st : pst) (tr : list label) : option pst :=
    match tr with
    | [] => Some st
    | l :: t => match step st l with Some st' => exec st' t | None => None end
    end.

  (* PRE-10693fe transition function (regression input only): as `step`, but a poll that meets a DROP_COMPLETE raises *)
  Definition step_old (st : pst) (l : label) : option pst :=
    match l with
    | OPoll taken =>
      match pc st with
      | PVisit i =>
        match nth_error p i with
        | Some s =>
          if negb (is_fin s (o st)) && cur_running s (o st) && nodupb (map fst taken) && (mp c || match taken with [] => true | _ => false end) then
            match poll_old (ws st) (o st) taken with
            | Some (f, a', false) => Some (mk st a' (PPolled i) (sc st) f)
            | Some (f, a', true) => Some (mk st a' (PFinally XRaisedBody) (sc st) f)
            | None => None
            end
          else None
        | None => None
        end
      | _ => None
      end
    | _ => step st l
    end.

  Fixpoint exec_old (st : pst) (tr : list label) : option pst :=
    match tr with
    | [] => Some st
    | l :: t => match step_old st l with Some st' => exec_old st' t | None => None end
    end.

  (* index of the first label that is not enabled (for diagnostics) *)
  Fixpoint first_bad (st : pst) (tr : list label) (n : nat) : option nat :=
    match tr with
    | [] => None
    | l :: t => match step st l with Some st' => first_bad st' t (S n) | None => Some n end
    end.
End Step.

(* ------------------------------------------------------------------------------------------------------------------
   Projection of a protocol trace onto the events of Model/Orch.v.
   A completion event is  EDone s true  = the main thread learns that s is done: THREADING the worker sets step_is_done
   (WDone), MP the main thread takes RDone s from a result queue (OPoll);  EDone s false = a worker calls set_error (WFail).
   Inside a loop iteration (sc = Some i) an event is EARLY when it is a success of a step whose done-test still lies ahead
   in this iteration (position >= i): it is emitted before this iteration's EScan; every other event is LATE and emitted
   right after it.  Outside an iteration events are emitted at once. *)
Fixpoint posn (x : nat) (p : plan) : option nat :=
  match p with [] => None | s :: t => if Nat.eqb (sid s) x then Some 0 else option_map S (posn x t) end.

Definition is_early (p : plan) (i : option nat) (e : nat * bool) : bool :=
  match i with
  | None => true
  | Some k => snd e && match posn (fst e) p with Some j => Nat.leb k j | None => false end
  end.

Definition evs_of (c : cfg) (st : pst) (l : label) : list (nat * bool) :=
  match l with
  | WDone w => if mp c then [] else match phase (ws st w) with WRun s => [(s, true)] | _ => [] end
  | WFail w _ => match phase (ws st w) with WRun s => [(s, false)] | _ => [] end
  | OPoll taken => flat_map (fun wm => match snd wm with RDone s => [(s, true)] | RDropComplete => [] end) taken
  | _ => []
  end.

Definition to_ev (e : nat * bool) : event := EDone (fst e) (snd e).

(* accumulator: (emitted events, late buffer) *)
Definition proj_step (c : cfg) (st : pst) (l : label) (acc : list event * list (nat * bool)) : list event * list (nat * bool) :=
  let '(es, late) := acc in
  let evs := evs_of c st l in
  let early := filter (is_early (cplan c) (sc st)) evs in
  let lt := filter (fun e => negb (is_early (cplan c) (sc st) e)) evs in
  match l with
  | OEndScan => (es ++ [EScan] ++ map to_ev late, [])
  | _ => (es ++ map to_ev early, late ++ lt)
  end.

Fixpoint proj (c : cfg) (st : pst) (tr : list label) (acc : list event * list (nat * bool)) : list event * list (nat * bool) :=
  match tr with
  | [] => acc
  | l :: t => match step c st l with
              | Some st' => proj c st' t (proj_step c st l acc)
              | None => acc
              end
  end.

(* ------------------------------------------------------------------------------------------------------------------
   Checker for observed histories (T2): the history must be a trace of the model from the initial state that ends in an
   exited state with the observed outcome and the observed store content. *)
Fixpoint assoc {A} (d : A) (l : list (nat * A)) (k : nat) : A :=
  match l with [] => d | (k', v) :: t => if Nat.eqb k k' then v else assoc d t k end.

Record pcase := {
  pc_plan : plan; pc_mp : bool; pc_stream : bool;
  pc_wof : list (nat * nat); pc_wdrop : list (nat * nat); pc_children : list (nat * list nat); pc_wfail : list (nat * option crashpt);
  pc_hist : list label; pc_exit : exitk; pc_keys_left : bool;
  pc_received : nat                   (* items the consumer of compute_stream received (0 for compute) *)
}.

Definition cfg_of (k : pcase) : cfg :=
  {| cplan := pc_plan k; mp := pc_mp k; cstream := pc_stream k; wof := assoc 0 (pc_wof k); wdrop := assoc 0 (pc_wdrop k);
     children := assoc [] (pc_children k); wfail := assoc None (pc_wfail k) |}.

Definition exitk_eqb (a b : exitk) : bool :=
  match a, b with XNormal, XNormal | XRaisedHead, XRaisedHead | XRaisedBody, XRaisedBody | XAbandon, XAbandon
                | XFinallyCrash, XFinallyCrash => true | _, _ => false end.

Definition chk_proto (k : pcase) : bool :=
  match exec (cfg_of k) pinit (pc_hist k) with
  | Some st => match pc st with
               | PExited x => exitk_eqb x (pc_exit k) && Bool.eqb (match flight st with [] => false | _ => true end) (pc_keys_left k)
                              && Nat.eqb (List.length (yielded (o st)) - List.length (undelivered st)) (pc_received k)
               | _ => false
               end
  | None => false
  end.

Definition diag_proto (k : pcase) : option nat := first_bad (cfg_of k) pinit (pc_hist k) 0.
(* diagnostics / counters: what the model says the consumer received, and what it lost by closing the stream mid-drain *)
Definition received_proto (k : pcase) : option (nat * nat) :=
  match exec (cfg_of k) pinit (pc_hist k) with
  | Some st => Some (List.length (yielded (o st)) - List.length (undelivered st), List.length (undelivered st))
  | None => None
  end.
