(* Faithful model of the hand-written Python GLUE of
   mloda_plugins/feature_group/experimental/data_quality/missing_value/pandas.py (PandasMissingValueFeatureGroup), single
   source column.  Definitions only.  Most of this implementation consists of library calls; they are fields of
   `pd_kernels` with one contract each in `pd_contracts` (TRUSTED BASE, TESTED by harness/c19.py: family `kernel:*` directly,
   family `imp:pd` of the model tie through the glue).  The glue is what sits between them:

     definition          source lines (missing_value/pandas.py)
     ------------------  -----------------------------------------------------------------------------------------------
     pd_perform          _perform_imputation 71-101: `if not result.isna().any(): return result`, the dispatch on
                         `group_by_features`, the plain methods (each one kernel call on the result of another)
     pd_first_mode       _first_mode 138-141: value_counts(sort=False), `.empty`, idxmax()
     pd_grouped          _perform_grouped_imputation 167-218:
                           mean / median  `result.fillna(group_stat).fillna(overall_stat)`
                           mode           the loop `for name, group in grouped:` (mode of the group's cells of `data`,
                                          `result.loc[group.index] = result.loc[group.index].fillna(mode)`, groups without a
                                          value skipped), then the overall fall-back guarded by `result.isna().any()`
                           ffill / bfill  one library call each (`grouped[col].transform(lambda x: x.ffill())`): NO glue,
                                          the theorem for these two methods IS the contract
     fill_indices        `result.loc[idx] = result.loc[idx].fillna(v)` with unique row labels = for i in idx: if result[i]
       (Model/MissingValuePyDict)  is null: result[i] = v    (modelled by this definition)

   Columns are untyped here (cells are rationals; strings are order-preserving integers as in Spec/Builtins.v): mean /
   median of a STRING column that has a null raise in pandas (as in python_dict.py); such requests are outside the domain of
   the specification and NOT modelled (the same restriction as Model/MissingValuePyDict.v).

   ELEMENT-WISE, modelled by definition: Series.isna().any() (`has_null`), `group[col]` = the cells of the group's rows
   (`take`), Series.copy().

   KERNEL CONTRACTS (exact arithmetic):
     p_mean, p_median     Series.mean() / median()          mean / median of the non-null cells, NaN (null) without one
     p_fillna             Series.fillna(scalar)             every null replaced; a null scalar (None / NaN) changes nothing
     p_fillna_series      Series.fillna(Series)             a null cell takes the cell of the other series in the same row
     p_value_counts       Series.value_counts(sort=False)   the distinct non-null values IN FIRST-OCCURRENCE ORDER with counts
     p_idxmax             Series.idxmax() of the counts     the FIRST label with the highest count
     p_ffill, p_bfill     Series.ffill() / bfill()
     p_groups             iteration over groupby(keys, dropna=False): one group per distinct key (a null is a key value),
                          each with the ascending row numbers of its rows; the ORDER of the groups is not specified
     p_transform_mean/_median  grouped[col].transform("mean"/"median"): row i gets the statistic of the non-null cells of
                          the rows with i's key (null without one)
     p_transform_ffill/_bfill  grouped[col].transform(lambda x: x.ffill() / x.bfill()) = the grouped specification itself *)
From Coq Require Import QArith List Bool Arith ZArith.
Import ListNotations.
Require Import MV.Spec.Builtins MV.Model.MissingValuePyDict.
Open Scope Q_scope.

Record pd_kernels := {
  ps_mean : col -> option Q;
  ps_median : col -> option Q;
  ps_fillna : col -> option Q -> col;
  ps_fillna_series : col -> col -> col;
  ps_value_counts : col -> list (Q * nat);
  ps_idxmax : list (Q * nat) -> Q;
  ps_ffill : col -> col;
  ps_bfill : col -> col;
  pg_groups : list key -> list (list nat);
  pg_transform_mean : list key -> col -> col;
  pg_transform_median : list key -> col -> col;
  pg_transform_ffill : list key -> col -> col;
  pg_transform_bfill : list key -> col -> col
}.

(* ascending row numbers of the rows whose key is k *)
Definition rows_with (keys : list key) (k : key) : list nat :=
  filter (fun j => key_eqb k (nth j keys [])) (seq 0 (List.length keys)).
Definition fill_from (c other : col) : col :=
  map (fun p => match fst p with None => snd p | Some _ => fst p end) (combine c other).
Definition group_stat_col (stat : list Q -> option Q) (keys : list key) (c : col) : col :=
  map (fun k => stat (vals (members keys k c))) keys.

Record pd_contracts (K : pd_kernels) : Prop := {
  p_mean : forall c, ps_mean K c = mean_l (vals c);
  p_median : forall c, ps_median K c = median_l (vals c);
  p_fillna : forall c v, ps_fillna K c v = fill_with v c;
  p_fillna_series : forall c o, List.length o = List.length c -> ps_fillna_series K c o = fill_from c o;
  p_value_counts : forall c, ps_value_counts K c = counter (vals c);
  p_idxmax : forall d, d <> [] -> Some (ps_idxmax K d) = most_common1 d;
  p_ffill : forall c, ps_ffill K c = ffill_spec c;
  p_bfill : forall c, ps_bfill K c = bfill_spec c;
  p_groups : forall keys, exists ks, NoDup ks /\ (forall k, In k ks <-> In k keys) /\
                                    pg_groups K keys = map (rows_with keys) ks;
  p_transform_mean : forall keys c, List.length keys = List.length c ->
                     pg_transform_mean K keys c = group_stat_col mean_l keys c;
  p_transform_median : forall keys c, List.length keys = List.length c ->
                       pg_transform_median K keys c = group_stat_col median_l keys c;
  p_transform_ffill : forall keys c, List.length keys = List.length c ->
                      pg_transform_ffill K keys c = impute_grouped_spec IFfill keys c;
  p_transform_bfill : forall keys c, List.length keys = List.length c ->
                      pg_transform_bfill K keys c = impute_grouped_spec IBfill keys c
}.

Section Glue.
Variable K : pd_kernels.

Definition pd_first_mode (series : col) : option Q :=
  let counts := ps_value_counts K series in
  match counts with
  | [] => None                                   (* counts.empty *)
  | _ => Some (ps_idxmax K counts)
  end.

Definition pd_plain (m : imethod) (result : col) : col :=
  match m with
  | IMean => ps_fillna K result (ps_mean K result)
  | IMedian => ps_fillna K result (ps_median K result)
  | IMode => ps_fillna K result (pd_first_mode result)
  | IConst k => ps_fillna K result (Some k)
  | IFfill => ps_ffill K result
  | IBfill => ps_bfill K result
  end.

Definition cells_at (c : col) (idxs : list nat) : col := map (fun i => nth i c None) idxs.

Definition pd_mode_loop (keys : list key) (data : col) : col :=
  fold_left (fun result group_indices =>
               match pd_first_mode (cells_at data group_indices) with
               | Some mode_value => fill_indices (Some mode_value) group_indices result
               | None => result
               end) (pg_groups K keys) data.

Definition pd_grouped (m : imethod) (keys : list key) (data : col) : col :=
  match m with
  | IConst k => ps_fillna K data (Some k)
  | IMean => ps_fillna K (ps_fillna_series K data (pg_transform_mean K keys data)) (ps_mean K data)
  | IMedian => ps_fillna K (ps_fillna_series K data (pg_transform_median K keys data)) (ps_median K data)
  | IMode => let result := pd_mode_loop keys data in
             if has_null result
             then match pd_first_mode data with
                  | Some overall_mode => ps_fillna K result (Some overall_mode)
                  | None => result
                  end
             else result
  | IFfill => pg_transform_ffill K keys data
  | IBfill => pg_transform_bfill K keys data
  end.

(* grouped = Some keys: `group_by_features` is a non-empty list / tuple of column names; keys = the rows' key tuples *)
Definition pd_perform (m : imethod) (grouped : option (list key)) (data : col) : col :=
  if negb (has_null data) then data
  else match grouped with
       | Some keys => pd_grouped m keys data
       | None => pd_plain m data
       end.
End Glue.

(* executable reference kernels (satisfy the contracts: Proofs/MissingValuePandasP.ref_pd_contracts); used by the tie.
   The groups are visited in order of first occurrence here; the theorems hold for every order. *)
Definition ref_pd : pd_kernels := {|
  ps_mean := fun c => mean_l (vals c);
  ps_median := fun c => median_l (vals c);
  ps_fillna := fun c v => fill_with v c;
  ps_fillna_series := fill_from;
  ps_value_counts := fun c => counter (vals c);
  ps_idxmax := fun d => match most_common1 d with Some v => v | None => 0 end;
  ps_ffill := ffill_spec;
  ps_bfill := bfill_spec;
  pg_groups := fun keys => map (rows_with keys) (map fst (build_groups keys));
  pg_transform_mean := group_stat_col mean_l;
  pg_transform_median := group_stat_col median_l;
  pg_transform_ffill := impute_grouped_spec IFfill;
  pg_transform_bfill := impute_grouped_spec IBfill
|}.
