(* Model of (a) resolution inside ONE request with SEVERAL features and (b) resolution along the HISTORY of one Python
   process in which feature-group and compute-framework classes come into existence between requests (C10).
   Definitions only.  Built on Model/Resolve.v (single feature, fixed universe), which is reused unchanged.

   Sources (under /repo/mloda/core):
     abstract_plugins/feature_group.py        match_feature_group_criteria(name, options, ..)    -> crit / crit_eval: what the GENERATED
                                              groups of the harness compute from the name, the GROUP options, the CONTEXT options
                                              (Options.get = group first, then context)
     abstract_plugins/components/options.py   Options.get, Options.__eq__ (group part only)       -> oget, dict_eqb
     abstract_plugins/components/feature.py   Feature.__init__ (_set_domain: parameter, else options.get("domain")) -> eff_dom
                                              Feature.__eq__ (name, group, context, domain, frameworks; link/index excluded;
                                              Domain.__eq__ RAISES when compared with None)     -> feat_cmp
     abstract_plugins/components/feature_collection.py  Features.build_feature_collection / check_duplicate_feature
                                                                                                  -> in_coll, features_check
     api/request.py                           mlodaAPI.__init__: Features(..), SetupComputeFramework(..), Engine(..) in this order
     api/prepare/setup_compute_framework.py   loops over ALL features of the request             -> request_outcome (error phases)
     core/engine.py                           setup_features_recursion / _process_feature: features are resolved ONE AFTER THE OTHER
                                              against self.accessible_plugins (fixed per engine) and self.links, which GROWS:
                                              add_feature_to_collection -> add_feature_link_to_links adds the Link attached to a
                                              feature once the feature is stored; an equal feature (same group class, equal after
                                              set_compute_framework) is not stored again        -> resolve_seq, add_link, post_eq
     abstract_plugins/components/utils.py     get_all_subclasses(cls): recursive walk over cls.__subclasses__() into a Python set
                                              -> the class tree is PROCESS-GLOBAL state; it only grows (pstate); every walk
                                              yields the classes in some order (walk: three independent orders per request)
     prepare/accessible_plugins.py            get_featuregroup_subclasses / get_cfw_subclasses (walks at every Engine construction)
     abstract_plugins/feature_group.py        compute_framework_definition: rule True = get_all_subclasses(ComputeFramework) AT CALL TIME

   Process-global state the implementation reads (all of it; `grep` finds no cache, registry or module-level variable on the
   resolution path of the unchanged tree):  (1) FeatureGroup.__subclasses__() trees, (2) ComputeFramework.__subclasses__()
   trees, (3) attributes of those classes (is_available, rules, ...).  (1),(2) = pstate, in class-creation order
   (= __subclasses__() order); a request sees them through walks whose order (set iteration over class objects hashed by
   address) is the parameter `walk`, chosen anew for every request.  PluginCollector holds sets of classes per request
   (lists en/dis of Model/Resolve.v, used through membership only).  Nothing else survives a request: `step` has no memo.

   A compute framework created later is a `fwnode`: its number, the installed framework it derives from (whose table type its
   results have) and the value of is_available() (inherited or overridden; Python attribute lookup is not modelled). *)
From Coq Require Import List Bool String Arith.
Require Import MV.Model.Resolve.
Import ListNotations.
Open Scope string_scope.
Open Scope list_scope.

(* ---------- options: a dict with string values (keys unique) ---------- *)
Definition opts := list (string * string).
Fixpoint oget1 (k : string) (o : opts) : option string :=
  match o with [] => None | (k', v) :: t => if String.eqb k k' then Some v else oget1 k t end.
Definition oget (k : string) (g c : opts) : option string :=           (* Options.get: group first, then context *)
  match oget1 k g with Some v => Some v | None => oget1 k c end.
Definition dict_le (a b : opts) : bool :=
  forallb (fun kv => match oget1 (fst kv) b with Some v => String.eqb v (snd kv) | None => false end) a.
Definition dict_eqb (a b : opts) : bool := dict_le a b && dict_le b a.       (* Python dict == *)

Definition lk := (index * index)%type.                                       (* (left_index, right_index) of a Link *)

Record feat := {
  f_name : string;
  f_group : opts;                       (* Options.group *)
  f_ctx : opts;                         (* Options.context *)
  f_dom : option string;                (* Feature(domain=...) *)
  f_ffw : option fw;                    (* Feature(compute_framework=...) or options["compute_framework"], resolved to the
                                           class OBJECT by Feature.__init__ (Model/Resolve.feature_fw_of_name) *)
  f_link : option lk }.                 (* Feature(link=...) *)

Definition eff_dom (f : feat) : option string :=                             (* Feature._set_domain *)
  match f_dom f with Some d => Some d | None => oget "domain" (f_group f) (f_ctx f) end.

(* ---------- what a generated match_feature_group_criteria computes ---------- *)
Inductive crit :=
| CTrue
| CNames (l : list string)              (* the name criteria (DataCreator names / class name / class-name prefix): graph on the pool *)
| CGroup (k v : string)                 (* options.group.get(k) == v *)
| CCtx (k v : string)                   (* options.context.get(k) == v *)
| CGet (k v : string)                   (* options.get(k) == v *)
| CAnd (a b : crit) | COr (a b : crit) | CNot (a : crit).

Definition val_is (o : option string) (v : string) : bool := match o with Some w => String.eqb w v | None => false end.
Fixpoint crit_eval (c : crit) (f : feat) : bool :=
  match c with
  | CTrue => true
  | CNames l => smem (f_name f) l
  | CGroup k v => val_is (oget1 k (f_group f)) v
  | CCtx k v => val_is (oget1 k (f_ctx f)) v
  | CGet k v => val_is (oget k (f_group f) (f_ctx f)) v
  | CAnd a b => crit_eval a f && crit_eval b f
  | COr a b => crit_eval a f || crit_eval b f
  | CNot a => negb (crit_eval a f)
  end.

Record xclass := {
  x_cid : nat; x_supers : list nat; x_crit : crit; x_dom : string; x_rule : option (list fw); x_idx : option (list index) }.

Record mrequest := {
  m_api : list apient;                  (* str entries = AName, class entries = AClass *)
  m_collector : option (list nat * list nat);
  m_links : option (list lk);           (* links given to the API *)
  m_feats : list feat }.

(* ---------- one feature of a request as a single-feature request of Model/Resolve.v ---------- *)
Definition as_class (f : feat) (c : xclass) : fgclass :=
  {| cid := x_cid c; supers := x_supers c; accepts := if crit_eval (x_crit c) f then [f_name f] else [];
     dom := x_dom c; rule := x_rule c; idxcols := x_idx c |}.
Definition as_request (mrq : mrequest) (ls : option (list lk)) (f : feat) : request :=
  {| api := m_api mrq; collector := m_collector mrq; fname := f_name f; fdom := eff_dom f; ffw := f_ffw f; links := ls |}.
Definition resolve_feat (e : env) (u : list xclass) (mrq : mrequest) (ls : option (list lk)) (f : feat) : result :=
  resolve e (map (as_class f) u) (as_request mrq ls f).

(* ---------- Features(...): duplicate check with Feature.__eq__ ---------- *)
Inductive cmp := CmpEq | CmpNe | CmpRaise.
Definition ofw_eqb (a b : option fw) : bool :=
  match a, b with None, None => true | Some x, Some y => Nat.eqb x y | _, _ => false end.
Definition base_same (a b : feat) : bool :=
  String.eqb (f_name a) (f_name b) && dict_eqb (f_group a) (f_group b) && dict_eqb (f_ctx a) (f_ctx b).
Definition feat_cmp (a b : feat) : cmp :=
  if base_same a b then
    match eff_dom a, eff_dom b with
    | None, None => if ofw_eqb (f_ffw a) (f_ffw b) then CmpEq else CmpNe
    | Some d, Some d' => if String.eqb d d' then (if ofw_eqb (f_ffw a) (f_ffw b) then CmpEq else CmpNe) else CmpNe
    | _, _ => CmpRaise                                    (* Domain.__eq__: "Cannot compare Domain with <class 'NoneType'>" *)
    end
  else CmpNe.
Fixpoint in_coll (f : feat) (coll : list feat) : cmp :=                     (* `feature in self.collection` *)
  match coll with
  | [] => CmpNe
  | g :: t => match feat_cmp g f with CmpEq => CmpEq | CmpRaise => CmpRaise | CmpNe => in_coll f t end
  end.
Inductive rerr := RErr (e : err) | RDuplicate | RDomainCompare.
Fixpoint features_check_from (seen fs : list feat) : option rerr :=
  match fs with
  | [] => None
  | f :: t => match in_coll f seen with
              | CmpEq => Some RDuplicate                   (* "Duplicate feature setup" *)
              | CmpRaise => Some RDomainCompare
              | CmpNe => features_check_from (seen ++ [f]) t
              end
  end.
Definition features_check (fs : list feat) : option rerr := features_check_from [] fs.

(* ---------- Engine.setup_features_recursion over the requested features ---------- *)
Definition odom_eqb (a b : option string) : bool :=
  match a, b with None, None => true | Some x, Some y => String.eqb x y | _, _ => false end.
(* Feature.__eq__ AFTER set_compute_framework, between features stored for the same group class *)
Definition post_eq (a b : feat) (fa fb : list fw) : bool :=
  base_same a b && odom_eqb (eff_dom a) (eff_dom b) && set_eqb fa fb.
Definition add_link (ls : option (list lk)) (l : option lk) : option (list lk) :=
  match l with
  | None => ls
  | Some x => match ls with None => Some [x] | Some t => Some (t ++ [x]) end
  end.
Definition stored := list ((nat * feat) * list fw).        (* feature_group_collection: (group class, feature, its frameworks) *)
Definition is_stored (coll : stored) (n : nat) (f : feat) (ff : list fw) : bool :=
  existsb (fun p => Nat.eqb (fst (fst p)) n && post_eq (snd (fst p)) f (snd p) ff) coll.

(* per feature: the outcome of IdentifyFeatureGroupClass + set_compute_framework, and whether the feature was stored.
   (The real loop stops at the first rejection by raising; the entries after it are what the loop would go on to compute
   and are never looked at by request_outcome.) *)
Fixpoint resolve_seq (e : env) (u : list xclass) (mrq : mrequest) (ls : option (list lk)) (coll : stored) (fs : list feat)
  : list (result * bool) :=
  match fs with
  | [] => []
  | f :: t =>
      match resolve_feat e u mrq ls f with
      | Chosen n gf =>
          let ff := feature_fws (as_request mrq ls f) gf in
          if is_stored coll n f ff then (Chosen n gf, false) :: resolve_seq e u mrq ls coll t
          else (Chosen n gf, true) :: resolve_seq e u mrq (add_link ls (f_link f)) (coll ++ [((n, f), ff)]) t
      | Rejected er => (Rejected er, false) :: resolve_seq e u mrq ls coll t
      end
  end.
Definition resolve_all (e : env) (u : list xclass) (mrq : mrequest) : list (result * bool) :=
  resolve_seq e u mrq (m_links mrq) [] (m_feats mrq).

(* ---------- what mloda.prepare does with the request: phases in the order of the code ---------- *)
Fixpoint first_err (p : err -> bool) (rs : list result) : option err :=
  match rs with
  | [] => None
  | Rejected er :: t => if p er then Some er else first_err p t
  | _ :: t => first_err p t
  end.
Definition is_unknown (er : err) := match er with EFwUnknown => true | _ => false end.
Definition is_noapi (er : err) := match er with ENoApiFramework => true | _ => false end.
Definition is_notinapi (er : err) := match er with EFeatureFwNotInApi => true | _ => false end.
Definition is_noacc (er : err) := match er with ENoAccessible => true | _ => false end.

Inductive routcome :=
| RAnswered (l : list ((nat * list fw) * bool))       (* per requested feature: group class, its frameworks, stored? *)
| RRejected (er : rerr).

Definition answered_of (rs : list (result * bool)) : list ((nat * list fw) * bool) :=
  flat_map (fun p => match fst p with Chosen n gf => [((n, gf), snd p)] | Rejected _ => [] end) rs.

Definition orelse {A} (a b : option A) : option A := match a with Some x => Some x | None => b end.
Definition request_outcome (e : env) (u : list xclass) (mrq : mrequest) : routcome :=
  let rs := resolve_all e u mrq in
  let r1 := map fst rs in
  match first_err is_unknown r1 with                                  (* Feature(...) construction, in list order *)
  | Some er => RRejected (RErr er)
  | None =>
      match features_check (m_feats mrq) with                          (* Features(...) *)
      | Some x => RRejected x
      | None =>
          match orelse (first_err is_noapi r1)                         (* SetupComputeFramework: API list, *)
                 (orelse (first_err is_notinapi r1)                    (*   then every feature's framework *)
                    (orelse (first_err is_noacc r1)                    (* PreFilterPlugins *)
                       (first_err (fun _ => true) r1))) with           (* the features one after the other *)
          | Some er => RRejected (RErr er)
          | None => RAnswered (answered_of rs)
          end
      end
  end.

(* ---------- the process: classes come into existence between requests ---------- *)
Record fwnode := { fid : fw; froot : fw; favail : bool }.
Inductive op := DefGroup (c : xclass) | DefFw (n : fwnode) | Request (rq : mrequest).
Record pstate := { p_groups : list xclass; p_fws : list fwnode }.           (* creation order = __subclasses__() order *)

(* one order per walk of a class tree; a request walks the FeatureGroup tree once and the ComputeFramework tree for the
   existing frameworks and for the available ones *)
Record walk := {
  wg : list xclass -> list xclass;
  wf : list fwnode -> list fwnode;
  wa : list fwnode -> list fwnode }.
(* `nm x` = the __name__ of class object x: an attribute of the object, not process state (two objects may share a name) *)
Definition env_with (nm : fw -> fwname) (ex av : list fwnode) : env :=
  {| existing := map fid ex; available := map fid (filter favail av); cname := nm |}.
Definition env_of (nm : fw -> fwname) (l : list fwnode) : env := env_with nm l l.
Definition answer (nm : fw -> fwname) (w : walk) (st : pstate) (rq : mrequest) : routcome :=
  request_outcome (env_with nm (wf w (p_fws st)) (wa w (p_fws st))) (wg w (p_groups st)) rq.

Definition define (st : pstate) (o : op) : pstate :=
  match o with
  | DefGroup c => {| p_groups := p_groups st ++ [c]; p_fws := p_fws st |}
  | DefFw n => {| p_groups := p_groups st; p_fws := p_fws st ++ [n] |}
  | Request _ => st
  end.
(* `ws k` = the walk orders of the k-th request of the process *)
Definition step (nm : fw -> fwname) (ws : nat -> walk) (acc : pstate * list routcome) (o : op) : pstate * list routcome :=
  match o with
  | Request rq => (fst acc, snd acc ++ [answer nm (ws (List.length (snd acc))) (fst acc) rq])
  | _ => (define (fst acc) o, snd acc)
  end.
Definition run_history (nm : fw -> fwname) (ws : nat -> walk) (st : pstate) (ops : list op) : pstate * list routcome :=
  fold_left (step nm ws) ops (st, []).

(* what each request of a history must be answered with: the request on the classes that exist at that moment, nothing else *)
Fixpoint spec_answers (nm : fw -> fwname) (st : pstate) (ops : list op) : list routcome :=
  match ops with
  | [] => []
  | Request rq :: t => request_outcome (env_of nm (p_fws st)) (p_groups st) rq :: spec_answers nm st t
  | o :: t => spec_answers nm (define st o) t
  end.
Definition final_state (st : pstate) (ops : list op) : pstate := fold_left define ops st.
Definition id_walk : walk := {| wg := fun l => l; wf := fun l => l; wa := fun l => l |}.

(* table type of a framework: the installed framework it derives from *)
Definition root_of (l : list fwnode) (x : fw) : fw :=
  match find (fun n => Nat.eqb (fid n) x) l with Some n => froot n | None => x end.

(* ---------- a DIFFERENT process, for contrast only (not the implementation): compute_framework_definition of open-rule
   groups remembers the set of frameworks and refreshes it only when the DIRECT subclasses of ComputeFramework change.
   Used by one refutation theorem to show that the history theorems separate implementations. ---------- *)
Definition direct (l : list fwnode) : list fw := map fid (filter (fun n => Nat.eqb (froot n) (fid n)) l).
Fixpoint nl_eqb (a b : list nat) : bool :=
  match a, b with [], [] => true | x :: s, y :: t => Nat.eqb x y && nl_eqb s t | _, _ => false end.
Definition memo := option (list fw * list fwnode).
Definition memo_step (nm : fw -> fwname) (acc : (pstate * memo) * list routcome) (o : op) : (pstate * memo) * list routcome :=
  match o with
  | Request rq =>
      let st := fst (fst acc) in
      let m := match snd (fst acc) with
               | Some (key, kept) => if nl_eqb key (direct (p_fws st)) then (key, kept) else (direct (p_fws st), p_fws st)
               | None => (direct (p_fws st), p_fws st)
               end in
      (* open-rule groups see the remembered frameworks: model them by an explicit rule *)
      let u := map (fun c => match x_rule c with
                             | None => {| x_cid := x_cid c; x_supers := x_supers c; x_crit := x_crit c; x_dom := x_dom c;
                                          x_rule := Some (map fid (snd m)); x_idx := x_idx c |}
                             | Some _ => c end) (p_groups st) in
      ((st, Some m), snd acc ++ [request_outcome (env_of nm (p_fws st)) u rq])
  | _ => ((define (fst (fst acc)) o, snd (fst acc)), snd acc)
  end.
Definition run_memo (nm : fw -> fwname) (st : pstate) (ops : list op) : list routcome :=
  snd (fold_left (memo_step nm) ops ((st, None), [])).
