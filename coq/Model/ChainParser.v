(* Model of the chained-name parser and the option-based fallbacks (C16).  Definitions only.

   Sources (under /repo):
     mloda/core/abstract_plugins/components/feature_chainer/feature_chain_parser.py
        FeatureChainParser.is_chained_feature            -> has_dunder
        FeatureChainParser.parse_feature_name            -> rsplit, re_match, parse_feature_name
        FeatureChainParser._validate_options_against_property_mapping (+ _process_found_property_value,
          _validate_property_value, _validate_final_properties)       -> validate_options
        FeatureChainParser.match_configuration_feature_chain_parser   -> (inside match_criteria)
     mloda/core/abstract_plugins/components/feature_chainer/feature_chain_parser_mixin.py
        FeatureChainParserMixin.input_features / _validate_in_feature_count -> input_features, count_ok
        FeatureChainParserMixin.match_feature_group_criteria                -> match_criteria
     mloda/core/abstract_plugins/components/options.py
        Options.get                                      -> options_get
        Options.get_in_features                          -> get_in_features
     mloda_plugins/feature_group/experimental/aggregated_feature_group/base.py
        PREFIX_PATTERN, PROPERTY_MAPPING, _extract_aggregation_type         -> g_aggr, extract_op (name_strict = false)
     mloda_plugins/feature_group/experimental/data_quality/missing_value/base.py
        PREFIX_PATTERN, PROPERTY_MAPPING, _extract_imputation_method        -> g_mv, extract_op (name_strict = true)
     mloda/core/abstract_plugins/feature_group.py
        get_column_base_feature, resolve_multi_column_feature               -> column_base, resolve_multi_column
        FeatureGroup.match_feature_group_criteria (default matcher of root / data groups, the
          `base_feature_name in feature_names_supported()` and input-data branches)  -> root_claims

   A Python str is a list of characters (`str`), so every statement is about strings of any length.  Characters
   are 8-bit (`ascii`); the tie to Python holds for 7-bit names (\w, `.`, str.strip are modelled for ASCII only).

   The regular expressions of the built-in groups that are modelled form the family
        r".*__([\w]+)_<SUF>$"          (<SUF> a literal made of word characters: aggr, imputed, centrality, distance)
   and `re.match` is written out for that family with its backtracking order:
        `.*`      greedy, never consumes a newline, gives characters back one at a time   -> re_match
        `[\w]+`   greedy, gives characters back one at a time                             -> wgroup
        `$`       end of string, or just before a newline that is the last character      -> at_end            *)
From Coq Require Import List Bool Ascii String Arith ZArith DecimalString.
Import ListNotations.
Open Scope list_scope.

Definition str := list ascii.
Definition lit (x : string) : str := list_ascii_of_string x.

Definition us : ascii := "_"%char.
Definition nl : ascii := "010"%char.
Definition amp : ascii := "&"%char.
Definition tilde : ascii := "~"%char.
Definition comma : ascii := ","%char.

(* \w restricted to ASCII: [a-zA-Z0-9_] *)
Definition is_word (c : ascii) : bool :=
  let n := nat_of_ascii c in
  ((48 <=? n) && (n <=? 57)) || ((65 <=? n) && (n <=? 90)) || ((97 <=? n) && (n <=? 122)) || (n =? 95).

(* str.isspace for ASCII: \t \n \v \f \r, FS GS RS US, space *)
Definition is_space (c : ascii) : bool :=
  let n := nat_of_ascii c in ((9 <=? n) && (n <=? 13)) || ((28 <=? n) && (n <=? 32)).

Fixpoint str_eqb (a b : str) : bool :=
  match a, b with
  | [], [] => true
  | x :: a', y :: b' => Ascii.eqb x y && str_eqb a' b'
  | _, _ => false
  end.

(* ---------------------------------------------------------------------------------------------------------- *)
(* the chain separator                                                                                         *)

(* x starts with "__": the rest *)
Definition strip_dunder (x : str) : option str :=
  match x with
  | c1 :: c2 :: r => if Ascii.eqb c1 us && Ascii.eqb c2 us then Some r else None
  | _ => None
  end.

(* CHAIN_SEPARATOR in x   (is_chained_feature) *)
Fixpoint has_dunder (x : str) : bool :=
  match x with
  | [] => false
  | _ :: t => match strip_dunder x with Some _ => true | None => has_dunder t end
  end.

(* x.rsplit("__", 1): None = one part (no separator), Some (a, b) = [a, b], split at the LAST occurrence *)
Fixpoint rsplit (x : str) : option (str * str) :=
  match x with
  | [] => None
  | c :: t =>
      match rsplit t with
      | Some (a, b) => Some (c :: a, b)
      | None => match strip_dunder x with Some r => Some ([], r) | None => None end
      end
  end.

(* ---------------------------------------------------------------------------------------------------------- *)
(* re.match(r".*__([\w]+)_<suf>$", x) : the captured group, None = no match                                    *)

(* `_<suf>$` at t *)
Definition at_end (suf t : str) : bool := str_eqb t (us :: suf) || str_eqb t (us :: suf ++ [nl]).

(* `([\w]+)_<suf>$` at r: the longest group is tried first, then shorter ones *)
Fixpoint wgroup (suf r : str) : option str :=
  match r with
  | [] => None
  | c :: t =>
      if is_word c then
        match wgroup suf t with
        | Some g => Some (c :: g)
        | None => if at_end suf t then Some [c] else None
        end
      else None
  end.

(* `__([\w]+)_<suf>$` at x *)
Definition tail_match (suf x : str) : option str :=
  match strip_dunder x with Some r => wgroup suf r | None => None end.

(* the whole pattern at position 0: `.*` takes as many non-newline characters as possible first *)
Fixpoint re_match (suf x : str) : option str :=
  match x with
  | [] => tail_match suf x
  | c :: t =>
      if Ascii.eqb c nl then tail_match suf x
      else match re_match suf t with
           | Some g => Some g
           | None => tail_match suf x
           end
  end.

(* ---------------------------------------------------------------------------------------------------------- *)
(* FeatureChainParser.parse_feature_name(name, patterns)  (pattern = "__")                                     *)
Inductive presult :=
| Parsed (op src : str)      (* (operation_config, source_feature) *)
| NoParse                    (* (None, None) *)
| PErr.                      (* ValueError: matches the pattern but has no source feature *)

Fixpoint parse_feature_name (sufs : list str) (name : str) : presult :=
  match sufs with
  | [] => NoParse
  | suf :: rest =>
      match re_match suf name with
      | None => parse_feature_name rest name
      | Some g =>
          match rsplit name with
          | None => PErr                                   (* len(parts) == 1 *)
          | Some ([], _) => PErr                           (* not source_feature *)
          | Some (src, _) => Parsed g src                  (* match.group(1), parts[0] *)
          end
      end
  end.

(* ---------------------------------------------------------------------------------------------------------- *)
(* small string functions                                                                                      *)

(* x.split(c) for a one-character separator *)
Fixpoint split_on (c : ascii) (x : str) : list str :=
  match x with
  | [] => [[]]
  | a :: t =>
      if Ascii.eqb a c then [] :: split_on c t
      else match split_on c t with
           | p :: ps => (a :: p) :: ps
           | [] => [[a]]
           end
  end.

Fixpoint lstrip (x : str) : str :=
  match x with
  | c :: t => if is_space c then lstrip t else x
  | [] => []
  end.
Definition strip (x : str) : str := rev (lstrip (rev (lstrip x))).

Fixpoint contains (c : ascii) (x : str) : bool :=
  match x with [] => false | a :: t => Ascii.eqb a c || contains c t end.

(* ---------------------------------------------------------------------------------------------------------- *)
(* Python values that occur in Options / in a loaded configuration                                             *)
Inductive pv : Type :=
| PNone
| PBool (b : bool)
| PInt (z : Z)
| PStr (s : str)
| PList (l : list pv)
| PSet (frozen : bool) (l : list pv)       (* set / frozenset; the list is one iteration order *)
| PDict (d : list (str * pv))              (* dict with str keys (unique) *)
| PFeat (name : pv) (group ctx : list (str * pv)).   (* Feature(name, Options(group, context)) *)

Definition feat (name : str) : pv := PFeat (PStr name) [] [].

(* bool(v) *)
Definition truthy (v : pv) : bool :=
  match v with
  | PNone => false
  | PBool b => b
  | PInt z => negb (Z.eqb z 0)
  | PStr s => match s with [] => false | _ => true end
  | PList l | PSet _ l => match l with [] => false | _ => true end
  | PDict d => match d with [] => false | _ => true end
  | PFeat _ _ _ => true
  end.

(* hash(v) does not raise *)
Definition hashable (v : pv) : bool :=
  match v with
  | PList _ | PDict _ => false
  | PSet frozen _ => frozen
  | _ => true
  end.

(* Python == on these values: sets and dicts compare without order; set == frozenset; Feature.__eq__ compares
   name, options.group and options.context (domain, framework, type are not modelled: always None here) *)
Fixpoint pv_eqb (a b : pv) {struct a} : bool :=
  match a, b with
  | PNone, PNone => true
  | PBool x, PBool y => Bool.eqb x y
  | PInt x, PInt y => Z.eqb x y
  | PStr x, PStr y => str_eqb x y
  | PList l1, PList l2 =>
      (fix go (l1 l2 : list pv) : bool :=
         match l1, l2 with
         | [], [] => true
         | x :: t, y :: u => pv_eqb x y && go t u
         | _, _ => false
         end) l1 l2
  | PSet _ l1, PSet _ l2 =>
      (fix sub (l1 : list pv) : bool :=
         match l1 with [] => true | x :: t => existsb (fun y => pv_eqb x y) l2 && sub t end) l1
      && Nat.eqb (List.length l1) (List.length l2)
  | PDict d1, PDict d2 =>
      (fix sub (d1 : list (str * pv)) : bool :=
         match d1 with
         | [] => true
         | (k, x) :: t => existsb (fun ky => str_eqb k (fst ky) && pv_eqb x (snd ky)) d2 && sub t
         end) d1
      && Nat.eqb (List.length d1) (List.length d2)
  | PFeat n1 g1 c1, PFeat n2 g2 c2 =>
      pv_eqb n1 n2
      && (fix sub (d1 : list (str * pv)) (d2 : list (str * pv)) : bool :=
            match d1 with
            | [] => true
            | (k, x) :: t => existsb (fun ky => str_eqb k (fst ky) && pv_eqb x (snd ky)) d2 && sub t d2
            end) g1 g2
      && Nat.eqb (List.length g1) (List.length g2)
      && (fix sub (d1 : list (str * pv)) (d2 : list (str * pv)) : bool :=
            match d1 with
            | [] => true
            | (k, x) :: t => existsb (fun ky => str_eqb k (fst ky) && pv_eqb x (snd ky)) d2 && sub t d2
            end) c1 c2
      && Nat.eqb (List.length c1) (List.length c2)
  | _, _ => false
  end.

(* set semantics of a list of values (elements of a set have unique keys / generators produce duplicate-free
   sets, so comparing lengths after inclusion is adequate) *)
Fixpoint dedup (l : list pv) : list pv :=
  match l with
  | [] => []
  | x :: t => if existsb (pv_eqb x) t then dedup t else x :: dedup t
  end.

Inductive err := EValue | EType | EAttr | EOther.
Inductive res (A : Type) := Ok (a : A) | Err (e : err).
Arguments Ok {A} a.
Arguments Err {A} e.

Fixpoint assoc (k : str) (d : list (str * pv)) : option pv :=
  match d with
  | [] => None
  | (k', v) :: t => if str_eqb k k' then Some v else assoc k t
  end.

(* Options.get: group first, then context, None when absent *)
Definition options_get (k : str) (group ctx : list (str * pv)) : pv :=
  match assoc k group with
  | Some v => v
  | None => match assoc k ctx with Some v => v | None => PNone end
  end.

Definition k_in_features : str := lit "in_features".

(* ---------------------------------------------------------------------------------------------------------- *)
(* Options.get_in_features: the frozenset of Features, as a duplicate-free list                                 *)
Definition convert_item (v : pv) : res pv :=
  match v with
  | PFeat _ _ _ => Ok v
  | PStr s => Ok (feat s)
  | _ => Err EType
  end.

Fixpoint convert_all (l : list pv) : res (list pv) :=
  match l with
  | [] => Ok []
  | x :: t =>
      match convert_item x with
      | Err e => Err e
      | Ok f => match convert_all t with Err e => Err e | Ok fs => Ok (f :: fs) end
      end
  end.

Definition get_in_features (val : pv) : res (list pv) :=
  if negb (truthy val) then Err EValue
  else match val with
       | PList l | PSet _ l => match convert_all l with Err e => Err e | Ok fs => Ok (dedup fs) end
       | PStr s =>
           if contains comma s then Ok (dedup (map (fun p => feat (strip p)) (split_on comma s)))
           else Ok [feat s]
       | PFeat _ _ _ => Ok [val]
       | _ => Err EType
       end.

(* ---------------------------------------------------------------------------------------------------------- *)
(* a feature group of the family                                                                               *)
Record grp := {
  g_sufs : list str;          (* _get_prefix_patterns(): one suffix per pattern *)
  g_key : str;                (* option key that carries the operation *)
  g_vocab : list str;         (* operations named in PROPERTY_MAPPING *)
  g_strict : bool;            (* strict_validation on the operation key *)
  g_defaults : list str;      (* further mapped keys, all with a default (never required) *)
  g_name_strict : bool;       (* missing-value style: a name containing "__" MUST parse when the op is extracted *)
  g_min : nat;                (* MIN_IN_FEATURES *)
  g_max : option nat          (* MAX_IN_FEATURES *)
}.

Definition g_aggr : grp := {|
  g_sufs := [lit "aggr"]; g_key := lit "aggregation_type";
  g_vocab := map lit ["sum"; "min"; "max"; "avg"; "mean"; "count"; "std"; "var"; "median"]%string;
  g_strict := true; g_defaults := []; g_name_strict := false; g_min := 1; g_max := Some 1 |}.

Definition g_mv : grp := {|
  g_sufs := [lit "imputed"]; g_key := lit "imputation_method";
  g_vocab := map lit ["mean"; "median"; "mode"; "constant"; "ffill"; "bfill"]%string;
  g_strict := false; g_defaults := map lit ["constant_value"; "group_by_features"]%string;
  g_name_strict := true; g_min := 1; g_max := Some 1 |}.

(* _validate_in_feature_count *)
Definition count_ok (g : grp) (n : nat) : bool :=
  (g_min g <=? n) && match g_max g with None => true | Some m => n <=? m end.

(* FeatureChainParserMixin.input_features(options, feature_name): name first, options as the fallback *)
Definition input_features (g : grp) (name : str) (group ctx : list (str * pv)) : res (list pv) :=
  let fallback :=
    match get_in_features (options_get k_in_features group ctx) with
    | Err e => Err e
    | Ok fs => if count_ok g (List.length fs) then Ok fs else Err EValue
    end in
  match parse_feature_name (g_sufs g) name with
  | PErr => Err EValue
  | NoParse => fallback
  | Parsed _ [] => fallback
  | Parsed _ src =>
      let parts := split_on amp src in
      if count_ok g (List.length parts) then Ok (dedup (map feat parts)) else Err EValue
  end.

(* ---------------------------------------------------------------------------------------------------------- *)
(* _validate_options_against_property_mapping for the mapping
     { g_key : {vocab..., strict?}, in_features : {not strict}, d : {default} for d in g_defaults }            *)

(* _process_found_property_value for one mapped key; strict = membership test on the vocabulary *)
Definition elem_name (v : pv) : pv := match v with PFeat n _ _ => n | _ => v end.

Definition in_vocab (vocab : list str) (v : pv) : bool :=
  match v with PStr s => existsb (str_eqb s) vocab | _ => false end.

Definition process_found (strict : bool) (vocab : list str) (v : pv) : res nat :=   (* size of the collected set *)
  let elems := match v with PSet true l => Some l | _ => if hashable v then Some [v] else None end in
  match elems with
  | None => Err EType                                          (* frozenset([v]) : unhashable *)
  | Some l =>
      let names := map elem_name l in
      if strict && negb (forallb (in_vocab vocab) names) then Err EValue
      else Ok (List.length (dedup names))
  end.

(* one required key: Ok true = present with a non-empty collected set *)
Definition check_required (strict : bool) (vocab : list str) (v : pv) : res bool :=
  match v with
  | PNone => Ok false
  | _ => match process_found strict vocab v with Err e => Err e | Ok n => Ok (negb (Nat.eqb n 0)) end
  end.

Definition check_default (v : pv) : res bool :=
  match v with
  | PNone => Ok true
  | _ => match process_found false [] v with Err e => Err e | Ok _ => Ok true end
  end.

Fixpoint check_defaults (ks : list str) (group ctx : list (str * pv)) : res bool :=
  match ks with
  | [] => Ok true
  | k :: t =>
      match check_default (options_get k group ctx) with
      | Err e => Err e
      | Ok _ => check_defaults t group ctx
      end
  end.

Definition validate_options (g : grp) (group ctx : list (str * pv)) : res bool :=
  match check_required (g_strict g) (g_vocab g) (options_get (g_key g) group ctx) with
  | Err e => Err e
  | Ok b1 =>
      match check_required false [] (options_get k_in_features group ctx) with
      | Err e => Err e
      | Ok b2 =>
          match check_defaults (g_defaults g) group ctx with
          | Err e => Err e
          | Ok _ => Ok (b1 && b2)
          end
      end
  end.

(* FeatureChainParserMixin.match_feature_group_criteria: ValueError is caught (-> False), other errors escape *)
Definition match_criteria (g : grp) (name : str) (group ctx : list (str * pv)) : res bool :=
  match parse_feature_name (g_sufs g) name with
  | Parsed _ _ => Ok true
  | PErr => Ok false
  | NoParse =>
      match validate_options g group ctx with
      | Err EValue => Ok false
      | r => r
      end
  end.

(* str(v) for the scalars that can reach it; None = not modelled (containers, Features) *)
Definition dec (z : Z) : str := lit (NilZero.string_of_int (Z.to_int z)).
Definition py_str (v : pv) : option str :=
  match v with
  | PStr s => Some s
  | PInt z => Some (dec z)
  | PBool true => Some (lit "True")
  | PBool false => Some (lit "False")
  | PNone => Some (lit "None")
  | _ => None
  end.

(* _extract_aggregation_type (g_name_strict = false): name first, then str(option), nothing is checked here.
   _extract_imputation_method / get_imputation_method (g_name_strict = true): a name containing "__" must parse,
   and the method, wherever it comes from, must be one of the mapped methods (ValueError otherwise).            *)
Definition extract_op (g : grp) (name : str) (group ctx : list (str * pv)) : res pv :=
  match parse_feature_name (g_sufs g) name with
  | Parsed op _ =>
      if g_name_strict g && negb (existsb (str_eqb op) (g_vocab g)) then Err EValue else Ok (PStr op)
  | PErr => Err EValue
  | NoParse =>
      let v := options_get (g_key g) group ctx in
      if g_name_strict g then
        if has_dunder name then Err EValue
        else match v with
             | PNone => Ok PNone
             | _ => if negb (hashable v) then Err EType
                    else if in_vocab (g_vocab g) v then Ok v else Err EValue
             end
      else match v with
           | PNone => Ok PNone
           | _ => match py_str v with Some s => Ok (PStr s) | None => Err EOther end
           end
  end.

(* ---------------------------------------------------------------------------------------------------------- *)
(* resolving one feature against a universe of groups, and a whole chain                                       *)
Inductive step :=
| SNone                                   (* no group of the universe claims the feature *)
| SOne (gi : nat) (op : pv) (ins : list pv)
| SAmbig                                  (* more than one group claims it *)
| SErr (e : err).

Fixpoint claims (gs : list grp) (i : nat) (name : str) (group ctx : list (str * pv)) : res (list nat) :=
  match gs with
  | [] => Ok []
  | g :: t =>
      match match_criteria g name group ctx with
      | Err e => Err e
      | Ok b =>
          match claims t (S i) name group ctx with
          | Err e => Err e
          | Ok l => Ok (if b then i :: l else l)
          end
      end
  end.

Definition resolve_step (gs : list grp) (f : pv) : step :=
  match f with
  | PFeat (PStr name) group ctx =>
      match claims gs 0 name group ctx with
      | Err e => SErr e
      | Ok [] => SNone
      | Ok [i] =>
          match nth_error gs i with
          | None => SErr EOther
          | Some g =>
              match input_features g name group ctx, extract_op g name group ctx with
              | Ok ins, Ok op => SOne i op ins
              | Err e, _ => SErr e
              | _, Err e => SErr e
              end
          end
      | Ok _ => SAmbig
      end
  | _ => SErr EType
  end.

(* follow single-input chains: the operations met from the outside in, and where the walk stopped *)
Inductive walk :=
| WEnd (ops : list (nat * pv)) (last : pv)        (* reached a feature no group claims *)
| WStuck (ops : list (nat * pv)) (s : step)       (* ambiguity / error / several inputs / out of fuel *)
.
Definition walk_cons (x : nat * pv) (w : walk) : walk :=
  match w with WEnd ops l => WEnd (x :: ops) l | WStuck ops s => WStuck (x :: ops) s end.

Fixpoint resolve_chain (gs : list grp) (fuel : nat) (f : pv) : walk :=
  match fuel with
  | 0 => WStuck [] SNone
  | S n =>
      match resolve_step gs f with
      | SNone => WEnd [] f
      | SOne gi op [i] => walk_cons (gi, op) (resolve_chain gs n i)
      | s => WStuck [] s
      end
  end.

(* ---------------------------------------------------------------------------------------------------------- *)
(* rendering of names                                                                                          *)
Definition render (src op suf : str) : str := src ++ us :: us :: op ++ us :: suf.

(* ops in application order (first applied first) *)
Fixpoint render_chain (src : str) (ops : list (str * str)) : str :=
  match ops with
  | [] => src
  | (op, suf) :: t => render_chain (render src op suf) t
  end.

(* peel suffixes off a name while one of the patterns parses: operations met, outermost (= last applied) first *)
Fixpoint peel (sufs : list str) (fuel : nat) (name : str) : list str * str :=
  match fuel with
  | 0 => ([], name)
  | S n =>
      match parse_feature_name sufs name with
      | Parsed op src => let (ops, base) := peel sufs n src in (op :: ops, base)
      | _ => ([], name)
      end
  end.

(* ---------------------------------------------------------------------------------------------------------- *)
(* sub-columns                                                                                                 *)

(* FeatureGroup.get_column_base_feature: column_name.split("~")[0] *)
Definition column_base (x : str) : str := match split_on tilde x with p :: _ => p | [] => [] end.

Fixpoint starts_with (p x : str) : bool :=
  match p, x with
  | [], _ => true
  | a :: p', b :: x' => Ascii.eqb a b && starts_with p' x'
  | _ :: _, [] => false
  end.

(* FeatureGroup.resolve_multi_column_feature (the result is sorted by the code; here: in the order of `cols`) *)
Definition resolve_multi_column (name : str) (cols : list str) : list str :=
  if existsb (str_eqb name) cols then [name]
  else match filter (starts_with (name ++ [tilde])) cols with
       | [] => [name]
       | l => l
       end.

(* the default FeatureGroup.match_feature_group_criteria of a root / data group that supports the names `supported`:
   the test is made on get_column_base_feature(feature_name), i.e. on everything before the FIRST "~" *)
Definition root_claims (supported : list str) (name : str) : bool := existsb (str_eqb (column_base name)) supported.
