(* C17 along a dependency chain.  f_0 is the requested feature, f_(i+1) the input feature f_i's group asks for
   (FeatureGroup.input_features), ... down to a source.  Mirrors:
     mlodaAPI._process_features         the per-call flag becomes the GROUP option strict_type_enforcement=True of every typed
                                        requested feature (propagate_strict, Model/Validate.v)
     Engine._process_feature / Features.__init__ (child_options) -> Features.merge_options -> Options.update_with_protected_keys
                                        the group options of a feature are merged into every input feature it asks for: an
                                        input feature that carries the key itself with ANOTHER value makes prepare raise
                                        ("Duplicate key ... conflicting values"), otherwise it inherits the value; the input
                                        feature hands its (merged) group options on in the same way - transitively
     ComputeFramework.run_validate_output_features -> DataTypeValidator.validate   every feature of every step is validated with
                                        ITS OWN effective option (validate_raises)
   Definitions only. *)
From Coq Require Import List Bool.
Import ListNotations.
Require Import MV.Spec.Types MV.Model.Validate.

Definition strict_opt_eqb (a b : strict_opt) : bool :=
  match a, b with SAbsent, SAbsent | STrue, STrue | SFalse, SFalse => true | _, _ => false end.

(* one level of the chain: declared type, produced type (None = unsupported Arrow type), the option the feature itself carries *)
Record level := { l_declared : option dtype; l_actual : option dtype; l_own : strict_opt }.

(* Features.merge_options on the strict key: inherited value of the parent meets the feature's own value *)
Definition merge_strict (parent own : strict_opt) : option strict_opt :=
  match parent, own with
  | SAbsent, o => Some o
  | p, SAbsent => Some p
  | p, o => if strict_opt_eqb p o then Some p else None
  end.

(* effective option of every level below a parent whose effective option is `parent`; None = prepare raises the conflict *)
Fixpoint effective (parent : strict_opt) (ls : list level) : option (list strict_opt) :=
  match ls with
  | [] => Some []
  | l :: t =>
    match merge_strict parent (l_own l) with
    | None => None
    | Some e => match effective e t with None => None | Some r => Some (e :: r) end
    end
  end.

Inductive chain_outcome := CConflict | CMismatch | COk.

Definition vcase_of (l : level) (e : strict_opt) : vcase :=
  {| v_declared := l_declared l; v_present := true; v_actual := l_actual l; v_strict := e |}.

(* the whole call: top = requested feature, rest = its chain of inputs *)
(* mlodaAPI._process_features: feature.options.add(strict_type_enforcement, True) raises when the requested feature carries
   the key with the value False (Options.add: "already exists in group options with a different value") *)
Definition api_add_conflicts (api_flag : bool) (top : level) : bool :=
  api_flag && match l_own top with SFalse => true | _ => false end.

Definition chain_run (strict lenient : dtype -> dtype -> bool) (api_flag : bool) (top : level) (rest : list level) : chain_outcome :=
  let e0 := propagate_strict api_flag (l_declared top) (l_own top) in
  if api_add_conflicts api_flag top then CConflict else
  match effective e0 rest with
  | None => CConflict
  | Some es =>
    if existsb (fun le => validate_raises strict lenient (vcase_of (fst le) (snd le))) (combine (top :: rest) (e0 :: es))
    then CMismatch else COk
  end.

(* the code before fix 04e88fc (flag on typed requested features only) *)
Definition chain_run_old (strict lenient : dtype -> dtype -> bool) (api_flag : bool) (top : level) (rest : list level) : chain_outcome :=
  let e0 := propagate_strict_old api_flag (l_declared top) (l_own top) in
  if api_flag && match l_declared top, l_own top with Some _, SFalse => true | _, _ => false end then CConflict else
  match effective e0 rest with
  | None => CConflict
  | Some es =>
    if existsb (fun le => validate_raises strict lenient (vcase_of (fst le) (snd le))) (combine (top :: rest) (e0 :: es))
    then CMismatch else COk
  end.
