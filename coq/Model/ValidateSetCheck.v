(* C17, family `links` (harness/c17_links.py): the statement in executable form and the two checkers evaluated on every generated
   request.  Definitions only.

   spec_request is the STATEMENT: it looks only at what the user declared - the features the user wrote (requested / input features)
   with the declaration that results for each (own or the group's rule), and the filter features on which the user declared a
   type.  Links, indexes and index columns do not occur in it.  Proofs/ValidateSetP.run_request_is_spec proves that the engine
   model (ValidateSet.run_request: collection with index and filter features, validation of every feature of it) has exactly that
   verdict, for all inputs. *)
From Coq Require Import List Bool String Arith.
Import ListNotations.
Require Import MV.Spec.Types MV.Model.Validate MV.Model.ValidateChain MV.Model.ValidateSet.
Open Scope string_scope.
Open Scope list_scope.

Definition typed (e : entry) : bool := match e_type e with Some _ => true | None => false end.

(* the declarations of the user: per user feature its own entry and the filter features of matching filters - those that are typed *)
Definition declared_entries (groups : list group) (filters : list flt) (us : list ufeat) : list entry :=
  flat_map (fun u =>
    match nth_error groups (u_group u), declared_type groups u with
    | Some g, Some t => let own := user_entry u t in filter typed (own :: add_filter_features (u_group u) g filters own)
    | _, _ => []
    end) us.

(* which prepare-time error a request ends in (api_conflict, prepare_error: Model/ValidateSet.v) does not depend on links, indexes or
   filters either *)
Definition spec_request (strict lenient : dtype -> dtype -> bool) groups filters (api : bool) (rs : list rfeat) (cols : columns)
  : req_outcome :=
  if api_conflict api rs then QOptConflict else
  match prepare_error groups api rs with
  | Some o => o
  | None =>
    match flatten api rs with
    | None => QOptConflict
    | Some us =>
      if existsb (undeclarable groups) us then QReject
      else if run_mismatch strict lenient cols (declared_entries groups filters us) then QMismatch else QOk
    end
  end.

(* ---- checkers ---- *)
Record link_case := {
  lc_groups : list group; lc_links : option (list link); lc_filters : list flt; lc_api : bool; lc_req : list rfeat;
  lc_cols : columns;
  lc_obs : option req_outcome;      (* None = an outcome outside the enum / an observation that cannot be expressed *)
  lc_entries : list entry           (* (group, name, declared type, strict option) of every feature that reached the validator *)
}.

Definition subset_e (a b : list entry) : bool := forallb (fun x => existsb (entry_eqb x) b) a.
Definition same_set_e (a b : list entry) : bool := subset_e a b && subset_e b a.
Definition req_outcome_eqb (a b : req_outcome) : bool :=
  match a, b with QOptConflict, QOptConflict | QReject, QReject | QMismatch, QMismatch | QOk, QOk => true | _, _ => false end.
Definition is_nil {A} (l : list A) : bool := match l with [] => true | _ => false end.

(* the model: same outcome; a successful run validated exactly the model's collection (index and filter features included, each
   with the strict option the model gives it); a run that stopped at a mismatch validated part of it; a rejected request nothing *)
Definition chk_links (c : link_case) : bool :=
  match lc_obs c with
  | None => false
  | Some o =>
    let (m, coll) := run_request strict_spec lenient_spec (lc_groups c) (lc_links c) (lc_filters c) (lc_api c) (lc_req c) (lc_cols c) in
    req_outcome_eqb o m &&
    match m with
    | QOk => same_set_e coll (lc_entries c)
    | QMismatch => subset_e (lc_entries c) coll
    | _ => is_nil (lc_entries c)
    end
  end.

(* the statement: the outcome is spec_request's, and the TYPED features that reached the validator are exactly (successful run) /
   among (run stopped at a mismatch) the user's declarations *)
Definition chk_links_spec (c : link_case) : bool :=
  match lc_obs c with
  | None => false
  | Some o =>
    req_outcome_eqb o (spec_request strict_spec lenient_spec (lc_groups c) (lc_filters c) (lc_api c) (lc_req c) (lc_cols c)) &&
    match flatten (lc_api c) (lc_req c) with
    | None => is_nil (lc_entries c)
    | Some us =>
      let decl := declared_entries (lc_groups c) (lc_filters c) us in
      match o with
      | QOk => same_set_e (filter typed (lc_entries c)) decl
      | QMismatch => subset_e (filter typed (lc_entries c)) decl
      | _ => is_nil (lc_entries c)
      end
    end
  end.

(* ---- known-defect domain (known_findings.json: C17-two-declared-types-on-a-joined-root-rejected).  Outside this model: features of
   one feature group with different declared types become separate steps (Feature.similarity_key contains the data type); when that
   group is one side of a Link that is needed for a join, the planner refuses the request ("more than one solution for the join")
   although every declaration is honoured.  Decidable domain: some group on a link side has two user features whose resulting
   declarations are different types. ---- *)
Definition on_link_side (links : option (list link)) (g : nat) : bool :=
  match links with None => false | Some ks => existsb (fun k => Nat.eqb (k_lg k) g || Nat.eqb (k_rg k) g) ks end.
Definition two_declared_types (groups : list group) (us : list ufeat) (g : nat) : bool :=
  existsb (fun u => existsb (fun v =>
    Nat.eqb (u_group u) g && Nat.eqb (u_group v) g &&
    match declared_type groups u, declared_type groups v with
    | Some (Some a), Some (Some b) => negb (dtype_eqb a b)
    | _, _ => false
    end) us) us.
Definition kf_split_joined_root (groups : list group) (links : option (list link)) (us : list ufeat) : bool :=
  existsb (fun g => on_link_side links g && two_declared_types groups us g) (seq 0 (List.length groups)).
Definition in_kf_split_domain (c : link_case) : bool :=
  match flatten (lc_api c) (lc_req c) with
  | Some us => kf_split_joined_root (lc_groups c) (lc_links c) us
  | None => false
  end.
