(* Conventions of the pandas / pyarrow implementations where they DIFFER from Spec/Builtins.v, written down as
   executable variants (definitions only).  These are the "faithful model, defect present" side of the known findings
   of C19: the correspondence check accepts, inside a known-finding domain only, either the spec or the variant.
   Each variant is a description of OBSERVED library behaviour behind the named mloda code, not a model of pandas /
   pyarrow kernels.

     agg_pop                  pyarrow.py `pc.variance / pc.stddev` (ddof=0)                      [std/var, aggregation + windows]
     agg_pd_sum0              pandas.py  `Series.sum()` of an all-null column = 0                [aggregation only]
     mode_smallest            pandas.py  `Series.mode().iloc[0]` = the smallest most frequent value
     impute_mode_pa           pyarrow.py `pc.value_counts` counts nulls; first maximal entry wins; a null winner
                              means `fill_null(col, None)`: nothing is imputed
     qtrunc / fill_trunc      pyarrow.py `pc.fill_null(int64 column, float)` casts the fill value to int64 (truncation)
     fill_stat_nofb           pandas.py  grouped mode: a group without a non-null value is left as it is (no fall-back)
     pa_grouped_fill          pyarrow.py grouped ffill/bfill: positions inside the group are compared with the GLOBAL
                              row number i
     *_nk                     pandas groupby drops rows whose key contains a null, pyarrow `pc.equal(col, null)` selects
                              nothing: a null key has no members
     window_with              time windows with the aggregate convention as a parameter and, for pandas.py,
                              `result.values` of the time-sorted frame written back POSITIONALLY
     re2_space, pd_*          pandas `str` columns are Arrow backed: `str.replace(regex=True)` is RE2, whose \s is
                              [\t\n\f\r ] (no \v, no \x1c-\x1f); `str.strip()` trims the Unicode white space
     pd_clean_null            pandas.py `astype(str)` keeps a null cell null; `normalize` / `remove_punctuation` then
                              raise (unicodedata.normalize / translate on a float) *)
From Coq Require Import QArith Qabs Qround List Bool Arith ZArith Ascii.
Import ListNotations.
Require Import MV.Spec.Builtins MV.Model.TextCleanPyDict.
Open Scope Q_scope.

(* ---- aggregation ---- *)
Definition agg_pop (op : aggop) (c : col) : option Q :=
  match op with AStd | AVar => var_l 0 (vals c) | _ => agg_spec op c end.
Definition agg_pd_sum0 (op : aggop) (c : col) : option Q :=
  match op, vals c with ASum, [] => Some 0 | _, _ => agg_spec op c end.

(* ---- imputation ---- *)
Definition is_max_count (l : list Q) (x : Q) : bool := forallb (fun y => (count_of y l <=? count_of x l)%nat) l.
Definition mode_smallest (l : list Q) : option Q := min_l (filter (is_max_count l) l).

Definition cell_eqb (a b : cell) : bool :=
  match a, b with None, None => true | Some x, Some y => Qeq_bool x y | _, _ => false end.
Definition ccount (x : cell) (c : col) : nat := List.length (filter (cell_eqb x) c).
(* first cell (null included) that no other cell beats in frequency *)
Definition mode_cell (c : col) : option cell := find (fun x => forallb (fun y => (ccount y c <=? ccount x c)%nat) c) c.
Definition mode_pa (c : col) : option Q := match mode_cell c with Some (Some v) => Some v | _ => None end.
Definition impute_mode_pa (c : col) : col := fill_with (mode_pa c) c.

(* cast float -> int64: rounding toward zero *)
Definition qtrunc (q : Q) : Q := inject_Z (Z.quot (Qnum q) (Zpos (Qden q))).
Definition fill_trunc (v : option Q) (c : col) : col := fill_with (option_map qtrunc v) c.
(* mean / median / constant on an int64 Arrow column *)
Definition impute_pa_int (m : imethod) (c : col) : col :=
  match m with
  | IMean => fill_trunc (mean_l (vals c)) c
  | IMedian => fill_trunc (median_l (vals c)) c
  | IConst k => fill_trunc (Some k) c
  | _ => impute_spec m c
  end.

(* keys with a null cell match nothing when nk = true *)
Definition key_has_null (k : key) : bool := existsb (fun x => match x with None => true | Some _ => false end) k.
Definition members_nk (nk : bool) (keys : list key) (k : key) (c : col) : col :=
  if nk && key_has_null k then [] else members keys k c.

Definition stat_fb_nk (nk : bool) (stat : list Q -> option Q) (overall : option Q) (keys : list key) (c : col) (k : key)
  : option Q := match stat (vals (members_nk nk keys k c)) with Some v => Some v | None => overall end.
(* grouped statistic with the fall-back value given explicitly (None = no fall-back) *)
Definition fill_stat_gen (nk : bool) (stat : list Q -> option Q) (overall : option Q) (keys : list key) (c : col) : col :=
  map (fun p => match snd p with Some _ => snd p | None => stat_fb_nk nk stat overall keys c (fst p) end) (combine keys c).

(* pandas grouped: mean/median with overall fall-back; mode WITHOUT fall-back and smallest-on-ties;
   ffill/bfill via groupby.transform: rows with a null key come back null, also the non-null ones *)
Definition drop_nullkey_rows (nk : bool) (keys : list key) (c : col) : col :=
  map (fun p => if nk && key_has_null (fst p) then None else snd p) (combine keys c).
Definition pd_grouped (nk : bool) (m : imethod) (keys : list key) (c : col) : col :=
  match m with
  | IMean => fill_stat_gen nk mean_l (mean_l (vals c)) keys c
  | IMedian => fill_stat_gen nk median_l (median_l (vals c)) keys c
  | IMode => fill_stat_gen nk mode_smallest None keys c
  | IConst k => fill_with (Some k) c
  | IFfill | IBfill => drop_nullkey_rows nk keys (impute_grouped_spec m keys c)
  end.

(* pyarrow grouped: statistics with overall fall-back (mode counts nulls, group and overall);
   ffill/bfill: group_data = all cells of the group; valid = positions INSIDE group_data of its non-null cells;
   ffill takes the largest valid position < i, bfill the smallest > i, where i is the row number in the table *)
Fixpoint valid_positions (n : nat) (g : col) : list nat :=
  match g with [] => [] | Some _ :: t => n :: valid_positions (S n) t | None :: t => valid_positions (S n) t end.
Definition pa_grouped_fill (fwd : bool) (nk : bool) (keys : list key) (c : col) : col :=
  map (fun i =>
         match nth i c None with
         | Some v => Some v
         | None =>
             let g := members_nk nk keys (nth i keys []) c in
             let valid := valid_positions 0 g in
             if fwd then match rev (filter (fun j => (j <? i)%nat) valid) with j :: _ => nth j g None | [] => None end
             else match filter (fun j => (i <? j)%nat) valid with j :: _ => nth j g None | [] => None end
         end) (seq 0 (List.length c)).
Definition mode_pa_l (g : col) : option Q := mode_pa g.
Definition pa_grouped (nk : bool) (m : imethod) (keys : list key) (c : col) : col :=
  match m with
  | IMean => fill_stat_gen nk mean_l (mean_l (vals c)) keys c
  | IMedian => fill_stat_gen nk median_l (median_l (vals c)) keys c
  | IMode => map (fun p => match snd p with
                           | Some _ => snd p
                           | None => match mode_pa (members_nk nk keys (fst p) c) with Some v => Some v | None => mode_pa c end
                           end) (combine keys c)
  | IConst k => fill_with (Some k) c
  | IFfill => pa_grouped_fill true nk keys c
  | IBfill => pa_grouped_fill false nk keys c
  end.
(* the spec's grouping with null keys matching nothing (what "null key = no group" means for the statistics) *)
Definition spec_grouped_nk (m : imethod) (keys : list key) (c : col) : col :=
  match m with
  | IMean => fill_stat_gen true mean_l (mean_l (vals c)) keys c
  | IMedian => fill_stat_gen true median_l (median_l (vals c)) keys c
  | IMode => fill_stat_gen true mode_l (mode_l (vals c)) keys c
  | _ => impute_grouped_spec m keys c
  end.

(* ---- the same conventions with one switch per recorded deviation (true = deviation present, false = repaired):
        the correspondence check accepts, inside a known-finding domain, any combination of present / repaired, so that
        repairing one defect of /repo at a time never raises an alarm.  All switches true = the definitions above. ---- *)
Record pdconv := { pd_tie : bool; pd_nofb : bool; pd_nk : bool; pd_tuple : bool }.
Record paconv := { pa_modenull : bool; pa_trunc : bool; pa_fillidx : bool; pa_nk : bool; pa_crash : bool }.

Definition pd_mode (tie : bool) (l : list Q) : option Q := if tie then mode_smallest l else mode_l l.
Definition pd_ungrouped_cv (cv : pdconv) (m : imethod) (c : col) : col :=
  match m with IMode => fill_with (pd_mode (pd_tie cv) (vals c)) c | _ => impute_spec m c end.
Definition pd_grouped_cv (cv : pdconv) (m : imethod) (keys : list key) (c : col) : col :=
  let nk := pd_nk cv in
  match m with
  | IMean => fill_stat_gen nk mean_l (mean_l (vals c)) keys c
  | IMedian => fill_stat_gen nk median_l (median_l (vals c)) keys c
  | IMode => fill_stat_gen nk (pd_mode (pd_tie cv)) (if pd_nofb cv then None else pd_mode (pd_tie cv) (vals c)) keys c
  | IConst k => fill_with (Some k) c
  | IFfill | IBfill => drop_nullkey_rows nk keys (impute_grouped_spec m keys c)
  end.

Definition pa_mode (mn : bool) (g : col) : option Q := if mn then mode_pa g else mode_l (vals g).
(* repaired positions; a row with a null key still has no group when nk: its cell is left as it is *)
Definition keep_nullkey_rows (nk : bool) (keys : list key) (c s : col) : col :=
  map (fun p => if nk && key_has_null (fst p) then fst (snd p) else snd (snd p)) (combine keys (combine c s)).
Definition pa_fill_cv (cv : paconv) (fwd : bool) (keys : list key) (c : col) : col :=
  if pa_fillidx cv then pa_grouped_fill fwd (pa_nk cv) keys c
  else keep_nullkey_rows (pa_nk cv) keys c (impute_grouped_spec (if fwd then IFfill else IBfill) keys c).
Definition pa_grouped_cv (cv : paconv) (m : imethod) (keys : list key) (c : col) : col :=
  let nk := pa_nk cv in
  match m with
  | IMean => fill_stat_gen nk mean_l (mean_l (vals c)) keys c
  | IMedian => fill_stat_gen nk median_l (median_l (vals c)) keys c
  | IMode => map (fun p => match snd p with
                           | Some _ => snd p
                           | None => match pa_mode (pa_modenull cv) (members_nk nk keys (fst p) c) with
                                     | Some v => Some v
                                     | None => pa_mode (pa_modenull cv) c
                                     end
                           end) (combine keys c)
  | IConst k => fill_with (Some k) c
  | IFfill => pa_fill_cv cv true keys c
  | IBfill => pa_fill_cv cv false keys c
  end.
Definition pa_ungrouped_cv (cv : paconv) (is_int : bool) (m : imethod) (c : col) : col :=
  match m with
  | IMode => fill_with (pa_mode (pa_modenull cv) c) c
  | IMean | IMedian | IConst _ => if is_int && pa_trunc cv then impute_pa_int m c else impute_spec m c
  | _ => impute_spec m c
  end.

(* ---- time windows ---- *)
Definition win_agg_with (agg : aggop -> col -> option Q) (op : wop) (w : col) : option Q :=
  match op with WAgg a => agg a w | WFirst => hd None w | WLast => last w None end.
Definition window_with (agg : aggop -> col -> option Q) (positional : bool) (op : wop) (w : nat) (times : list Z) (c : col)
  : list (option Q) :=
  let ord := time_order times in
  let sorted := map (fun i => nth i c None) ord in
  let res := map (fun i => win_agg_with agg op (window_at w i sorted)) (seq 0 (List.length sorted)) in
  if positional then res else map (fun i => nth (pos_of i ord) res None) (seq 0 (List.length c)).
Definition window_pa := window_with agg_pop false.
Definition window_pd := window_with agg_spec true.

(* ---- text ---- *)
Definition re2_space (a : ascii) : bool :=
  let n := nat_of_ascii a in Nat.eqb n 32 || Nat.eqb n 9 || Nat.eqb n 10 || Nat.eqb n 12 || Nat.eqb n 13.
Definition pd_remove_special (s : text) : text := filter (fun a => re_alnum a || re2_space a) s.
Fixpoint collapse_re2 (in_run : bool) (s : text) : text :=
  match s with
  | [] => []
  | a :: t => if re2_space a then (if in_run then collapse_re2 true t else space :: collapse_re2 true t)
              else a :: collapse_re2 false t
  end.
Definition pd_normalize_whitespace (s : text) : text := strip (collapse_re2 false s).
Definition pd_apply (o : cleanop) (s : text) : text :=
  match o with CSpecial => pd_remove_special s | CWhite => pd_normalize_whitespace s | _ => py_apply o s end.
Definition pd_clean (ops : list cleanop) (s : text) : text := fold_left (fun acc o => pd_apply o acc) ops s.
Definition odd_space (a : ascii) : bool := re_space a && negb (re2_space a).

(* outcome for a null cell on pandas: None = the run raises, Some None = the cell stays null *)
Definition pd_clean_null (ops_raise : bool) : option (option text) := if ops_raise then None else Some None.
