(* Conventions of the pandas / pyarrow implementations where they still DIFFER from Spec/Builtins.v, written down as
   executable variants (definitions only).  These are the "faithful model, defect present" side of the OPEN known
   findings of C19: the correspondence check accepts, inside a known-finding domain only, either the spec or the variant.
   Each variant is a description of OBSERVED library behaviour behind the named mloda code, not a model of pandas /
   pyarrow kernels.

     agg_pop                  pyarrow.py `pc.variance / pc.stddev` (ddof=0)                      [std/var, aggregation + windows]
     agg_pd_sum0              pandas.py  `Series.sum()` of an all-null column = 0                [aggregation only]
     window_with, window_pa   time windows with the aggregate convention as a parameter
     re2_space, pd_*          pandas `str` columns are Arrow backed: `str.replace(regex=True)` is RE2, whose \s is
                              [\t\n\f\r ] (no \v, no \x1c-\x1f); `str.strip()` trims the Unicode white space

   REPAIRED in /repo (patches under fixes/), hence no longer described here and no longer accepted by the check:
   pandas mode ties, pandas grouped mode without fall-back, pandas groupby(tuple), pandas positional window results,
   pandas null text cells, pyarrow mode counting nulls, pyarrow truncating fill values of int columns, pyarrow grouped
   ffill/bfill positions (and the crash on an empty group), null group keys on pandas / pyarrow, PythonDict grouped
   imputation of string columns.  For all of these every framework is now held to the spec itself. *)
From Coq Require Import QArith Qabs List Bool Arith ZArith Ascii.
Import ListNotations.
Require Import MV.Spec.Builtins MV.Model.TextCleanPyDict.
Open Scope Q_scope.

(* ---- aggregation ---- *)
Definition agg_pop (op : aggop) (c : col) : option Q :=
  match op with AStd | AVar => var_l 0 (vals c) | _ => agg_spec op c end.
Definition agg_pd_sum0 (op : aggop) (c : col) : option Q :=
  match op, vals c with ASum, [] => Some 0 | _, _ => agg_spec op c end.

(* ---- time windows ---- *)
Definition win_agg_with (agg : aggop -> col -> option Q) (op : wop) (w : col) : option Q :=
  match op with WAgg a => agg a w | WFirst => hd None w | WLast => last w None end.
Definition window_with (agg : aggop -> col -> option Q) (op : wop) (w : nat) (times : list Z) (c : col)
  : list (option Q) :=
  let ord := time_order times in
  let sorted := map (fun i => nth i c None) ord in
  let res := map (fun i => win_agg_with agg op (window_at w i sorted)) (seq 0 (List.length sorted)) in
  map (fun i => nth (pos_of i ord) res None) (seq 0 (List.length c)).
Definition window_pa := window_with agg_pop.

(* ---- text ---- *)
Definition re2_space (a : ascii) : bool :=
  let n := nat_of_ascii a in Nat.eqb n 32 || Nat.eqb n 9 || Nat.eqb n 10 || Nat.eqb n 12 || Nat.eqb n 13.
Definition pd_remove_special (s : text) : text := filter (fun a => re_alnum a || re2_space a) s.
Fixpoint collapse_re2 (in_run : bool) (s : text) : text :=
  match s with
  | [] => []
  | a :: t => if re2_space a then (if in_run then collapse_re2 true t else space :: collapse_re2 true t)
              else a :: collapse_re2 false t
  end.
Definition pd_normalize_whitespace (s : text) : text := strip (collapse_re2 false s).
(* text_cleaning/pandas.py _remove_urls (lines 238-260): result = text.str.replace(url_pattern, "", regex=True);
   result = result.str.replace(email_pattern, "", regex=True) -- the same two patterns, the same order, RE2's `\s` *)
Definition pd_remove_urls (s : text) : text := two_pass re2_space s.
Definition pd_apply (o : cleanop) (s : text) : text :=
  match o with CSpecial => pd_remove_special s | CWhite => pd_normalize_whitespace s | CUrls => pd_remove_urls s
          | _ => py_apply o s end.
Definition pd_clean (ops : list cleanop) (s : text) : text := fold_left (fun acc o => pd_apply o acc) ops s.
Definition odd_space (a : ascii) : bool := re_space a && negb (re2_space a).

