(* Routing with JoinSteps (C05): Model/Routing.v extended by the merge relation of CfwManager and the JoinStep branches of
   ComputeFrameworkExecutor, and a data plane over relational tables (Spec/Rel.v) in which a JoinStep replaces the table of
   the LEFT object by the join with the table of the object it reads from.

   Mirrors (mloda/core/...):
     core/cfw_manager.py   CfwManager.cfw_merge_relation (dict uuid -> (left uuid, class name))   mrel
                           CfwManager.add_to_merge_relation                                       mrel_add
                           CfwManager.find_leftmost (while loop)                                  find_leftmost (fuel)
                           CfwManager.get_cfw_uuid = first matching object, then find_leftmost    get_cfw_j
     runtime/compute_framework_executor.py
                           prepare_execute_step: FeatureGroupStep / TransformFrameworkStep        route_fg_j / route_tfs_j
                                                                                                  (= Routing.route_fg / route_tfs
                                                                                                   with get_cfw_j for get_cfw)
                           prepare_execute_step: JoinStep branch
                             get_cfw_uuid(left_framework, next(iter(left_framework_uuids)))       route_join (object written)
                           prepare_tfs_and_joinstep: JoinStep branch
                             get_cfw_uuid(left_framework, link.uuid)  or
                             get_cfw_uuid(left_framework, next(iter(right_framework_uuids)))      route_join (object read)
     core/step/join_step.py JoinStep.execute: cfw.data = merge(cfw.data, from_cfw.data, jointype,
                             left_index, right_index); add_to_merge_relation(cfw.uuid, from.uuid,
                             cfw class)                                                            exec_x (XJoin), mrel_add
   The merge itself is Spec/Rel.rel_join (what the merge engines are measured against in C12).
   find_leftmost is a `while` loop without a bound: here it gets fuel and returns None when the fuel runs out or a key is
   missing (Python: KeyError); Proofs/RoutingJP.v shows that for every merge relation a run can build the loop terminates.
   Sets iterated with next(iter(..)) are lists in iteration order (exported from the real set objects).
   Definitions only. *)
From Coq Require Import List Bool ZArith Arith String.
Import ListNotations.
Require Import MV.Spec.RefEval MV.Model.DataPlane MV.Model.Routing MV.Spec.Rel.
Open Scope nat_scope.
Open Scope list_scope.

(* uuid -> (left uuid, class); a later assignment to the same key shadows the earlier one *)
Definition mrel := list (nat * (nat * nat)).

Fixpoint mrel_get (rel : mrel) (k : nat) : option (nat * nat) :=
  match rel with [] => None | (k', v) :: r => if Nat.eqb k k' then Some v else mrel_get r k end.

(* add_to_merge_relation(left, right, cls): rel[right] = (left, cls); if left not in rel: rel[left] = (left, cls) *)
Definition mrel_add (rel : mrel) (left right cls : nat) : mrel :=
  let rel1 := (right, (left, cls)) :: rel in
  match mrel_get rel1 left with Some _ => rel1 | None => (left, (left, cls)) :: rel1 end.

(* while rel[uuid][0] != uuid: uuid = rel[uuid][0]; if rel[uuid][1] == cls: leftmost = uuid *)
Fixpoint fl_loop (fuel : nat) (rel : mrel) (uuid cls leftmost : nat) : option nat :=
  match fuel with
  | O => None
  | S f =>
    match mrel_get rel uuid with
    | None => None                                        (* KeyError *)
    | Some (p, _) =>
      if Nat.eqb p uuid then Some leftmost
      else match mrel_get rel p with
           | None => None                                 (* KeyError *)
           | Some (_, c) => fl_loop f rel p cls (if Nat.eqb c cls then p else leftmost)
           end
    end
  end.

Definition find_leftmost (fuel : nat) (rel : mrel) (uuid cls : nat) : option nat :=
  match mrel_get rel uuid with
  | None => Some uuid                                     (* if uuid not in rel: return uuid *)
  | Some _ => fl_loop fuel rel uuid cls uuid
  end.

(* enough for every chain without a cycle: one step per key *)
Definition fuel_of (rel : mrel) : nat := S (List.length rel).

Inductive lk := Found (o : nat) | NotFound | Diverges.

Definition get_cfw_j (reg : registry) (rel : mrel) (cls u : nat) : lk :=
  match get_cfw reg cls u with
  | None => NotFound
  | Some o => match find_leftmost (fuel_of rel) rel o cls with Some l => Found l | None => Diverges end
  end.

Fixpoint first_hit_j (reg : registry) (rel : mrel) (cls : nat) (us : list nat) : lk :=
  match us with
  | [] => NotFound
  | u :: t => match get_cfw_j reg rel cls u with NotFound => first_hit_j reg rel cls t | r => r end
  end.

Record jrec := {
  j_sid : nat;
  j_cls : nat;                  (* step.left_framework *)
  j_left : list nat;            (* step.left_framework_uuids in iteration order *)
  j_right : list nat;           (* step.right_framework_uuids in iteration order *)
  j_link : nat;                 (* step.link.uuid *)
  j_jt : jointype; j_lk : list col; j_rk : list col
}.

Inductive xstep := XB (st : rstep) (tab : option table) | XJ (j : jrec).
(* tab: for a FeatureGroupStep of a root group the table its calculation creates; None: the step leaves the object's
   table as it is (a consumer that only reads) *)

Definition xsid (x : xstep) : nat := match x with XB st _ => rs_sid st | XJ j => j_sid j end.

Inductive routed_j := RoutedJ (reg : registry) (w : nat) (rd : option nat) | RouteErrJ | RouteDiverges.

Definition route_fg_j (reg : registry) (rel : mrel) (st : rstep) : routed_j :=
  match first_hit_j reg rel (rs_cls st) (rs_tfs st) with
  | Found o => RoutedJ reg o None
  | Diverges => RouteDiverges
  | NotFound =>
    match get_cfw_j reg rel (rs_cls st) (rs_any st) with
    | Found o => RoutedJ reg o None
    | Diverges => RouteDiverges
    | NotFound => RoutedJ (reg_add reg (rs_sid st) (rs_cls st) (rs_cir st)) (rs_sid st) None
    end
  end.

Definition route_tfs_j (reg : registry) (rel : mrel) (st : rstep) : routed_j :=
  match first_hit_j reg rel (rs_from st) (rs_req st) with
  | NotFound => RouteErrJ
  | Diverges => RouteDiverges
  | Found fo =>
    let ch := children_of reg fo ++ match rs_link st with Some l => [l] | None => [] end in
    let reg' := reg_add reg (rs_sid st) (rs_cls st) ch in
    match (match rs_right st with Some u => Some u | None => hd_error (rs_req st) end) with
    | None => RouteErrJ
    | Some u =>
      match get_cfw_j reg' rel (rs_from st) u with
      | NotFound => RouteErrJ
      | Diverges => RouteDiverges
      | Found ro => RoutedJ reg' (rs_sid st) (Some ro)
      end
    end
  end.

Definition route_join (reg : registry) (rel : mrel) (j : jrec) : routed_j :=
  match hd_error (j_left j) with
  | None => RouteErrJ                                     (* next(iter(empty set)): StopIteration *)
  | Some lu =>
    match get_cfw_j reg rel (j_cls j) lu with
    | NotFound => RouteErrJ                               (* "This should not occur" *)
    | Diverges => RouteDiverges
    | Found w =>
      match get_cfw_j reg rel (j_cls j) (j_link j) with
      | Found f => RoutedJ reg w (Some f)
      | Diverges => RouteDiverges
      | NotFound =>
        match hd_error (j_right j) with
        | None => RouteErrJ
        | Some ru =>
          match get_cfw_j reg rel (j_cls j) ru with
          | Found f => RoutedJ reg w (Some f)
          | Diverges => RouteDiverges
          | NotFound => RouteErrJ                         (* "from_cfw_uuid should not be none" *)
          end
        end
      end
    end
  end.

Definition route_x (reg : registry) (rel : mrel) (x : xstep) : routed_j :=
  match x with
  | XB st _ => match rs_kind st with RFG => route_fg_j reg rel st | RTFS => route_tfs_j reg rel st end
  | XJ j => route_join reg rel j
  end.

(* relational store: object -> table *)
Definition rstore := list (nat * table).
Fixpoint rs_get (s : rstore) (o : nat) : option table :=
  match s with [] => None | (k, t) :: r => if Nat.eqb k o then Some t else rs_get r o end.

Inductive xout := XOk | XRouteErr (sid : nat) | XDiverges (sid : nat) | XNoData (sid : nat).

Record xstate := { x_reg : registry; x_rel : mrel; x_store : rstore;
                   x_feet : list foot;                       (* footprints, begin order *)
                   x_seen : list (nat * table) }.            (* table of the object each FG step worked on, when it began *)

Definition x_init : xstate := {| x_reg := []; x_rel := []; x_store := []; x_feet := []; x_seen := [] |}.

Definition exec_x (s : xstate) (x : xstep) : xstate * xout :=
  match route_x (x_reg s) (x_rel s) x with
  | RouteErrJ => (s, XRouteErr (xsid x))
  | RouteDiverges => (s, XDiverges (xsid x))
  | RoutedJ reg' w rd =>
    let feet := x_feet s ++ [(xsid x, w, rd)] in
    match x with
    | XB st tab =>
      match rs_kind st with
      | RFG =>
        match tab with
        | Some t => ({| x_reg := reg'; x_rel := x_rel s; x_store := (w, t) :: x_store s; x_feet := feet; x_seen := x_seen s |}, XOk)
        | None =>
          match rs_get (x_store s) w with
          | Some t => ({| x_reg := reg'; x_rel := x_rel s; x_store := x_store s; x_feet := feet;
                          x_seen := x_seen s ++ [(rs_sid st, t)] |}, XOk)
          | None => ({| x_reg := reg'; x_rel := x_rel s; x_store := x_store s; x_feet := feet; x_seen := x_seen s |}, XNoData (rs_sid st))
          end
        end
      | RTFS =>
        match rd with
        | Some r =>
          match rs_get (x_store s) r with
          | Some t => ({| x_reg := reg'; x_rel := x_rel s; x_store := (w, t) :: x_store s; x_feet := feet; x_seen := x_seen s |}, XOk)
          | None => ({| x_reg := reg'; x_rel := x_rel s; x_store := x_store s; x_feet := feet; x_seen := x_seen s |}, XNoData (rs_sid st))
          end
        | None => (s, XRouteErr (rs_sid st))
        end
      end
    | XJ j =>
      match rd with
      | Some r =>
        match rs_get (x_store s) w, rs_get (x_store s) r with
        | Some tl, Some tr =>
          ({| x_reg := reg'; x_rel := mrel_add (x_rel s) w r (j_cls j);
              x_store := (w, rel_join (j_jt j) (j_lk j) (j_rk j) tl tr) :: x_store s; x_feet := feet; x_seen := x_seen s |}, XOk)
        | _, _ => ({| x_reg := reg'; x_rel := x_rel s; x_store := x_store s; x_feet := feet; x_seen := x_seen s |}, XNoData (j_sid j))
        end
      | None => (s, XRouteErr (j_sid j))
      end
    end
  end.

Fixpoint run_x (s : xstate) (steps : list xstep) : xstate * xout :=
  match steps with
  | [] => (s, XOk)
  | x :: r => match exec_x s x with (s', XOk) => run_x s' r | res => res end
  end.

(* the merge relations a run can build: every insertion attaches one tree root under another (or under itself) *)
Definition mparent (rel : mrel) (k : nat) : nat := match mrel_get rel k with Some (p, _) => p | None => k end.
