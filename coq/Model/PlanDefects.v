(* The three known planner-defect domains as executable predicates on an EXPORTED plan (harness/universe.export_plan):
   Coq versions of harness/universe.py kf_tfs_missing / kf_tfs_partial_requirement / kf_framework_roundtrip, derived from
   what the planner model (Model/PlannerB.v) shows can go wrong.  Definitions only.

   Input:  xp  : bplan   the plan: Orch.step (sid, kind, get_uuids(), required_uuids, requested) + what export_plan exports
                         per step (PlannerB.bstep: frameworks, groups, any_uuid, children_if_root, tfs_ids, link flag);
                         JoinSteps are KJOIN steps with b_cfw = left framework
           adj : xadj    (feature uuid, uuids of its direct inputs) from the feature graph (harness/orch.export_adj) in the
                         same uuid space.  When the graph is not at hand, adj_from_plan xp is a substitute (see below).

   What add_tfs does (Model/PlannerB.v) and where it goes wrong.  For a feature-group step c the planner looks at ONE of
   its features, a = any_uuid, takes the MAXIMAL ancestors p of a (ancestors that are not ancestors of other ancestors:
   direct inputs not reachable through another input) that live on another framework, and constructs for each a
   TransformFrameworkStep (from = framework of p, to = framework of c, from group, to group) that requires {p}.  Steps
   with equal (from, to, from group, to group) are the same step for the planner: only the first constructed one is
   kept, and only the consumer that constructed it gets it into its required_uuids.
     (1) MISSING: a maximal input u of c on another framework for which NO transform step with the right frameworks and
         groups is among the steps c (transitively) waits for.  Cause: u is an input of a feature of c other than a.
     (2) PARTIAL: such steps exist among the steps c waits for, but none of them (transitively) waits for the step that
         produces u, so the copy it makes may be taken before u exists.  Cause: the kept step requires only the FIRST parent
         that was iterated (of this consumer or of an earlier step of the same group); which one is first depends on the
         iteration order of a Python set (C04-nondet-tfs-required-parent).
     (3) ROUNDTRIP: at run time a step finds its object by CfwManager.get_cfw_uuid(framework class, any_uuid) = the FIRST
         registered object of that class whose children_if_root contain any_uuid; an object made by a transform step copies
         the children of its source.  c expects the object of the transform step t it waits for; the lookup is ambiguous
         when another object of the same class whose children contain any_uuid(c) can be registered before t's: the object
         of an earlier feature-group step of that class (framework round trip A -> B -> A) or of another transform step
         into that class.
   (1) and (2) are exact for the model (theorem PlannerB_defects_sound: outside both, every maximal cross-framework input is
   served); (3) is a static over-approximation of the run-time ambiguity (route_sync below is the SYNC instance). *)
From Coq Require Import List Bool Arith.
Import ListNotations.
Require Import MV.Model.Orch MV.Model.OrchCheck MV.Model.PlannerA MV.Model.PlannerB.

Definition xadj := list (nat * list nat).

(* the feature graph as far as the ancestor relation needs it; inputs that never occur as a child become root nodes *)
Definition strip_node (e : nat * list nat) : fnode := {| fid := fst e; fgrp := 0; fins := snd e; freq := false; fcfw := 0 |}.
Definition gadj (adj : xadj) : fgraph :=
  map strip_node adj ++
  map (fun p => strip_node (p, [])) (dedupe (filter (fun p => negb (mem p (map fst adj))) (flat_map snd adj))).

Definition is_join (b : bstep) : bool := match skind (bs b) with KJOIN => true | _ => false end.

Section Defects.
  Variables (xp : bplan) (adj : xadj).

  (* proper ancestors of a feature (PlannerA.p2c_of: proved to be the transitive closure, PlannerA_closure_correct) *)
  Definition xcl : amap := p2c_of (gadj adj).
  Definition anc_list (u : nat) : list nat := aget0 u xcl.
  Definition step_ancs (c : bstep) : list nat := dedupe (flat_map anc_list (uuids (bs c))).
  (* the maximal ones: not an ancestor of another ancestor of the step *)
  Definition max_inputs (c : bstep) : list nat :=
    filter (fun u => negb (existsb (fun v => mem u (anc_list v)) (step_ancs c))) (step_ancs c).

  Definition producer (u : nat) : option bstep := find (fun b => mem u (uuids (bs b))) xp.
  (* s (transitively) waits for t *)
  Definition waitsb (s t : bstep) : bool := mem (sid (bs t)) (waits_for (steps_of xp) (bs s)).
  (* a consumer behind a join gets its data through the JoinStep: not in any of the three domains (as in the Python ones) *)
  Definition joined (c : bstep) : bool :=
    existsb (fun u => match producer u with Some x => is_join x | None => false end) (req (bs c)).

  (* the step x that produces input u of consumer c, when it is a feature-group step on another framework *)
  Definition cross (c : bstep) (u : nat) : option bstep :=
    match producer u with
    | Some x => if is_fg x && negb (Nat.eqb (b_cfw x) (b_cfw c)) then Some x else None
    | None => None
    end.
  (* the transform steps c waits for that convert from x's framework / group into c's *)
  Definition servers (c x : bstep) : list bstep :=
    filter (fun t => is_tfs t && negb (b_link t) && Nat.eqb (b_from t) (b_cfw x) && Nat.eqb (b_cfw t) (b_cfw c)
                     && Nat.eqb (b_fgrp t) (b_grp x) && Nat.eqb (b_grp t) (b_grp c) && waitsb c t) xp.
  Definition missing_at (c : bstep) (u : nat) : bool :=
    match cross c u with Some x => match servers c x with [] => true | _ :: _ => false end | None => false end.
  Definition partial_at (c : bstep) (u : nat) : bool :=
    match cross c u with
    | Some x => match servers c x with [] => false | ts => negb (existsb (fun t => waitsb t x) ts) end
    | None => false
    end.
  Definition consumers : list bstep := filter (fun c => is_fg c && negb (joined c)) xp.

  Definition kf_tfs_missing : bool := existsb (fun c => existsb (missing_at c) (max_inputs c)) consumers.
  Definition kf_tfs_partial : bool := existsb (fun c => existsb (partial_at c) (max_inputs c)) consumers.
  (* the witnesses (consumer sid, input uuid), for messages *)
  Definition kf_tfs_missing_at : list (nat * nat) :=
    flat_map (fun c => map (fun u => (sid (bs c), u)) (filter (missing_at c) (max_inputs c))) consumers.
  Definition kf_tfs_partial_at : list (nat * nat) :=
    flat_map (fun c => map (fun u => (sid (bs c), u)) (filter (partial_at c) (max_inputs c))) consumers.

  (* ---------- (3) the registry lookup ---------- *)
  (* a feature-group step surely FINDS an object (and registers none) when a step it waits for has the same framework
     class and its children contain the lookup uuid, or when it requires a transform step into its class *)
  Definition finds_object (r : bstep) : bool :=
    existsb (fun q => Nat.eqb (b_cfw q) (b_cfw r) &&
                      ((is_fg q && waitsb r q && mem (b_any r) (b_cir q))
                       || (is_tfs q && existsb (fun i => mem i (req (bs r))) (uuids (bs q))))) xp.
  Definition fg_creators : list bstep := filter (fun r => is_fg r && negb (finds_object r)) xp.
  (* children_if_root of the object a step registers: its own for a feature-group step; for a transform step a copy of its
     source's, which is the children set of SOME creating feature-group step containing a uuid it requires *)
  Definition obj_children (q : bstep) : list nat :=
    if is_fg q then b_cir q
    else dedupe (flat_map (fun o => if existsb (fun u => mem u (b_cir o)) (req (bs q)) then b_cir o else []) fg_creators).
  Definition creators : list bstep := filter (fun q => (is_fg q && negb (finds_object q)) || (is_tfs q && negb (b_link q))) xp.
  (* the transform steps whose object consumer c expects to compute on *)
  Definition expected (c : bstep) : list bstep :=
    filter (fun t => is_tfs t && negb (b_link t) && Nat.eqb (b_cfw t) (b_cfw c) && Nat.eqb (b_grp t) (b_grp c) && waitsb c t) xp.
  (* another object of c's class whose children contain c's lookup uuid and which is not surely registered after t's *)
  Definition rivals (c t : bstep) : list bstep :=
    filter (fun q => negb (Nat.eqb (sid (bs q)) (sid (bs t))) && Nat.eqb (b_cfw q) (b_cfw c) && mem (b_any c) (obj_children q)
                     && negb (waitsb q t) && negb (waitsb q c) && negb (Nat.eqb (sid (bs q)) (sid (bs c)))) creators.
  Definition kf_roundtrip_at : list (nat * nat) :=
    flat_map (fun c => flat_map (fun t => map (fun q => (sid (bs c), sid (bs q))) (rivals c t)) (expected c)) consumers.
  Definition kf_framework_roundtrip : bool := match kf_roundtrip_at with [] => false | _ :: _ => true end.

  Definition kf_any : bool := kf_tfs_missing || kf_tfs_partial || kf_framework_roundtrip.
  (* bit 1 = missing, 2 = partial, 4 = roundtrip *)
  Definition kf_code : nat :=
    (if kf_tfs_missing then 1 else 0) + (if kf_tfs_partial then 2 else 0) + (if kf_framework_roundtrip then 4 else 0).
End Defects.

(* substitute for the feature graph when only the plan is at hand: every feature of a feature-group step gets all feature
   uuids the step requires as inputs.  The closure of this relation contains the true ancestor relation (required_uuids of
   a feature-group step are closed under ancestors); it is larger only where two features of ONE step have different
   ancestors, so max_inputs may lose an input that is maximal for the step but below an input of a sibling feature. *)
Definition adj_from_plan (xp : bplan) : xadj :=
  flat_map (fun c => if is_fg c
                     then map (fun f => (f, filter (fun u => match producer xp u with Some x => is_fg x | None => false end) (req (bs c)))) (uuids (bs c))
                     else []) xp.

(* ---------- SYNC instance of the registry lookup (compute_framework_executor.prepare_execute_step) ---------- *)
Record obj := { o_id : nat; o_cls : nat; o_ch : list nat }.
Definition lookup (reg : list obj) (cls u : nat) : option obj := find (fun o => Nat.eqb (o_cls o) cls && mem u (o_ch o)) reg.
Fixpoint first_some {A B : Type} (f : A -> option B) (l : list A) : option B :=
  match l with [] => None | x :: t => match f x with Some y => Some y | None => first_some f t end end.
(* registry, routing table (sid, object id written, object id read by a transform step) *)
Definition rstate := (list obj * list (nat * (nat * option nat)))%type.
Definition route_step (st : rstate) (b : bstep) : rstate :=
  let reg := fst st in
  let n := List.length reg in
  match skind (bs b) with
  | KFG =>
    match first_some (lookup reg (b_cfw b)) (b_tfs b ++ [b_any b]) with
    | Some o => (reg, snd st ++ [(sid (bs b), (o_id o, None))])
    | None => (reg ++ [{| o_id := n; o_cls := b_cfw b; o_ch := b_cir b |}], snd st ++ [(sid (bs b), (n, None))])
    end
  | KTFS =>
    match first_some (lookup reg (b_from b)) (req (bs b)) with
    | Some o => (reg ++ [{| o_id := n; o_cls := b_cfw b; o_ch := o_ch o |}], snd st ++ [(sid (bs b), (n, Some (o_id o)))])
    | None => st          (* ValueError "from_feature_uuid or from_cfw_uuid should not be none" *)
    end
  | KJOIN => st
  end.
Definition find_sid (xp : bplan) (i : nat) : option bstep := find (fun b => Nat.eqb (sid (bs b)) i) xp.
(* steps in the order in which the SYNC orchestrator starts them (Model/Orch.v) *)
Definition sync_order (xp : bplan) : list nat :=
  let p := steps_of xp in rev (started_ids (iter_scan (2 * List.length p + 3) false (fun _ => false) p init)).
Definition route_sync (xp : bplan) : list (nat * (nat * option nat)) :=
  snd (fold_left (fun st i => match find_sid xp i with Some b => route_step st b | None => st end) (sync_order xp) ([], [])).
(* the object a step writes *)
Fixpoint routed (rt : list (nat * (nat * option nat))) (i : nat) : option nat :=
  match rt with [] => None | (k, (w, _)) :: t => if Nat.eqb k i then Some w else routed t i end.
(* SYNC: consumer c computes on an object that none of the transform steps it expects made *)
Definition misrouted_sync (xp : bplan) : list nat :=
  let rt := route_sync xp in
  flat_map (fun c => match expected xp c with
                     | [] => []
                     | ts => match routed rt (sid (bs c)) with
                             | Some w => if existsb (fun t => match routed rt (sid (bs t)) with Some w' => Nat.eqb w w' | None => false end) ts
                                         then [] else [sid (bs c)]
                             | None => []
                             end
                     end) (consumers xp).

(* ---------- checkers used by harness/planner_b.py ---------- *)
(* observed routing of a SYNC run: (sid, object written) with objects numbered by first appearance in begin order *)
Definition chk_route (c : bplan * list (nat * nat)) : bool :=
  let rt := route_sync (fst c) in
  forallb (fun e => match routed rt (fst e) with Some w => Nat.eqb w (snd e) | None => false end) (snd c).
Definition classify_plan (c : bplan * xadj) : nat := kf_code (fst c) (snd c).

(* ---------- the model's own plan, classified (statistics and contradiction detectors of harness/planner_b.py) ---------- *)
Definition graph_adj (g : fgraph) : xadj := map (fun n => (fid n, fins n)) g.
Definition modelB_code (c : bcase) : nat := kf_code (plan_B (bc_ord c) (bc_g c)) (graph_adj (bc_g c)).
Definition modelB_choice (c : bcase) : nat := if kf_tfs_choice (bc_ord c) (bc_g c) then 1 else 0.
(* theorems PlannerB_plan_struct / PlannerB_plan_req_covers *)
Definition chkB_struct (c : bcase) : bool :=
  let p := steps_of (plan_B (bc_ord c) (bc_g c)) in wf_struct p && validate_A p && req_covers p (graph_adj (bc_g c)).
(* theorem PlannerB_choice_free_direct: where add_tfs has no choice, no transform step is missing or partial *)
Definition chkB_choice_free (c : bcase) : bool :=
  kf_tfs_choice (bc_ord c) (bc_g c)
  || (negb (kf_tfs_missing (plan_B (bc_ord c) (bc_g c)) (graph_adj (bc_g c)))
      && negb (kf_tfs_partial (plan_B (bc_ord c) (bc_g c)) (graph_adj (bc_g c)))).
(* the plan-only substitute for the feature graph gives the same classification *)
Definition chkB_plan_only (c : bcase) : bool :=
  let p := plan_B (bc_ord c) (bc_g c) in Nat.eqb (kf_code p (graph_adj (bc_g c))) (kf_code p (adj_from_plan p)).
