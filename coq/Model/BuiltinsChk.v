(* C19 correspondence checkers: case records written by harness/c19.py and the boolean tests evaluated on them with
   vm_compute.  Definitions only.  `chk_*_spec` compares what a framework returned with Spec/Builtins.v;
   `chk_*_fw` compares it with the faithful description of that framework (Model/MissingValuePyDict, TextCleanPyDict
   for PythonDict; the variants of Model/BuiltinsFw for pandas / pyarrow).  Numbers are compared in exact rational
   arithmetic: an observed float is passed as the rational it denotes, the tolerance is 1e-9 relative (+1e-9 absolute). *)
From Coq Require Import QArith Qabs Qminmax List Bool Arith ZArith Ascii.
Import ListNotations.
Require Import MV.Spec.Builtins MV.Model.MissingValuePyDict MV.Model.TextCleanPyDict MV.Model.BuiltinsFw.
Open Scope Q_scope.

Inductive fwk := FwPd | FwPa | FwPy.

Definition tol : Q := 1 # 1000000000.
Definition close (o s : Q) : bool := Qle_bool (Qabs (o - s)) (tol * (1 + Qabs s)).
(* |o - sqrt v| <= tol * (1 + sqrt v), decided without computing the root *)
Definition close_root (o v : Q) : bool :=
  let lo := Qmax 0 ((o - tol) / (1 + tol)) in
  let hi := (o + tol) / (1 - tol) in
  Qle_bool (- tol) o && Qle_bool 0 v && Qle_bool (lo * lo) v && Qle_bool v (hi * hi).

Definition ocmp (root : bool) (o s : option Q) : bool :=
  match o, s with
  | None, None => true
  | Some a, Some b => if root then close_root a b else close a b
  | _, _ => false
  end.
Fixpoint lcmp (root : bool) (o s : list (option Q)) : bool :=
  match o, s with
  | [], [] => true
  | a :: o', b :: s' => ocmp root a b && lcmp root o' s'
  | _, _ => false
  end.
(* observation None = the run raised *)
Definition obs_cmp (root : bool) (o : option (list (option Q))) (s : option (list (option Q))) : bool :=
  match o, s with
  | None, None => true
  | Some a, Some b => lcmp root a b
  | _, _ => false
  end.

(* ---- aggregation: the (broadcast) scalar ---- *)
Record agg_case := { ag_fw : fwk; ag_op : aggop; ag_col : col; ag_obs : option (option Q) }.
Definition chk_agg_spec (c : agg_case) : bool :=
  match ag_obs c with Some o => ocmp (is_root (ag_op c)) o (agg_spec (ag_op c) (ag_col c)) | None => false end.
Definition agg_fw (f : fwk) (op : aggop) (c : col) : option Q :=
  match f with
  | FwPa => agg_pop op c
  | FwPd => agg_pd_sum0 op c
  | FwPy => agg_spec op c
  end.
Definition chk_agg_fw (c : agg_case) : bool :=
  match ag_obs c with Some o => ocmp (is_root (ag_op c)) o (agg_fw (ag_fw c) (ag_op c) (ag_col c)) | None => false end.

(* ---- imputation ---- *)
(* im_int: the source column is an integer column; im_num: it holds numbers (not strings); im_tuple: group_by_features
   was given as a tuple.  None of them influences the expected result any more (the deviations they selected are
   repaired); they are kept as a description of the input. *)
Record imp_case := { im_fw : fwk; im_m : imethod; im_int : bool; im_num : bool; im_keys : option (list key); im_tuple : bool;
                     im_col : col; im_obs : option col }.
Definition imp_expected (c : imp_case) : col :=
  match im_keys c with None => impute_spec (im_m c) (im_col c) | Some ks => impute_grouped_spec (im_m c) ks (im_col c) end.
Definition chk_imp_spec (c : imp_case) : bool := obs_cmp false (im_obs c) (Some (imp_expected c)).
(* PythonDict: the faithful model of python_dict.py; pandas / pyarrow: no recorded deviation is left, the spec itself *)
Definition imp_fw (c : imp_case) : col :=
  match im_fw c with
  | FwPy => py_perform_imputation (im_m c) (im_keys c) (im_col c)
  | _ => imp_expected c
  end.
Definition chk_imp_fw (c : imp_case) : bool := obs_cmp false (im_obs c) (Some (imp_fw c)).

(* ---- time windows ---- *)
Record win_case := { wi_fw : fwk; wi_op : wop; wi_size : nat; wi_times : list Z; wi_col : col;
                     wi_obs : option (list (option Q)) }.
Definition chk_win_spec (c : win_case) : bool :=
  obs_cmp (wop_is_root (wi_op c)) (wi_obs c) (Some (window_spec (wi_op c) (wi_size c) (wi_times c) (wi_col c))).
Definition win_fw (c : win_case) : list (option Q) :=
  match wi_fw c with
  | FwPa => window_pa (wi_op c) (wi_size c) (wi_times c) (wi_col c)
  | FwPd => window_spec (wi_op c) (wi_size c) (wi_times c) (wi_col c)
  | FwPy => window_spec (wi_op c) (wi_size c) (wi_times c) (wi_col c)
  end.
Definition chk_win_fw (c : win_case) : bool := obs_cmp (wop_is_root (wi_op c)) (wi_obs c) (Some (win_fw c)).

(* ---- text ---- *)
Definition T (l : list nat) : text := map ascii_of_nat l.
Definition text_eqb (a b : text) : bool :=
  Nat.eqb (List.length a) (List.length b) && forallb (fun p => Ascii.eqb (fst p) (snd p)) (combine a b).
Definition otext_eqb (a b : option text) : bool :=
  match a, b with None, None => true | Some x, Some y => text_eqb x y | _, _ => false end.
Fixpoint ltext_eqb (a b : list (option text)) : bool :=
  match a, b with [] , [] => true | x :: a', y :: b' => otext_eqb x y && ltext_eqb a' b' | _, _ => false end.
Definition tobs_eqb (o s : option (list (option text))) : bool :=
  match o, s with None, None => true | Some a, Some b => ltext_eqb a b | _, _ => false end.

Record clean_case := { cl_fw : fwk; cl_ops : list cleanop; cl_texts : list (option text);
                       cl_obs : option (list (option text)) }.
Definition chk_clean_spec (c : clean_case) : bool :=
  tobs_eqb (cl_obs c) (Some (map (fun x => Some (clean_cell (cl_ops c) x)) (cl_texts c))).
(* pandas: a null cell is the empty text (repaired); re2 = the RE2 white-space class is still in effect *)
Definition clean_pd (re2 : bool) (c : clean_case) : option (list (option text)) :=
  Some (map (fun x => match x with
                      | None => Some (py_clean (cl_ops c) None)
                      | Some s => Some (if re2 then pd_clean (cl_ops c) s else py_clean (cl_ops c) (Some s))
                      end) (cl_texts c)).
Definition clean_fw_all (c : clean_case) : list (option (list (option text))) :=
  match cl_fw c with
  | FwPd => [clean_pd true c; clean_pd false c]
  | _ => [Some (map (fun x => Some (py_clean (cl_ops c) x)) (cl_texts c))]
  end.
Definition chk_clean_fw (c : clean_case) : bool := existsb (fun e => tobs_eqb (cl_obs c) e) (clean_fw_all c).

(* literal helpers for generated case files *)
Definition q (n : Z) (d : positive) : Q := Qmake n d.
Definition sq (n : Z) (d : positive) : cell := Some (Qmake n d).
Definition zk (z : Z) : option Z := Some z.
