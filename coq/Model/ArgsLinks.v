(* Extension of the heap model of argument objects (Model/Args.v) by caller-owned Link OBJECTS whose two sides are class
   references, and by the resolution of a polymorphic link to the concrete pair of a request (C07, round 6).

   Model/Args.v treats a Link as an immutable value inside the caller's `links` set / Feature.link; the set and the
   objects are never written there.  Here a Link is a heap cell (address = position in `lheap`), the Engine holds
   ADDRESSES (Engine.__init__: `self.links = set(links)` -- a shallow copy: a new set of the SAME objects;
   add_feature_link_to_links: `self.links.add(feature.link)`), and ResolveLinks reads the cells through the addresses.

   Sources:
     core/engine.py        Engine.__init__ (LinkValidator.validate_links(links); self.links = set(links)),
                           add_feature_link_to_links / add_feature_to_collection (set.add of Feature.link objects)
     prepare/resolve_links.py  ResolveLinks.go_through_each_child_and_its_parents_and_look_for_links (for every child,
                           every ordered pair of distinct parents: _find_matching_links(left_fg, right_fg), every matched
                           link goes to the link trekker), _find_matching_links / _select_most_specific_links
                           = LinkSel.find_matching (the matching rule of C18, used literally)
     components/link.py    Link.__init__ (jointype, left/right_feature_group, left/right_index), matches_exact,
                           matches_polymorphic, __eq__/__hash__ (= LinkSel.link_eqb)

   What the resolver stores back into a matched Link object is the parameter `writeback`:
     wb_none  -- the code as it is: resolution is a READ-ONLY function of (link, requested pair);
     wb_bind  -- the regression "bind a polymorphically matched link to the classes it was resolved to" (seeded/C07_r6):
                 link.left_feature_group / right_feature_group := the concrete pair, unless the match was exact.
   Python set iteration order = the order of the address lists (a parameter of the call; theorems quantify over it).
   Link.uuid, self_left_alias / self_right_alias are not in the cell (structural snapshot only).  Definitions only. *)
From Coq Require Import List Bool ZArith String Arith.
Import ListNotations.
Require Import MV.Model.LinkSel.

Definition lheap := list link.                       (* the caller's Link objects *)
Definition dlink : link := {| jt := INNER; lfg := 0%nat; rfg := 0%nat; lidx := []; ridx := [] |}.
Definition lget (h : lheap) (a : nat) : link := nth a h dlink.
Definition link_in (x : link) (s : list link) : bool := existsb (link_eqb x) s.

Definition writeback := link -> cls -> cls -> link.
Definition wb_none : writeback := fun l _ _ => l.
Definition wb_bind : writeback := fun l lf rf =>
  if matches_exact l lf rf then l else {| jt := jt l; lfg := lf; rfg := rf; lidx := lidx l; ridx := ridx l |}.

(* one call (prepare / run_all): the Link objects in `links=`, the Link objects carried by features (requested features and
   input features, in the order add_feature_to_collection meets them), and the ordered pairs (left_fg, right_fg) of
   distinct parents of every child of the graph, i.e. the concrete pairs this request resolves links for *)
Record lcall := { lc_set : list nat; lc_feat : list nat; lc_pairs : list (cls * cls) }.

Inductive loutcome := LRejected | LPlanned (matched : list (list link)).      (* per pair: the links sent to the trekker *)

(* set.add of an object into the Engine's private set: decided by Link.__eq__ on the objects' current values *)
Definition eng_add (h : lheap) (s : list nat) (a : nat) : list nat :=
  if link_in (lget h a) (map (lget h) s) then s else s ++ [a].
Definition eng_set (h : lheap) (c : lcall) : list nat := fold_left (eng_add h) (lc_feat c) (lc_set c).

Section Resolve.
  Variable mro : cls -> list cls.
  Variable wb : writeback.

  (* the store after one pair: every object of the Engine's set that was matched is overwritten by the write-back *)
  Fixpoint wr (s : list nat) (m : list link) (lf rf : cls) (i : nat) (h : lheap) : lheap :=
    match h with
    | [] => []
    | l :: t => (if existsb (Nat.eqb i) s && link_in l m then wb l lf rf else l) :: wr s m lf rf (S i) t
    end.

  Definition resolve_pair (s : list nat) (h : lheap) (p : cls * cls) : lheap * list link :=
    let m := find_matching mro (map (lget h) s) (fst p) (snd p) in
    (wr s m (fst p) (snd p) 0 h, map (fun l => wb l (fst p) (snd p)) m).

  Fixpoint resolve_pairs (s : list nat) (h : lheap) (ps : list (cls * cls)) : lheap * list (list link) :=
    match ps with
    | [] => (h, [])
    | p :: t => let '(h1, m) := resolve_pair s h p in
                let '(h2, ms) := resolve_pairs s h1 t in (h2, m :: ms)
    end.

  Definition plan_links (h : lheap) (c : lcall) : lheap * loutcome :=
    if validate_rejects (map (lget h) (lc_set c)) then (h, LRejected)
    else let '(h', ms) := resolve_pairs (eng_set h c) h (lc_pairs c) in (h', LPlanned ms).

  Definition run_calls (h : lheap) (cs : list lcall) : lheap := fold_left (fun h c => fst (plan_links h c)) cs h.
End Resolve.

(* ---------- the same outcome written over VALUES only (what a call with fresh equal Link objects is given) ---------- *)
Definition vals_add (s : list link) (x : link) : list link := if link_in x s then s else s ++ [x].
Definition plan_vals (mro : cls -> list cls) (set_vals feat_vals : list link) (pairs : list (cls * cls)) : loutcome :=
  if validate_rejects set_vals then LRejected
  else LPlanned (map (fun p => find_matching mro (fold_left vals_add feat_vals set_vals) (fst p) (snd p)) pairs).

(* a call given fresh equal objects: the objects of call c allocated anew behind an arbitrary store *)
Definition shift_call (n : nat) (c : lcall) : lcall :=
  {| lc_set := map (Nat.add n) (lc_set c); lc_feat := map (Nat.add n) (lc_feat c); lc_pairs := lc_pairs c |}.

(* ---------- correspondence checker ---------- *)
Definition links_sub (a b : list link) : bool := forallb (fun x => link_in x b) a.
Definition lset_eqb (a b : list link) : bool := links_sub a b && links_sub b a.
Fixpoint heap_eqb (a b : lheap) : bool :=
  match a, b with
  | [], [] => true
  | x :: a', y :: b' => link_eqb x y && heap_eqb a' b'
  | _, _ => false
  end.
Fixpoint lsets_eqb (a b : list (list link)) : bool :=
  match a, b with
  | [], [] => true
  | x :: a', y :: b' => lset_eqb x y && lsets_eqb a' b'
  | _, _ => false
  end.
Definition lout_eqb (a b : loutcome) : bool :=
  match a, b with
  | LRejected, LRejected => true
  | LPlanned x, LPlanned y => lsets_eqb x y
  | _, _ => false
  end.

(* observation of one call: the call, the store of the caller's Link objects after it, the links the resolver matched *)
Record lobs := { lo_call : lcall; lo_after : lheap; lo_out : loutcome }.

Fixpoint chk_lcalls (mro : cls -> list cls) (h : lheap) (os : list lobs) : bool :=
  match os with
  | [] => true
  | o :: t =>
      let '(h', out) := plan_links mro wb_none h (lo_call o) in
      heap_eqb h' (lo_after o) && lout_eqb out (lo_out o)
      && lout_eqb out (plan_vals mro (map (lget h) (lc_set (lo_call o))) (map (lget h) (lc_feat (lo_call o))) (lc_pairs (lo_call o)))
      && chk_lcalls mro (lo_after o) t
  end.

Definition chk_links (c : list (cls * list cls) * lheap * list lobs) : bool :=
  let '(hier, h0, os) := c in chk_lcalls (mro_of hier) h0 os.
