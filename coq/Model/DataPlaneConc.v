(* Concurrency of the data plane (C06): footprints and independence of DataPlane actions, equivalence of stores,
   reordering of action lists by adjacent swaps, and a MICRO-STEP semantics in which a step is not atomic.

   Mirrors (as Model/DataPlane.v does, one level finer):
     ComputeFramework.run_calculation:   data = self.data  [Read]   ...calculate...   self.set_data(result)  [Write]
     TransformFrameworkStep.execute:     data = from_cfw.data  [Read]   ...convert...   new_cfw.set_data(...)  [Write]
   Between the Read and the Write of one step other worker threads (THREADING back end) may perform their own Reads
   and Writes: nothing in compute_framework_executor.thread_execute_step serialises two steps that work on the same
   compute-framework object.  `mrun` executes an arbitrary interleaving of such events.

   The footprint of an action is exactly what the C06 harness observes per step in a SYNC run and hands to
   OrchCheck.conflicting: (object written, objects read).  `independent a b` is the negation of `conflicting` on these
   footprints (Proofs/ConfluenceP.v, conflicting_independent).

   A missing source object is recorded in the snapshot (None) and reported by the step when it uses the snapshot, i.e.
   at its Write event; so the atomic `step` is literally Read immediately followed by Write (step_is_read_write).
   Definitions only. *)
From Coq Require Import List Bool ZArith Arith.
Import ListNotations.
Require MV.Model.Orch MV.Model.OrchCheck.
Require Import MV.Spec.RefEval MV.Model.DataPlane.
Local Open Scope nat_scope.

(* ---- footprints ---- *)
Definition wr (a : action) : nat := match a with ARoot o _ => o | ACalc o _ => o | ACopy _ b => b end.
Definition rd (a : action) : list nat := match a with ARoot _ _ => [] | ACalc o _ => [o] | ACopy a _ => [a] end.

(* no write/write and no read/write overlap *)
Definition independent (a b : action) : bool :=
  negb (Nat.eqb (wr a) (wr b) || Orch.mem (wr a) (rd b) || Orch.mem (wr b) (rd a)).

(* ---- observational equality: the store is an association list with shadowing ---- *)
Definition store_eq (s1 s2 : store) : Prop := forall o, get_obj s1 o = get_obj s2 o.

(* Ok stores up to store_eq; all failures identified *)
Definition outcome_eq (o1 o2 : outcome) : Prop :=
  match o1, o2 with
  | Ok s1, Ok s2 => store_eq s1 s2
  | Ok _, _ => False
  | _, Ok _ => False
  | _, _ => True
  end.
(* Ok stores up to store_eq; the same failure *)
Definition outcome_eqx (o1 o2 : outcome) : Prop :=
  match o1, o2 with
  | Ok s1, Ok s2 => store_eq s1 s2
  | Ok _, _ => False
  | _, Ok _ => False
  | _, _ => o1 = o2
  end.

(* ---- reordering by adjacent swaps of independent actions (trace equivalence) ---- *)
Inductive swaps : list action -> list action -> Prop :=
  | sw_refl : forall l, swaps l l
  | sw_swap : forall l1 a b l2, independent a b = true -> swaps (l1 ++ a :: b :: l2) (l1 ++ b :: a :: l2)
  | sw_trans : forall l1 l2 l3, swaps l1 l2 -> swaps l2 l3 -> swaps l1 l3.

(* steps carry an id (the plan's step id) *)
Definition istep := (nat * action)%type.

(* l is a linearisation compatible with `before`: no step is placed ahead of one that must come before it *)
Fixpoint respects (before : nat -> nat -> bool) (l : list istep) : Prop :=
  match l with
  | [] => True
  | x :: t => (forall y, In y t -> before (fst y) (fst x) = false) /\ respects before t
  end.

(* every two DEPENDENT steps are ordered by `before` (= the plan is conflict free w.r.t. `before`) *)
Definition dependent_ordered (before : nat -> nat -> bool) (l : list istep) : Prop :=
  forall x y, In x l -> In y l -> fst x <> fst y -> independent (snd x) (snd y) = false ->
              before (fst x) (fst y) = true \/ before (fst y) (fst x) = true.

(* ---- micro-step semantics ---- *)
Inductive mevent := Read (i : nat) | Write (i : nat).

Fixpoint act_of (steps : list istep) (i : nat) : option action :=
  match steps with [] => None | (k, a) :: t => if Nat.eqb k i then Some a else act_of t i end.

(* per-step buffer: what the step saw when it read (None: the object did not exist) *)
Definition bufs := list (nat * option table).
Fixpoint buf_of (b : bufs) (i : nat) : option (option table) :=
  match b with [] => None | (k, v) :: t => if Nat.eqb k i then Some v else buf_of t i end.
Definition drop_buf (b : bufs) (i : nat) : bufs := filter (fun kv => negb (Nat.eqb (fst kv) i)) b.

Definition snapshot (s : store) (a : action) : option table :=
  match a with ARoot _ _ => None | ACalc o _ => get_obj s o | ACopy a _ => get_obj s a end.

Inductive fault := FCol (f : nat) | FObj (o : nat).
Definition fail_of (e : fault) : outcome := match e with FCol f => MissingColumn f | FObj o => MissingObject o end.

(* the table a step produces from its snapshot *)
Definition produce (n : nat) (a : action) (sn : option table) : table + fault :=
  match a with
  | ARoot _ cols => inl cols
  | ACalc o ds => match sn with
                  | None => inr (FObj o)
                  | Some t => match calc_cols n t ds with inl new => inl (new ++ t) | inr f => inr (FCol f) end
                  end
  | ACopy a _ => match sn with None => inr (FObj a) | Some t => inl t end
  end.

Definition write_from (n : nat) (s : store) (a : action) (sn : option table) : outcome :=
  match produce n a sn with inl t => Ok (set_obj s (wr a) t) | inr e => fail_of e end.

(* run a list of events.  Events of unknown steps are no-ops; a Write without a buffer (no preceding Read) is skipped -
   wf_interleaving excludes both. *)
Fixpoint mrun (n : nat) (steps : list istep) (s : store) (b : bufs) (ev : list mevent) : outcome :=
  match ev with
  | [] => Ok s
  | Read i :: r =>
      mrun n steps s ((i, match act_of steps i with Some a => snapshot s a | None => None end) :: b) r
  | Write i :: r =>
      match buf_of b i with
      | None => mrun n steps s b r
      | Some sn =>
        match act_of steps i with
        | None => mrun n steps s (drop_buf b i) r
        | Some a => match write_from n s a sn with
                    | Ok s' => mrun n steps s' (drop_buf b i) r
                    | e => e
                    end
        end
      end
  end.

(* the steps in the order of their Write events *)
Definition write_steps (steps : list istep) (ev : list mevent) : list istep :=
  flat_map (fun e => match e with
                     | Write i => match act_of steps i with Some a => [(i, a)] | None => [] end
                     | Read _ => []
                     end) ev.

(* an interleaving of the steps: every step reads once and writes once, the Read before the Write *)
Definition wf_interleaving (steps : list istep) (ev : list mevent) : Prop :=
  NoDup ev
  /\ (forall i, In (Read i) ev <-> In i (map fst steps))
  /\ (forall i, In (Write i) ev <-> In i (map fst steps))
  /\ (forall e1 i e3, ev = e1 ++ Write i :: e3 -> In (Read i) e1).

(* step i has read and not yet written at the moment step j writes *)
Definition open_at (ev : list mevent) (i j : nat) : Prop :=
  exists e1 e2 e3, ev = e1 ++ Read i :: e2 ++ Write j :: e3 /\ ~ In (Write i) e2.
(* in a wf_interleaving: the Read..Write intervals of i and j overlap (the one that writes first does so while the
   other one is open) *)
Definition overlap (ev : list mevent) (i j : nat) : Prop := open_at ev i j \/ open_at ev j i.

Definition indep_ids (steps : list istep) (i j : nat) : bool :=
  match act_of steps i, act_of steps j with Some a, Some b => independent a b | _, _ => true end.

(* the scheduler starts (Read) a step only when everything that must come before it has finished (Write) *)
Definition scheduled (before : nat -> nat -> bool) (steps : list istep) (ev : list mevent) : Prop :=
  forall i j e1 e3, before i j = true -> In i (map fst steps) -> ev = e1 ++ Read j :: e3 -> In (Write i) e1.

(* ---- executable versions of the premises (for examples and for the harness) ---- *)
Definition mevent_eqb (a b : mevent) : bool :=
  match a, b with Read i, Read j => Nat.eqb i j | Write i, Write j => Nat.eqb i j | _, _ => false end.
Definition memev (e : mevent) (l : list mevent) : bool := existsb (mevent_eqb e) l.
Fixpoint nodup_ev (l : list mevent) : bool :=
  match l with [] => true | x :: t => negb (memev x t) && nodup_ev t end.
Fixpoint read_first (seen : list nat) (ev : list mevent) : bool :=
  match ev with
  | [] => true
  | Read i :: r => read_first (i :: seen) r
  | Write i :: r => Orch.mem i seen && read_first seen r
  end.
Definition ev_id (e : mevent) : nat := match e with Read i => i | Write i => i end.
Definition wf_interleavingb (steps : list istep) (ev : list mevent) : bool :=
  nodup_ev ev
  && forallb (fun i => memev (Read i) ev && memev (Write i) ev) (map fst steps)
  && forallb (fun e => Orch.mem (ev_id e) (map fst steps)) ev
  && read_first [] ev.

Fixpoint scheduled_from (before : nat -> nat -> bool) (ids written : list nat) (ev : list mevent) : bool :=
  match ev with
  | [] => true
  | Read j :: r => forallb (fun i => negb (before i j) || Orch.mem i written) ids && scheduled_from before ids written r
  | Write i :: r => scheduled_from before ids (i :: written) r
  end.
Definition scheduledb (before : nat -> nat -> bool) (steps : list istep) (ev : list mevent) : bool :=
  scheduled_from before (map fst steps) [] ev.

Fixpoint respectsb (before : nat -> nat -> bool) (l : list istep) : bool :=
  match l with
  | [] => true
  | x :: t => forallb (fun y => negb (before (fst y) (fst x))) t && respectsb before t
  end.

Definition dependent_orderedb (before : nat -> nat -> bool) (l : list istep) : bool :=
  forallb (fun x => forallb (fun y =>
    Nat.eqb (fst x) (fst y) || independent (snd x) (snd y) || before (fst x) (fst y) || before (fst y) (fst x)) l) l.

(* all pairs of steps whose intervals overlap, computed along the interleaving *)
Fixpoint overlaps_from (open : list nat) (ev : list mevent) : list (nat * nat) :=
  match ev with
  | [] => []
  | Read i :: r => overlaps_from (i :: open) r
  | Write j :: r => map (fun i => (i, j)) (filter (fun i => negb (Nat.eqb i j)) open)
                    ++ overlaps_from (filter (fun i => negb (Nat.eqb i j)) open) r
  end.
Definition overlap_freeb (steps : list istep) (ev : list mevent) : bool :=
  forallb (fun ij => indep_ids steps (fst ij) (snd ij)) (overlaps_from [] ev).

(* footprints of a step list in the format of OrchCheck.foot *)
Definition foot_of_steps (steps : list istep) : list (nat * (nat * list nat)) :=
  map (fun x => (fst x, (wr (snd x), rd (snd x)))) steps.

(* the order the orchestrator enforces: some step with id j waits (transitively) for step i *)
Definition waits_before (p : Orch.plan) (i j : nat) : bool :=
  existsb (fun st => Nat.eqb (Orch.sid st) j && Orch.mem i (MV.Model.OrchCheck.waits_for p st)) p.

(* ---- witness of the lost update (Proofs/ConfluenceP.v, lost_update_refuted_l) ---- *)
Definition lu_d1 : fdef := {| fname := 1; inputs := [0]; c0 := 0%Z; coefs := [1%Z] |}.
Definition lu_d2 : fdef := {| fname := 2; inputs := [0]; c0 := 0%Z; coefs := [2%Z] |}.
Definition lu_a1 : action := ACalc 0 [lu_d1].
Definition lu_a2 : action := ACalc 0 [lu_d2].
Definition lu_steps : list istep := [(1, lu_a1); (2, lu_a2)].
Definition lu_store : store := [(0, [(0, [Some 5%Z; Some 7%Z])])].
Definition lu_ev : list mevent := [Read 1; Read 2; Write 1; Write 2].
Definition has_col (o : outcome) (obj f : nat) : bool :=
  match o with
  | Ok s => match get_obj s obj with Some t => match lookup t f with Some _ => true | None => false end | None => false end
  | _ => false
  end.

