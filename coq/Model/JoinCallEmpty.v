(* Tables WITH a schema, and the JoinStep's engine call at the empty boundary (C12).

   Spec/Rel.v has no separate schema: a table is a list of rows, `table_cols [] = []`, an unbound column reads as null, and
   `bag_eq` identifies a row with its null-padded versions.  That is exactly a list-of-dicts framework (PythonDict: an empty
   table is `[]` and carries no column names - known findings C14 kf_empty / C05-pydict-empty-join), but it is NOT what
   pandas / pyarrow do: a DataFrame / Table with 0 rows keeps its columns, and a LEFT / OUTER join with it adds those columns,
   null in every row.  In the schema-less model this padding is invisible (`rel_join JLeft lk rk L [] = L`, Props/C12.v
   C12_left_outer_join_empty_right_schemaless); here the schema is explicit so that it can be stated and checked.

     stable                      (columns, rows) - what a pandas DataFrame / pyarrow Table is (column order irrelevant)
     join_schema lcols rcols     the columns of every join / append / union result: the left columns, then the right columns
                                 the left table does not have (a differently named right key is such a column)
     srel_join jt lk rk S T      the relational operator on tables with schemas: rel_join on the rows, every result row padded
                                 to join_schema (the SPECIFICATION: Spec/Rel.rel_join + explicit null padding)
     smerge_data E l target other   JoinStep._merge_data (mloda/core/core/step/join_step.py l. 34-43) for an engine on tables
                                 with schemas - the same one-line call as Model/JoinCall.merge_data:
                                     cfw.data = merge_engine.merge(cfw.data, from_cfw_data, link.jointype, link.left_index, link.right_index)
                                 unconditionally: the code has NO special case for an empty table.

   NOT the code - alternatives the statements must exclude, kept executable so that the refutations are kernel-checked
   computations (Props/C12.v C12_merge_call_skip_empty_right_refuted):
     left_preserving jt          LEFT / OUTER / APPEND / UNION ("the result contains every row of the left side")
     merge_data_skip_empty / smerge_data_skip_empty
                                 "a right side without rows can neither match nor contribute rows": return the target table
                                 unchanged when the join type is left preserving and the other table has 0 rows
   Definitions only. *)
From Coq Require Import List Bool String ZArith.
Import ListNotations.
Require Import MV.Spec.Rel MV.Model.RoutingJ MV.Model.JoinCall.
Open Scope list_scope.

Definition stable := (list col * table)%type.
Definition st_cols (s : stable) : list col := fst s.
Definition st_rows (s : stable) : table := snd s.

Definition new_cols (lcols rcols : list col) : list col := filter (fun c => negb (mem c lcols)) rcols.
Definition join_schema (lcols rcols : list col) : list col := lcols ++ new_cols lcols rcols.

Definition srel_join (jt : jointype) (lk rk : list col) (S T : stable) : stable :=
  let cs := join_schema (st_cols S) (st_cols T) in
  (cs, map (pad cs) (rel_join jt lk rk (st_rows S) (st_rows T))).

(* every row binds exactly the columns of the schema, in the schema's order (a DataFrame / Table) *)
Definition uniform (s : stable) : Prop := forall r, In r (st_rows s) -> row_cols r = st_cols s.

Definition null_row (cs : list col) : row := map (fun c => (c, VNull)) cs.

(* ---- the step's call ---- *)
Definition sengine := jointype -> list col -> list col -> stable -> stable -> stable.

Definition smerge_data (E : sengine) (l : link_decl) (target other : stable) : stable :=
  E (ld_jt l) (ld_left l) (ld_right l) target other.

(* ---- the early return (not the code) ---- *)
Definition left_preserving (jt : jointype) : bool :=
  match jt with JLeft | JOuter | JAppend | JUnion => true | JInner | JRight => false end.

Definition no_rows (t : table) : bool := match t with [] => true | _ => false end.

Definition merge_data_skip_empty (E : engine) (l : link_decl) (target other : table) : table :=
  if left_preserving (ld_jt l) && no_rows other then target else merge_data E l target other.

Definition smerge_data_skip_empty (E : sengine) (l : link_decl) (target other : stable) : stable :=
  if left_preserving (ld_jt l) && no_rows (st_rows other) then target else smerge_data E l target other.

(* ---- witnesses (seed C12_r6's demo tables) ---- *)
Open Scope string_scope.
Definition we_L : table :=
  [ [("lid", VInt 1); ("lval", VStr "a")]; [("lid", VInt 2); ("lval", VStr "b")]; [("lid", VInt 2); ("lval", VStr "b")] ]%Z.
Definition we_lcols : list col := ["lid"; "lval"].
Definition we_rcols : list col := ["rid"; "rval"].
Definition we_left : link_decl := {| ld_jt := JLeft; ld_left := ["lid"]; ld_right := ["rid"] |}.
Definition we_outer : link_decl := {| ld_jt := JOuter; ld_left := ["lid"]; ld_right := ["rid"] |}.
Definition we_union : link_decl := {| ld_jt := JUnion; ld_left := ["lid"]; ld_right := ["lid"] |}.
