(* Model of function extenders (C20).  Definitions only.
   Sources:
     mloda/core/abstract_plugins/function_extender.py
        ExtenderHook                          -> hook
        Extender (priority, wraps, __call__)  -> extender, ext_call (the *recording* extenders of harness/c20.py)
        _CompositeExtender.__init__           -> composite_order  (sorted by priority; Python's sorted is stable)
        _CompositeExtender.__call__           -> wrapper (make_wrapper incl. tracked_inner, try/except, fallback), chain, composite_call
     mloda/core/abstract_plugins/compute_framework.py
        ComputeFramework.get_function_extender -> matching, dispatch, run_wrapped  (0 / 1 / >= 2 matching extenders)
        run_calculate_feature / run_validate_input_features / run_validate_output_features
                                               -> kind_hook, run_wrapped
        run_calculation (sequence of the three wrapped calls of one step) -> step_calls, plan_calls, run_calls

   Effects are explicit: a computation is (trace, result); calling a Python function twice = using its trace twice
   (the wrapped function and the recording extenders are deterministic and stateless; trusted base).
   The iteration order of the Python *set* of extenders is the list parameter `order`; theorems quantify over it. *)
From Coq Require Import List Bool ZArith Arith.
Import ListNotations.

Inductive hook := HCalc | HVin | HVout.     (* FEATURE_GROUP_CALCULATE_FEATURE | VALIDATE_INPUT_FEATURE | VALIDATE_OUTPUT_FEATURE *)
Definition hook_eqb (a b : hook) : bool :=
  match a, b with HCalc, HCalc | HVin, HVin | HVout, HVout => true | _, _ => false end.

(* what a recording extender does in __call__:  Pass: log enter; r = func(..); log exit; return r
                                                RaiseBefore: log enter; raise
                                                RaiseAfter: log enter; func(..); raise           *)
Inductive behaviour := Pass | RaiseBefore | RaiseAfter.

Record extender := { eid : nat; prio : Z; hooks : list hook; beh : behaviour }.

Inductive event := Enter (i : nat) | Exit (i : nat) | Call | Logged (i : nat).
(* Enter/Exit i : written by extender i;  Call : the wrapped function body ran;
   Logged i     : logging.error in _CompositeExtender's except branch for extender i *)

Inductive exn := ExtExn (i : nat) | WrappedExn.
Inductive result (A : Type) := Ok (a : A) | Err (x : exn).
Arguments Ok {A} a.
Arguments Err {A} x.

Definition comp (A : Type) := (list event * result A)%type.

(* the wrapped function (calculate_feature or a validate function): one Call event, result w (a value or an exception) *)
Definition wrapped {A} (w : result A) : comp A := ([Call], w).

(* ext.__call__(inner_func, *a, **kw) for a recording extender *)
Definition ext_call {A} (e : extender) (inner : comp A) : comp A :=
  let i := eid e in
  match beh e with
  | RaiseBefore => ([Enter i], Err (ExtExn i))
  | Pass =>
      match inner with
      | (t, Ok a) => (Enter i :: t ++ [Exit i], Ok a)
      | (t, Err x) => (Enter i :: t, Err x)
      end
  | RaiseAfter =>
      match inner with
      | (t, Ok _) => (Enter i :: t, Err (ExtExn i))
      | (t, Err x) => (Enter i :: t, Err x)
      end
  end.

(* make_wrapper(ext, inner_func)  [code after fix 50d7ec2: the wrapper remembers what the wrapped call did]
     state = {}
     def tracked_inner(..): try: result = inner_func(..) except Exception as err: state["error"] = err; raise
                            state["result"] = result; return result
     try: return ext.__call__(tracked_inner, ..)
     except Exception as e:
         if "error" in state: raise state["error"]        (the wrapped call itself failed: re-raised, not logged)
         logging.error(..)
         if "result" in state: return state["result"]     (extender failed after calling through: result reused)
         return inner_func(..)                            (extender failed before calling through)
   A recording extender calls through at most once; it does so unless it raises before. *)
Definition calls_through (e : extender) : bool := match beh e with RaiseBefore => false | _ => true end.
Definition wrapper {A} (e : extender) (inner : comp A) : comp A :=
  match ext_call e inner with
  | (t, Ok a) => (t, Ok a)
  | (t, Err _) =>
      if calls_through e then
        match snd inner with
        | Err y => (t, Err y)
        | Ok a => (t ++ [Logged (eid e)], Ok a)
        end
      else (t ++ Logged (eid e) :: fst inner, snd inner)
  end.

(* for extender in reversed(self.extenders): wrapped_func = make_wrapper(extender, wrapped_func) *)
Fixpoint chain {A} (es : list extender) (f : comp A) : comp A :=
  match es with
  | [] => f
  | e :: r => wrapper e (chain r f)
  end.

(* sorted(extenders, key=lambda e: e.priority): stable — equal priorities keep their input order *)
Fixpoint insert (x : extender) (l : list extender) : list extender :=
  match l with
  | [] => [x]
  | y :: t => if Z.leb (prio x) (prio y) then x :: y :: t else y :: insert x t
  end.
Fixpoint isort (l : list extender) : list extender :=
  match l with
  | [] => []
  | x :: t => insert x (isort t)
  end.

(* _CompositeExtender(extenders)(func, ..): any number of extenders, every one of them under try/except *)
Definition composite_order (l : list extender) := isort l.
Definition composite_call {A} (l : list extender) (f : comp A) : comp A := chain (composite_order l) f.

(* get_function_extender: extenders of the set (iterated in `order`) whose wraps() contains the hook *)
Definition wraps (h : hook) (e : extender) : bool := existsb (hook_eqb h) (hooks e).
Definition matching (h : hook) (order : list extender) : list extender := filter (wraps h) order.

(* 0 matching: plain call; 1 matching: that extender itself, NO try/except;
   >= 2: _CompositeExtender(sorted(matching)) which sorts again *)
Definition dispatch {A} (l : list extender) (f : comp A) : comp A :=
  match l with
  | [] => f
  | [e] => ext_call e f
  | _ => composite_call (isort l) f
  end.
Definition chain_order (h : hook) (order : list extender) : list extender := isort (isort (matching h order)).
Definition run_wrapped {A} (h : hook) (order : list extender) (f : comp A) : comp A := dispatch (matching h order) f.

(* ---------- the three wrapped call kinds of one step (ComputeFramework.run_calculation) ---------- *)
Inductive kind := KValidateInput | KCalculate | KValidateOutput.
Definition kind_hook (k : kind) : hook :=
  match k with KValidateInput => HVin | KCalculate => HCalc | KValidateOutput => HVout end.

(* run_validate_input_features returns early when the framework object holds no data yet (a root step);
   then calculate, then validate output *)
Definition call := (nat * kind)%type.
Definition step_calls (s : nat) (has_input : bool) : list call :=
  (if has_input then [(s, KValidateInput)] else []) ++ [(s, KCalculate); (s, KValidateOutput)].
Fixpoint plan_calls (s : nat) (steps : list bool) : list call :=
  match steps with
  | [] => []
  | b :: r => step_calls s b ++ plan_calls (S s) r
  end.

(* a linear plan: calls happen in order, the first exception ends the run (flag true = run failed);
   fails c = the wrapped function of call c raises *)
Definition call_result (fails : call -> bool) (c : call) : result unit := if fails c then Err WrappedExn else Ok tt.
Fixpoint run_calls (order : list extender) (fails : call -> bool) (cs : list call) : list (call * list event) * bool :=
  match cs with
  | [] => ([], false)
  | c :: r =>
      match run_wrapped (kind_hook (snd c)) order (wrapped (call_result fails c)) with
      | (t, Ok _) => let (l, fl) := run_calls order fails r in ((c, t) :: l, fl)
      | (t, Err _) => ([(c, t)], true)
      end
  end.

(* ---------- observations on traces ---------- *)
Definition is_call (ev : event) : bool := match ev with Call => true | _ => false end.
Definition is_enter (i : nat) (ev : event) : bool := match ev with Enter j => Nat.eqb i j | _ => false end.
Definition is_exit (i : nat) (ev : event) : bool := match ev with Exit j => Nat.eqb i j | _ => false end.
Definition is_logged (i : nat) (ev : event) : bool := match ev with Logged j => Nat.eqb i j | _ => false end.
Definition count (p : event -> bool) (t : list event) : nat := List.length (filter p t).
Definition calls (t : list event) : nat := count is_call t.
Definition enters (i : nat) (t : list event) : nat := count (is_enter i) t.
Definition exits (i : nat) (t : list event) : nat := count (is_exit i) t.
Definition loggeds (i : nat) (t : list event) : nat := count (is_logged i) t.
Definition enter_ids (t : list event) : list nat := flat_map (fun ev => match ev with Enter i => [i] | _ => [] end) t.
Definition exit_ids (t : list event) : list nat := flat_map (fun ev => match ev with Exit i => [i] | _ => [] end) t.

Definition event_eqb (a b : event) : bool :=
  match a, b with
  | Enter i, Enter j | Exit i, Exit j | Logged i, Logged j => Nat.eqb i j
  | Call, Call => true
  | _, _ => false
  end.
Fixpoint trace_eqb (a b : list event) : bool :=
  match a, b with
  | [], [] => true
  | x :: a', y :: b' => event_eqb x y && trace_eqb a' b'
  | _, _ => false
  end.

(* ---------- execution modes (Model/Modes.v) ----------
   The extender set a compute-framework object holds.  SYNC: the caller's set object itself, iterated in `order`.
   THREADING / MULTIPROCESSING: the set went through the manager process and every compute-framework object was created
   with its own unpickled copy -- equal elements (same priority, hooks, behaviour; the state of a copy is its own), an
   iteration order of its own; in MULTIPROCESSING the object is then forked into its worker process, where the wrapped
   calls run.  `copy s` is the iteration order of the copy used by the compute-framework object of step s. *)
Require Import MV.Model.Modes.

Definition held (m : pmode) (order : list extender) (copy : nat -> list extender) (s : nat) : list extender :=
  if shares_objects m then order else copy s.

Fixpoint run_calls_in (m : pmode) (order : list extender) (copy : nat -> list extender) (fails : call -> bool)
                      (cs : list call) : list (call * list event) * bool :=
  match cs with
  | [] => ([], false)
  | c :: r =>
      match run_wrapped (kind_hook (snd c)) (held m order copy (fst c)) (wrapped (call_result fails c)) with
      | (t, Ok _) => let (l, fl) := run_calls_in m order copy fails r in ((c, t) :: l, fl)
      | (t, Err _) => ([(c, t)], true)
      end
  end.
