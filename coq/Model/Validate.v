(* Model of DataTypeValidator.validate for one feature (C17): mloda/core/abstract_plugins/components/validators/
   datatype_validator.py.  The two compatibility relations are parameters so the same definition is used over the
   regenerated tables (Gen/TypeTables.v) and over the spec. *)
From Coq Require Import List Bool.
Require Import MV.Spec.Types.

(* strict option value as found in feature.options: absent / True / False *)
Inductive strict_opt := SAbsent | STrue | SFalse.
Definition strict_mode (s : strict_opt) : bool := match s with STrue => true | _ => false end.

Record vcase := {
  v_declared : option dtype;     (* feature.data_type *)
  v_present  : bool;             (* col_name in data.column_names *)
  v_actual   : option dtype;     (* DataType.from_arrow_type(...) ; None = ValueError (unsupported) *)
  v_strict   : strict_opt
}.

(* true = raises DataTypeMismatchError *)
Definition validate_raises (strict lenient : dtype -> dtype -> bool) (c : vcase) : bool :=
  match v_declared c with
  | None => false
  | Some d =>
    if negb (v_present c) then false else
    match v_actual c with
    | None => false
    | Some a => if strict_mode (v_strict c) then negb (strict d a) else negb (lenient d a)
    end
  end.

(* API-level strict flag propagation (mlodaAPI._process_features, after fix 04e88fc): the per-call flag becomes the group option
   of EVERY requested feature (the validator still checks typed features only; the option is what is handed on to the input
   features).  propagate_strict_old: the code before the fix attached it to typed requested features only. *)
Definition propagate_strict (api_flag : bool) (declared : option dtype) (s : strict_opt) : strict_opt :=
  if api_flag then STrue else s.
Definition propagate_strict_old (api_flag : bool) (declared : option dtype) (s : strict_opt) : strict_opt :=
  if api_flag then match declared with Some _ => STrue | None => s end else s.

(* Engine.set_data_type: request type vs feature-group rule.  inl = resulting type, inr = rejected *)
Definition set_data_type (feat fg : option dtype) : (option dtype) + unit :=
  match feat, fg with
  | Some a, Some b => if dtype_eqb a b then inl (Some b) else inr tt
  | _, Some b => inl (Some b)
  | a, None => inl a
  end.
