(* Faithful model of the hand-written Python GLUE of the PyArrow and pandas time-window and aggregation feature groups,
   single source column.  Definitions only.  Library KERNELS are fields of `paw_kernels` / `pdw_kernels`; what is assumed
   about each is a field of `paw_contracts` / `pdw_contracts` -- TRUSTED BASE, TESTED on every run by harness/c19.py
   (family `kernel:*`: the real kernel on generated columns vs the contract evaluated in Coq; through the glue by the
   families `win:pa`, `win:pd`, `agg:pa`, `agg:pd` of the model tie).

     definition            source lines
     --------------------  -------------------------------------------------------------------------------------------
     pa_window             time_window/pyarrow.py _perform_window_operation 116-207 (one source column):
                             123 sort_indices, 126 take, 133-200 the loop over the sorted rows (start index
                             `max(0, i - window_size + 1)`, `pa.array(range(start, i + 1))`, take, the `len == 0` branch,
                             dispatch on the window function), 204 `results[sorted_indices.to_pylist().index(i)]`
     pa_win_agg            149-173: the if / elif ladder; first = window_values[0], last = window_values[-1]
     pd_window             time_window/pandas.py _perform_window_operation 108-171: 108 argsort(kind="stable"),
                             109 iloc, 119-142 rolling(window, min_periods=1) and the dispatch, 138/140 the lambdas of
                             first / last, 168-171 `restored = values.copy(); restored[time_order] = values`
     np_scatter            171: numpy index assignment `a[idx] = v` = the writes a[idx[j]] = v[j] for j = 0, 1, ...
     pa_aggregate          aggregated_feature_group/pyarrow.py 115-136 (dispatch) + _add_result_to_data 58-62
                             (`pa.array([result] * num_rows)`)
     pd_aggregate          aggregated_feature_group/pandas.py 101-117 + `data[name] = scalar` (broadcast)

   KERNEL CONTRACTS (exact arithmetic; AStd denotes the variance whose root is returned, as in Spec/Builtins):
     cw_sort       pc.sort_indices(times)             a STABLE ascending argsort (`is_stable_argsort`: a permutation of the
                                                      row numbers, sorted by (time, row number)); times without nulls
     cw_take       pc.take(col, indices)              the cells at the given positions (positions in range)
     cw_agg        pc.sum / min / max / mean / count / stddev / variance / quantile(q=0.5)[0] (.as_py())
                                                      = `agg_pop`: nulls ignored, null without a value (count: 0),
                                                      POPULATION variance (ddof = 0)  [open finding]
     cd_argsort    ndarray.argsort(kind="stable")     `is_stable_argsort`
     cd_iloc       DataFrame.iloc[positions]          the rows at the given positions
     cd_rolling    Series.rolling(w, min_periods=1).sum/min/max/mean/count/std/var/median()
                                                      row i: the aggregate (`agg_spec`: sample variance) of rows
                                                      max(0, i-w+1) .. i, for w >= 1
     cd_apply      Series.rolling(w, min_periods=1).apply(f, raw=False)
                                                      row i: f(window) if the window holds a non-null cell, else null
     cd_agg        Series.sum/min/.../median()        = `agg_pd_sum0` (sum of an all-null column is 0)  [open finding] *)
From Coq Require Import QArith List Bool Arith ZArith Permutation Sorted.
Import ListNotations.
Require Import MV.Spec.Builtins MV.Model.MissingValuePyDict MV.Model.BuiltinsFw.
Open Scope Q_scope.

(* idx is THE stable ascending argsort of times: every row once, ordered by time, equal times by row number *)
Definition time_lt (times : list Z) (a b : nat) : Prop :=
  (nth a times 0 < nth b times 0)%Z \/ (nth a times 0%Z = nth b times 0%Z /\ (a < b)%nat).
Definition is_stable_argsort (times : list Z) (idx : list nat) : Prop :=
  Permutation idx (seq 0 (List.length times)) /\ StronglySorted (time_lt times) idx.

Definition take (c : col) (idx : list nat) : col := map (fun i => nth i c None) idx.

(* ---------------------------------------------- PyArrow ---------------------------------------------- *)
Record paw_kernels := {
  pc_sort_indices : list Z -> list nat;
  pc_take : col -> list nat -> col;
  pc_agg : aggop -> col -> option Q
}.
Record paw_contracts (K : paw_kernels) : Prop := {
  cw_sort : forall times, is_stable_argsort times (pc_sort_indices K times);
  cw_take : forall c idx, (forall i, In i idx -> (i < List.length c)%nat) -> pc_take K c idx = take c idx;
  cw_agg : forall a c, pc_agg K a c = agg_pop a c
}.

Definition pa_win_agg (K : paw_kernels) (op : wop) (window_values : col) : option Q :=
  match op with
  | WAgg a => pc_agg K a window_values
  | WFirst => hd None window_values
  | WLast => last window_values None
  end.

Definition pa_window (K : paw_kernels) (op : wop) (window_size : nat) (times : list Z) (c : col) : list (option Q) :=
  let sorted_indices := pc_sort_indices K times in
  let sorted_source := pc_take K c sorted_indices in
  let results :=
    map (fun i =>
           let start_idx := (i + 1 - window_size)%nat in                       (* max(0, i - window_size + 1) *)
           let window_indices := seq start_idx (i + 1 - start_idx) in          (* range(start_idx, i + 1) *)
           let window_values := pc_take K sorted_source window_indices in
           match window_values with
           | [] => nth i sorted_source None                                    (* len(...) == 0 *)
           | _ => pa_win_agg K op window_values
           end) (seq 0 (List.length sorted_source)) in
  map (fun i => nth (pos_of i sorted_indices) results None) (seq 0 (List.length results)).

Definition pa_aggregate (K : paw_kernels) (op : aggop) (c : col) : list (option Q) :=
  repeat (pc_agg K op c) (List.length c).

(* ---------------------------------------------- pandas ---------------------------------------------- *)
Record pdw_kernels := {
  np_argsort_stable : list Z -> list nat;
  pd_iloc : col -> list nat -> col;
  pd_rolling : aggop -> nat -> col -> list (option Q);
  pd_rolling_apply : (col -> option Q) -> nat -> col -> list (option Q);
  pd_agg : aggop -> col -> option Q
}.
Definition rolling_apply_ref (f : col -> option Q) (w : nat) (c : col) : list (option Q) :=
  map (fun i => let wv := window_at w i c in match vals wv with [] => None | _ => f wv end) (seq 0 (List.length c)).
Record pdw_contracts (K : pdw_kernels) : Prop := {
  cd_argsort : forall times, is_stable_argsort times (np_argsort_stable K times);
  cd_iloc : forall c idx, (forall i, In i idx -> (i < List.length c)%nat) -> pd_iloc K c idx = take c idx;
  cd_rolling : forall a w c, (1 <= w)%nat -> pd_rolling K a w c = windows_sorted (WAgg a) w c;
  cd_apply : forall f w c, (1 <= w)%nat -> pd_rolling_apply K f w c = rolling_apply_ref f w c;
  cd_agg : forall a c, pd_agg K a c = agg_pd_sum0 a c
}.

(* restored[time_order] = values *)
Definition np_scatter (dst : list cell) (idx : list nat) (src : list cell) : list cell :=
  fold_left (fun r p => set_nth (fst p) (snd p) r) (combine idx src) dst.

Definition pd_window (K : pdw_kernels) (op : wop) (window_size : nat) (times : list Z) (c : col) : list (option Q) :=
  let time_order := np_argsort_stable K times in
  let selected_data := pd_iloc K c time_order in
  let result :=
    match op with
    | WAgg a => pd_rolling K a window_size selected_data
    | WFirst => pd_rolling_apply K (fun x => hd None x) window_size selected_data      (* x.iloc[0] if len(x) > 0 else None *)
    | WLast => pd_rolling_apply K (fun x => last x None) window_size selected_data     (* x.iloc[-1] ... *)
    end in
  let values := result in
  let restored := values in                                                             (* values.copy() *)
  np_scatter restored time_order values.

Definition pd_aggregate (K : pdw_kernels) (op : aggop) (c : col) : list (option Q) :=
  repeat (pd_agg K op c) (List.length c).

(* ---- executable reference kernels (satisfy the contracts: Proofs/TimeWindowFwP); used by the tie ---- *)
Definition ref_paw : paw_kernels := {|
  pc_sort_indices := time_order; pc_take := take; pc_agg := agg_pop |}.
Definition ref_pdw : pdw_kernels := {|
  np_argsort_stable := time_order; pd_iloc := take;
  pd_rolling := fun a w c => windows_sorted (WAgg a) w c;
  pd_rolling_apply := rolling_apply_ref;
  pd_agg := agg_pd_sum0 |}.

(* decidable form of the sort contract, for recorded kernel outputs *)
Fixpoint list_nat_eqb (a b : list nat) : bool :=
  match a, b with [] , [] => true | x :: a', y :: b' => Nat.eqb x y && list_nat_eqb a' b' | _, _ => false end.
Definition stable_argsort_b (times : list Z) (idx : list nat) : bool := list_nat_eqb idx (time_order times).
