(* Heap model of the caller-owned argument objects of mlodaAPI.prepare / run_all and of what planning writes into
   them.  Mirrors (file: function -> definition):

     mloda/core/api/request.py
       mlodaAPI.__init__       deepcopy(requested_features) if copy_features                          -> deepcopy_heap
       _process_features       feature.initial_requested_data = True; options.add("ApiInputData", cols);
                               options.add(strict_type_enforcement, True) for every requested feature (fix 04e88fc)          -> phase1
     mloda/core/abstract_plugins/components/options.py
       Options.add / add_to_group + OptionsValidator.validate_can_add_to_group                       -> opt_add
     mloda/core/core/engine.py
       Engine.__init__         LinkValidator.validate_links(links); self.links = set(links): a PRIVATE copy of the
                               caller's set; self.global_filter = deepcopy(global_filter): a PRIVATE copy of the
                               caller's GlobalFilter (filters and collection)                         -> validate_links, plan_call
       _process_feature        identify group; set_compute_framework; set_data_type                   -> phase2_one
       add_feature_to_collection / add_feature_link_to_links   self.links.add(feature.link), only for a
                               feature that is not yet stored (Feature.__eq__)                        -> proc
       _handle_input_features_recursion + Features.build_feature_collection / merge_options           -> proc
       _add_filter_feature     identity_matched_filters, then per match: filter_feature.name / uuid rewritten ON THE
                               MATCH, global_filter.add_filter_to_collection(group, feature.name, match),
                               add_feature_to_collection(group, match.filter_feature)                 -> add_filter_feature
     mloda/core/filter/global_filter.py
       identity_matched_filters  per filter of the Engine's GlobalFilter: _filter = deepcopy(filter); unify_options into
                               _filter; criteria; domain(_filter, feat.domain, group) -- which ASSIGNS
                               _filter.filter_feature.domain when the filter feature has none and the feature / group has
                               one, and raises ValueError (Domain.__eq__ with None) when the filter feature has a domain,
                               the feature has none and the group's domain differs; compute_framework(_filter, feat) --
                               which ASSIGNS _filter.filter_feature.compute_frameworks when unset      -> match_one, identity_matched
       unify_options, criteria, domain, compute_framework, add_filter_to_collection
                                                                 -> enrich, crit, domain_step, cfw_step, coll_add
     mloda/core/prepare/identify_feature_group.py  criteria, domain (not feature.domain or group.get_domain() ==
                               feature.domain), framework; exactly one group must remain              -> resolve
     mloda/core/abstract_plugins/components/feature_collection.py  build_feature_collection: an input feature without
                               domain inherits the domain of its parent FEATURE (not of the group)     -> eff_dom
     mloda/core/prepare/execution_plan.py add_single_filters_to_feature_set (iteration over collection.items(),
                               first matching set kept BY REFERENCE, later ones compared with !=)     -> step_filters

   Objects: Feature objects and Options objects live in two heaps addressed by position (several features may share
   one Options object; several calls may be given the same Feature objects); the links set and the GlobalFilter
   (filters, collection) are single objects of the world.  Planning ADDS links (those attached to stored features) and
   collection entries, but to the Engine's private copies: the caller's two objects are only read (the copies start
   from their content).  api_data is never written by
   planning or running and therefore has no cell (the harness snapshot checks that).

   Domains: a domain is a number (0 = Domain.get_default_domain()); a Feature / filter feature carries `option nat`
   (None: no domain), a group carries gi_dom.  Several groups may provide the same feature name (in different domains).

   Variants: the planning functions take a `variant` saying (a) whether Engine.__init__ deep-copies the caller's
   GlobalFilter (as implemented) or only creates new containers around the caller's SingleFilter objects, and (b)
   whether identity_matched_filters applies domain() to the per-filter copy (as implemented) or to the original filter
   object before copying it.  `as_implemented` is /repo; the other three variants exist for the theorems of Props/C07.v
   that say which of the two copies the property rests on.  The Engine's filter objects are a component of the planning
   state (r_flts): as implemented nothing writes them -- that is a theorem (Proofs/ArgsP.v), not a definition.

   Domain of the model (what the generated universes of harness/c07.py contain): feature groups without
   index_columns() and with the default set_feature_name (so Feature.name is never rewritten and no index features are
   created), one compute framework per group, input features created by the groups as Feature(name[, link=...][,
   domain=...]) without own options, filter features without context options, option values that are not Feature
   objects.  Not modelled (covered by the structural snapshot of the harness only): SingleFilter.name / uuid,
   filter_feature.uuid / data_type / link / index.
   Python set / dict iteration orders only permute the order in which entries are added; every comparison below is a
   set comparison, so no order parameter is needed.  Definitions only; proofs in Proofs/ArgsP.v. *)
From Coq Require Import List Bool Arith ZArith String.
Import ListNotations.
Open Scope string_scope. Open Scope list_scope.

(* ---------------------------------------------------------------- values, options ---- *)
Definition cols := list (string * list string).          (* ApiInputDataCollection.get_column_names() *)
Inductive val := VZ (z : Z) | VS (s : string) | VB (b : bool) | VCols (c : cols).
Definition opts := list (string * val).                  (* a dict: keys unique *)

Fixpoint list_eqb {A} (e : A -> A -> bool) (a b : list A) : bool :=
  match a, b with [] , [] => true | x :: a', y :: b' => e x y && list_eqb e a' b' | _, _ => false end.
Definition cols_eqb (a b : cols) : bool :=
  list_eqb (fun x y => String.eqb (fst x) (fst y) && list_eqb String.eqb (snd x) (snd y)) a b.
Definition val_eqb (a b : val) : bool :=
  match a, b with
  | VZ x, VZ y => Z.eqb x y | VS x, VS y => String.eqb x y | VB x, VB y => Bool.eqb x y
  | VCols x, VCols y => cols_eqb x y | _, _ => false
  end.
Fixpoint lookup (k : string) (o : opts) : option val :=
  match o with [] => None | (k', v) :: t => if String.eqb k k' then Some v else lookup k t end.
Definition has (k : string) (o : opts) : bool := match lookup k o with Some _ => true | None => false end.
Definition opts_sub (a b : opts) : bool :=
  forallb (fun kv => match lookup (fst kv) b with Some v => val_eqb (snd kv) v | None => false end) a.
Definition opts_eqb (a b : opts) : bool := opts_sub a b && opts_sub b a.     (* dict == dict *)

(* ---------------------------------------------------------------- links ---- *)
Record link := { l_jt : nat; l_left : nat; l_right : nat; l_li : list string; l_ri : list string }.
(* jointype: 0 INNER 1 LEFT 2 RIGHT 3 OUTER 4 APPEND 5 UNION; l_left / l_right: feature-group ids *)
Definition link_eqb (a b : link) : bool :=      (* Link.__eq__ *)
  Nat.eqb (l_jt a) (l_jt b) && Nat.eqb (l_left a) (l_left b) && Nat.eqb (l_right a) (l_right b)
  && list_eqb String.eqb (l_li a) (l_li b) && list_eqb String.eqb (l_ri a) (l_ri b).
Definition link_in (x : link) (s : list link) : bool := existsb (link_eqb x) s.
Definition link_add (s : list link) (x : link) : list link := if link_in x s then s else s ++ [x].   (* set.add *)
Definition links_sub (a b : list link) : bool := forallb (fun x => link_in x b) a.
Definition links_eqb (a b : list link) : bool := links_sub a b && links_sub b a.

(* LinkValidator.validate_links: no double joins, no conflicting join types, right-join constraints *)
Definition is_stack (jt : nat) : bool := Nat.eqb jt 4 || Nat.eqb jt 5.
Definition validate_links (s : list link) : bool :=
  forallb (fun i => forallb (fun j =>
    link_eqb i j ||
    negb ( (Nat.eqb (l_left i) (l_right j) && Nat.eqb (l_right i) (l_left j) && negb (is_stack (l_jt i)))
        || (Nat.eqb (l_left i) (l_left j) && Nat.eqb (l_right i) (l_right j) && negb (Nat.eqb (l_jt i) (l_jt j)))
        || (Nat.eqb (l_jt i) 2 && (Nat.eqb (l_left i) (l_left j) || Nat.eqb (l_left i) (l_right j))) )) s) s.

(* ---------------------------------------------------------------- objects ---- *)
Definition onat_eqb (a b : option nat) : bool :=
  match a, b with None, None => true | Some x, Some y => Nat.eqb x y | _, _ => false end.
Definition oset_eqb (a b : option (list nat)) : bool :=
  match a, b with
  | None, None => true
  | Some x, Some y => forallb (fun i => existsb (Nat.eqb i) y) x && forallb (fun i => existsb (Nat.eqb i) x) y
  | _, _ => false
  end.
Record oobj := { og : opts; oc : opts }.                                   (* Options: group, context *)
Record fobj := { f_name : string; f_opt : nat; f_cfw : option (list nat); f_flag : bool;
                 f_dtype : option nat; f_uuid : nat; f_link : option link;
                 f_dom : option nat }.                                     (* Feature (f_dom: Feature.domain) *)
(* SingleFilter: filter_feature.name, filter_feature.options.group, filter_type, parameter, filter_feature.domain,
   filter_feature.compute_frameworks *)
Record flt := { ft_name : string; ft_opts : opts; ft_type : string; ft_param : list (string * Z);
                ft_dom : option nat; ft_cfw : option (list nat) }.
Definition flt_eqb (a b : flt) : bool :=      (* SingleFilter.__eq__: filter_feature (Feature.__eq__: name, options, domain,
                                                 compute_frameworks), type, parameter *)
  String.eqb (ft_name a) (ft_name b) && opts_eqb (ft_opts a) (ft_opts b) && String.eqb (ft_type a) (ft_type b)
  && list_eqb (fun x y => String.eqb (fst x) (fst y) && Z.eqb (snd x) (snd y)) (ft_param a) (ft_param b)
  && onat_eqb (ft_dom a) (ft_dom b) && oset_eqb (ft_cfw a) (ft_cfw b).
Definition flt_in (x : flt) (s : list flt) : bool := existsb (flt_eqb x) s.
Definition fset_sub (a b : list flt) : bool := forallb (fun x => flt_in x b) a.
Definition fset_eqb (a b : list flt) : bool := fset_sub a b && fset_sub b a.          (* set == set *)
Definition fset_add (s : list flt) (x : flt) : list flt := if flt_in x s then s else s ++ [x].

Definition key := (nat * string)%type.                                     (* (feature group, filtered feature name) *)
Definition key_eqb (a b : key) : bool := Nat.eqb (fst a) (fst b) && String.eqb (snd a) (snd b).
Definition fcoll := list (key * list flt).                                 (* GlobalFilter.collection *)
Fixpoint coll_get (c : fcoll) (k : key) : list flt :=
  match c with [] => [] | (k', s) :: t => if key_eqb k k' then s else coll_get t k end.
Fixpoint coll_add (c : fcoll) (k : key) (x : flt) : fcoll :=               (* add_filter_to_collection *)
  match c with
  | [] => [(k, [x])]
  | (k', s) :: t => if key_eqb k k' then (k', fset_add s x) :: t else (k', s) :: coll_add t k x
  end.

Record world := {
  hF : list fobj;            (* the caller's Feature objects *)
  hO : list oobj;            (* the caller's Options objects *)
  w_links : list link;       (* the caller's links set object *)
  w_filters : list flt;      (* the caller's GlobalFilter.filters *)
  w_coll : fcoll             (* the caller's GlobalFilter.collection *)
}.

(* ---------------------------------------------------------------- universe (the enabled plug-ins) ---- *)
(* an input feature as created by a group's input_features: Feature(name[, link=...][, domain=...]) *)
Record inp := { i_name : string; i_link : option link; i_dom : option nat }.
Record ginfo := { gi_id : nat; gi_cfw : list nat; gi_api : bool; gi_dtype : option nat;
                  gi_inputs : list inp; gi_dom : nat (* FeatureGroup.get_domain(); 0 = default domain *) }.
(* one entry per (feature name, group providing it): the group and the feature's input features there *)
Definition universe := list (string * ginfo).
Definition api_key := "ApiInputData".
Definition strict_key := "strict_type_enforcement".
Definition api_has (n : string) (g c : opts) : bool :=          (* ApiInputData.matches *)
  match lookup api_key g with
  | Some (VCols cs) => existsb (fun kc => existsb (String.eqb n) (snd kc)) cs
  | Some _ => false
  | None => match lookup api_key c with
            | Some (VCols cs) => existsb (fun kc => existsb (String.eqb n) (snd kc)) cs
            | _ => false end
  end.
Inductive perr := EBadAddr | EAddConflict | ELinks | ENoGroup | ECfw | EDtype | EFuel | ERejected
                | EMulti      (* "Multiple feature groups found" *)
                | EDomCmp.    (* ValueError "Cannot compare Domain with <class 'NoneType'>" (Domain.__eq__) *)

(* match_feature_group_criteria of group `gi` for a name with options (g, c): the name is one of the group's; api-backed
   groups need the name among the api columns in the options *)
Definition crit_entry (n : string) (g c : opts) (e : string * ginfo) : bool :=
  String.eqb n (fst e) && (if gi_api (snd e) then api_has n g c else true).
(* _filter_feature_group_by_domain *)
Definition dom_ok (dom : option nat) (gi : ginfo) : bool :=
  match dom with None => true | Some d => Nat.eqb (gi_dom gi) d end.
Definition pick (l : list ginfo) : perr + ginfo :=
  match l with [] => inl ENoGroup | [gi] => inr gi | _ => inl EMulti end.
(* IdentifyFeatureGroupClass: criteria, domain, framework (a feature with a user-set framework keeps the groups
   supporting it; more than one user-set framework raises for the first group that passed criteria and domain); exactly
   one group must remain *)
Definition resolve (u : universe) (n : string) (dom : option nat) (cf : option (list nat)) (g c : opts) : perr + ginfo :=
  let c1 := map snd (filter (fun e => crit_entry n g c e && dom_ok dom (snd e)) u) in
  match cf with
  | None => pick c1
  | Some [x] => pick (filter (fun gi => existsb (Nat.eqb x) (gi_cfw gi)) c1)
  | Some _ => match c1 with [] => inl ENoGroup | _ => inl ECfw end
  end.

(* ---------------------------------------------------------------- a call ---- *)
Record call := {
  c_feats : list nat;             (* addresses of the Feature objects passed as `features` *)
  c_copy : bool;                  (* copy_features *)
  c_strict : bool;                (* strict_type_enforcement *)
  c_api : option cols;            (* api_data given: its shape (None, or empty: no ApiInputDataCollection) *)
  c_links : bool;                 (* links = the world's set object (true) or None (false) *)
  c_filter : bool;                (* global_filter = the world's GlobalFilter (true) or None *)
  c_hz : nat                      (* NOT an argument: Python set iteration order during this call, as far as it matters --
                                     how many of the hazardous look-ups (seek, below) pass before one raises; theorems
                                     quantify over it, the correspondence tries several values *)
}.

(* a feature as stored in Engine.feature_group_collection: group, name, options (group / context), link, data type,
   child_options (None for requested and filter features, the parent's options for input features) *)
Record pfeat := { pf_gid : nat; pf_name : string; pf_g : opts; pf_c : opts; pf_link : option link;
                  pf_dtype : option nat; pf_child : option opts; pf_dom : option nat }.

Inductive outcome :=
  | Accepted (steps : list (nat * opts * list flt))   (* per feature-group step (group, group options): attached filters *)
            (links_seen : list link)                  (* the links the resolver works with *)
  | Failed (e : perr).

(* ---------------------------------------------------------------- heap primitives ---- *)
Fixpoint upd {A} (l : list A) (a : nat) (f : A -> A) : list A :=
  match l, a with
  | [], _ => []
  | x :: t, 0 => f x :: t
  | x :: t, S a' => x :: upd t a' f
  end.

(* deepcopy(list of features): an isomorphic, disjoint copy of the object graph (the memo dictionary of deepcopy
   preserves sharing): both heaps are duplicated, references inside the copies are shifted. *)
Definition shiftF (nO : nat) (f : fobj) : fobj :=
  {| f_name := f_name f; f_opt := f_opt f + nO; f_cfw := f_cfw f; f_flag := f_flag f; f_dtype := f_dtype f;
     f_uuid := f_uuid f; f_link := f_link f; f_dom := f_dom f |}.
Definition deepcopy_heap (F : list fobj) (O : list oobj) : list fobj * list oobj :=
  (F ++ map (shiftF (List.length O)) F, O ++ O).

Definition set_flag (f : fobj) : fobj :=
  {| f_name := f_name f; f_opt := f_opt f; f_cfw := f_cfw f; f_flag := true; f_dtype := f_dtype f;
     f_uuid := f_uuid f; f_link := f_link f; f_dom := f_dom f |}.
Definition set_cfw_dtype (c : option (list nat)) (d : option nat) (f : fobj) : fobj :=
  {| f_name := f_name f; f_opt := f_opt f; f_cfw := c; f_flag := f_flag f; f_dtype := d;
     f_uuid := f_uuid f; f_link := f_link f; f_dom := f_dom f |}.

(* Options.add: key in group with a different value -> ValueError; key in context -> ValueError; group[key] = value *)
Definition opt_add (o : oobj) (k : string) (v : val) : option oobj :=
  match lookup k (og o) with
  | Some v' => if val_eqb v v' then (if has k (oc o) then None else Some o) else None
  | None => if has k (oc o) then None else Some {| og := og o ++ [(k, v)]; oc := oc o |}
  end.

Definition heap := (list fobj * list oobj)%type.

Definition heap_add (h : heap) (oa : nat) (k : string) (v : val) : option heap :=
  match nth_error (snd h) oa with
  | None => None
  | Some o => match opt_add o k v with
              | None => None
              | Some o' => Some (fst h, upd (snd h) oa (fun _ => o'))
              end
  end.

(* ---------------------------------------------------------------- phase 1: _process_features ---- *)
Definition nonempty_api (a : option cols) : option cols := match a with Some (x :: t) => Some (x :: t) | _ => None end.

Definition phase1_one (api : option cols) (strict : bool) (h : heap) (a : nat) : heap * option perr :=
  match nth_error (fst h) a with
  | None => (h, Some EBadAddr)
  | Some f =>
    let h1 : heap := (upd (fst h) a set_flag, snd h) in
    let r2 := match nonempty_api api with
              | Some c => match heap_add h1 (f_opt f) api_key (VCols c) with Some h2 => (h2, None) | None => (h1, Some EAddConflict) end
              | None => (h1, None)
              end in
    match snd r2 with
    | Some e => r2
    | None => if strict       (* after fix 04e88fc: every requested feature, typed or not *)
              then match heap_add (fst r2) (f_opt f) strict_key (VB true) with
                   | Some h3 => (h3, None) | None => (fst r2, Some EAddConflict) end
              else r2
    end
  end.

Fixpoint phase1 (api : option cols) (strict : bool) (h : heap) (l : list nat) : heap * option perr :=
  match l with
  | [] => (h, None)
  | a :: t => match phase1_one api strict h a with
              | (h', Some e) => (h', Some e)
              | (h', None) => phase1 api strict h' t
              end
  end.

(* ---------------------------------------------------------------- recursion over input features ---- *)
Definition oopts_eqb (a b : option opts) : bool :=
  match a, b with None, None => true | Some x, Some y => opts_eqb x y | _, _ => false end.
(* Feature.__eq__: name, options (group), options.context, domain, compute_frameworks, data_type, child_options.
   NOT the link, NOT initial_requested_data.  (One framework per group in the model's domain, so the frameworks of two
   stored features of one group agree.) *)
Definition pf_eqb (a b : pfeat) : bool :=
  Nat.eqb (pf_gid a) (pf_gid b) && String.eqb (pf_name a) (pf_name b) && opts_eqb (pf_g a) (pf_g b)
  && opts_eqb (pf_c a) (pf_c b) && onat_eqb (pf_dtype a) (pf_dtype b) && oopts_eqb (pf_child a) (pf_child b)
  && onat_eqb (pf_dom a) (pf_dom b).
Definition stored_in (p : pfeat) (l : list pfeat) : bool := existsb (pf_eqb p) l.

(* ---- variants of the two copies the GlobalFilter passes through ---- *)
Record variant := {
  v_engine_deepcopy : bool;   (* Engine.__init__: self.global_filter = deepcopy(global_filter)  (false: new containers around
                                 the caller's SingleFilter objects, empty collection) *)
  v_domain_on_copy : bool     (* identity_matched_filters: domain() is applied to the deep copy of the filter (false: to
                                 the filter object itself, before it is copied) *)
}.
Definition as_implemented : variant := {| v_engine_deepcopy := true; v_domain_on_copy := true |}.
Definition regression : variant := {| v_engine_deepcopy := false; v_domain_on_copy := false |}.

Definition set_ft_opts (x : flt) (o : opts) : flt :=
  {| ft_name := ft_name x; ft_opts := o; ft_type := ft_type x; ft_param := ft_param x; ft_dom := ft_dom x; ft_cfw := ft_cfw x |}.
Definition set_ft_dom (x : flt) (d : option nat) : flt :=
  {| ft_name := ft_name x; ft_opts := ft_opts x; ft_type := ft_type x; ft_param := ft_param x; ft_dom := d; ft_cfw := ft_cfw x |}.
Definition set_ft_cfw (x : flt) (c : option (list nat)) : flt :=
  {| ft_name := ft_name x; ft_opts := ft_opts x; ft_type := ft_type x; ft_param := ft_param x; ft_dom := ft_dom x; ft_cfw := c |}.

(* unify_options(feat.options, filter.options): keys of the feature (group, then context) missing in the filter
   feature's options are set in its group *)
Definition enrich (x : flt) (g c : opts) : flt :=
  set_ft_opts x (fold_left (fun o kv => if has (fst kv) o then o else o ++ [kv]) (g ++ c) (ft_opts x)).

(* GlobalFilter.criteria: group `gid` accepts the filter feature (name, options) -- no domain, no framework *)
Definition crit (u : universe) (gid : nat) (x : flt) : bool :=
  existsb (fun e => Nat.eqb (gi_id (snd e)) gid && crit_entry (ft_name x) (ft_opts x) [] e) u.

(* GlobalFilter.domain(filter, feat.domain, group): result and the filter object afterwards *)
Inductive dres := DYes (x : flt) | DNo | DErr.
Definition domain_step (gdom : nat) (fdom : option nat) (x : flt) : dres :=
  let fog := match fdom with Some d => Some d | None => if Nat.eqb gdom 0 then None else Some gdom end in
  match ft_dom x with
  | None => match fog with
            | None => DYes x                               (* no domains given *)
            | Some d => DYes (set_ft_dom x (Some d))       (* filter.filter_feature.domain = feature_or_group_domain *)
            end
  | Some fd => match fdom with
               | None => if Nat.eqb gdom fd then DYes x else DErr      (* falls through to  Domain == None: raises *)
               | Some d => if Nat.eqb fd d then DYes x else DNo
               end
  end.
(* GlobalFilter.compute_framework(filter, feat) *)
Definition cfw_step (fcfw : option (list nat)) (x : flt) : option flt :=
  match ft_cfw x with
  | None | Some [] => Some (set_ft_cfw x fcfw)             (* filter_feature.compute_frameworks = feat.compute_frameworks *)
  | Some (c :: _) => match fcfw with
                     | Some (d :: _) => if Nat.eqb c d then Some x else None
                     | _ => None
                     end
  end.

(* one iteration of the loop of identity_matched_filters for the Engine's filter object x and a feature of group gid
   (domain gdom) with domain fdom, frameworks fcfw, options (g, c): the filter object afterwards, and the match.
   deepcopy(x) is x as a value: writes to the copy leave the first component alone. *)
Definition match_one (vr : variant) (u : universe) (gid gdom : nat) (fdom : option nat) (fcfw : option (list nat))
                     (g c : opts) (x : flt) : perr + (flt * option flt) :=
  if v_domain_on_copy vr then
    let y1 := enrich x g c in                              (* _filter = deepcopy(filter); unify_options into _filter *)
    if crit u gid y1 then
      match domain_step gdom fdom y1 with
      | DErr => inl EDomCmp
      | DNo => inr (x, None)
      | DYes y2 => inr (x, cfw_step fcfw y2)
      end
    else inr (x, None)
  else
    match domain_step gdom fdom x with                     (* variant: domain() on the filter object itself, first *)
    | DErr => inl EDomCmp
    | DNo => inr (x, None)
    | DYes x1 => let y1 := enrich x1 g c in                (* then the deepcopy of the (written) object *)
                 if crit u gid y1 then inr (x1, cfw_step fcfw y1) else inr (x1, None)
    end.

Fixpoint identity_matched (vr : variant) (u : universe) (gid gdom : nat) (fdom : option nat) (fcfw : option (list nat))
                          (g c : opts) (fl : list flt) : perr + (list flt * list flt) :=
  match fl with
  | [] => inr ([], [])
  | x :: t => match match_one vr u gid gdom fdom fcfw g c x with
              | inl e => inl e
              | inr (x', m) =>
                match identity_matched vr u gid gdom fdom fcfw g c t with
                | inl e => inl e
                | inr (t', ms) => inr (x' :: t', match m with Some y => y :: ms | None => ms end)
                end
              end
  end.

(* the planning state the recursion works on: Engine.feature_group_collection (all groups); the Engine's filter objects
   (GlobalFilter.filters); and -- because the recursion only ever ADDS to Engine.links (self.links.add) and to
   GlobalFilter.collection (add_filter_to_collection) and never reads them (groups without index_columns) -- the
   sequences of those add calls, applied to the two objects afterwards *)
Record rst := { r_stored : list pfeat; r_ladds : list link; r_fadds : list (key * flt); r_flts : list flt;
                r_hz : nat (* remaining hazardous look-ups that pass (c_hz) *) }.

(* add_feature_to_collection for a feature p of which an EQUAL one is already stored: for a requested feature
   (initial_requested_data) and inside the recursion (child_uuid set) the group's collection -- a set -- is searched with
   Feature.__eq__ for the stored equal.  Feature.__eq__ compares name, options, context and then the domains, and
   Domain.__eq__ RAISES when one of the two is None: if the set holds a feature with p's name, options and context of
   which exactly one has a domain, and the iteration meets it before the equal one, the call ends with ValueError
   "Cannot compare Domain with <class 'NoneType'>".  Which comes first is set iteration order: parameter r_hz. *)
Definition dom_clash (p q : pfeat) : bool :=
  Nat.eqb (pf_gid p) (pf_gid q) && String.eqb (pf_name p) (pf_name q) && opts_eqb (pf_g p) (pf_g q)
  && opts_eqb (pf_c p) (pf_c q)
  && match pf_dom p, pf_dom q with None, Some _ | Some _, None => true | _, _ => false end.
Definition seek (p : pfeat) (st : rst) : perr + rst :=
  if existsb (dom_clash p) (r_stored st) then
    match r_hz st with
    | 0 => inl EDomCmp
    | S k => inr {| r_stored := r_stored st; r_ladds := r_ladds st; r_fadds := r_fadds st; r_flts := r_flts st; r_hz := k |}
    end
  else inr st.
Definition apply_links (L : list link) (log : list link) : list link := fold_left link_add log L.
Definition apply_coll (C : fcoll) (log : list (key * flt)) : fcoll :=
  fold_left (fun c kx => coll_add c (fst kx) (snd kx)) log C.

(* recording the matches: every matched filter is recorded under (group, feature.name) and its filter feature is stored
   (add_feature_to_collection(group, match.filter_feature, features.child_uuid): only if no equal feature is stored yet;
   if one is and we are inside the recursion (inrec: child_uuid set), the stored equal is looked up: seek) *)
Definition record_one (gid : nat) (n : string) (inrec : bool) (st : rst) (x : flt) : perr + rst :=
  let ff := {| pf_gid := gid; pf_name := ft_name x; pf_g := ft_opts x; pf_c := []; pf_link := None;
               pf_dtype := None; pf_child := None; pf_dom := ft_dom x |} in
  let st1 := {| r_stored := r_stored st; r_ladds := r_ladds st; r_fadds := r_fadds st ++ [((gid, n), x)];
                r_flts := r_flts st; r_hz := r_hz st |} in
  if stored_in ff (r_stored st) then (if inrec then seek ff st1 else inr st1)
  else inr {| r_stored := r_stored st ++ [ff]; r_ladds := r_ladds st; r_fadds := r_fadds st ++ [((gid, n), x)];
              r_flts := r_flts st; r_hz := r_hz st |}.
Fixpoint record_matches (gid : nat) (n : string) (inrec : bool) (ms : list flt) (st : rst) : perr + rst :=
  match ms with
  | [] => inr st
  | x :: t => match record_one gid n inrec st x with
              | inl e => inl e
              | inr st' => record_matches gid n inrec t st'
              end
  end.
(* _add_filter_feature(group, feature) *)
Definition add_filter_feature (vr : variant) (u : universe) (st : rst) (gi : ginfo) (n : string) (fdom : option nat)
                              (fcfw : option (list nat)) (g c : opts) (inrec : bool) : perr + rst :=
  match identity_matched vr u (gi_id gi) (gi_dom gi) fdom fcfw g c (r_flts st) with
  | inl e => inl e
  | inr (fl', ms) =>
    record_matches (gi_id gi) n inrec ms
      {| r_stored := r_stored st; r_ladds := r_ladds st; r_fadds := r_fadds st; r_flts := fl'; r_hz := r_hz st |}
  end.

(* Features.build_feature_collection: an input feature without own domain inherits the parent FEATURE's domain *)
Definition eff_dom (il : inp) (parent : option nat) : option nat :=
  match i_dom il with Some d => Some d | None => parent end.
(* Engine.set_compute_framework: a user-set single framework is kept, otherwise the group's frameworks *)
Definition feat_cfw (rcf : option (list nat)) (gi : ginfo) : option (list nat) :=
  match rcf with Some [x] => Some [x] | _ => Some (gi_cfw gi) end.

(* Engine._process_feature on a feature value (name, domain, user-set frameworks rcf, options, link, own data type dt0):
   resolve the group; add_feature_to_collection -- only a feature that is NOT yet stored (Feature.__eq__ ignores the
   link!) gets its link added to Engine.links and its input features processed (Feature(name) objects created by the
   group: group options = the parent's (merge_options), context empty, child_options = the parent's options, domain =
   own or the parent feature's, data type = the group's rule); then, in any case, _add_filter_feature.
   An exception (group resolution of an input feature, Domain comparison) ends the call. *)
Fixpoint proc (vr : variant) (u : universe) (use_filter : bool) (fuel : nat) (st : rst)
              (n : string) (dom : option nat) (rcf : option (list nat)) (g c : opts) (l : option link)
              (dt0 : option nat) (child : option opts) : perr + rst :=
  match fuel with
  | 0 => inl EFuel
  | S k =>
    match resolve u n dom rcf g c with
    | inl e => inl e
    | inr gi =>
      let dt := match dt0 with Some a => Some a | None => gi_dtype gi end in
      let p := {| pf_gid := gi_id gi; pf_name := n; pf_g := g; pf_c := c; pf_link := l; pf_dtype := dt; pf_child := child;
                  pf_dom := dom |} in
      let st1 :=
        if stored_in p (r_stored st) then seek p st        (* requested (flag set) or inside the recursion: look-up *)
        else fold_left (fun acc il => match acc with
                                      | inl e => inl e
                                      | inr s => proc vr u use_filter k s (i_name il) (eff_dom il dom) None g [] (i_link il)
                                                      None (Some g)
                                      end)
                       (gi_inputs gi)
                       (inr {| r_stored := r_stored st ++ [p];
                               r_ladds := match l with Some x => r_ladds st ++ [x] | None => r_ladds st end;
                               r_fadds := r_fadds st; r_flts := r_flts st; r_hz := r_hz st |}) in
      match st1 with
      | inl e => inl e
      | inr s1 => if use_filter
                  then add_filter_feature vr u s1 gi n dom (feat_cfw rcf gi) g c (match child with Some _ => true | None => false end)
                  else inr s1
      end
    end
  end.

(* ---------------------------------------------------------------- steps and their filters ---- *)
Definition same_step (a b : pfeat) : bool := Nat.eqb (pf_gid a) (pf_gid b) && opts_eqb (pf_g a) (pf_g b).
Fixpoint step_reps (l : list pfeat) (seen : list pfeat) : list pfeat :=
  match l with
  | [] => []
  | p :: t => if existsb (same_step p) seen then step_reps t seen else p :: step_reps t (p :: seen)
  end.
Definition step_names (stored : list pfeat) (r : pfeat) : list string :=
  map pf_name (filter (same_step r) stored).

(* add_single_filters_to_feature_set: the sets of the collection entries whose key matches the step, in dict order;
   the first becomes the step's filters, every later one must compare equal *)
Definition matching_sets (c : fcoll) (gid : nat) (names : list string) : list (list flt) :=
  map snd (filter (fun kv => Nat.eqb (fst (fst kv)) gid && existsb (String.eqb (snd (fst kv))) names) c).
Definition step_filters (c : fcoll) (gid : nat) (names : list string) : option (list flt) :=
  match matching_sets c gid names with
  | [] => Some []
  | s :: rest => if forallb (fset_eqb s) rest then Some s else None
  end.

Fixpoint attach (c : fcoll) (stored reps : list pfeat) : option (list (nat * opts * list flt)) :=
  match reps with
  | [] => Some []
  | r :: t => match step_filters c (pf_gid r) (step_names stored r), attach c stored t with
              | Some s, Some rest => Some ((pf_gid r, pf_g r, s) :: rest)
              | _, _ => None
              end
  end.

(* ---------------------------------------------------------------- phase 2: Engine ---- *)
Record pst := { p_heap : heap; p_r : rst }.
Definition p_stored (s : pst) := r_stored (p_r s).

Definition cfw_check (f : fobj) (gi : ginfo) : perr + option (list nat) :=
  match f_cfw f with
  | None => inr (Some (gi_cfw gi))                                  (* feature.compute_frameworks = compute_frameworks *)
  | Some [x] => if existsb (Nat.eqb x) (gi_cfw gi) then inr (Some [x])
                else inl ENoGroup                                   (* _filter_feature_group_by_framework drops the group *)
  | Some _ => inl ECfw                                              (* "should only have one compute framework" *)
  end.
Definition dtype_check (f : fobj) (gi : ginfo) : option (option nat) :=     (* Engine.set_data_type *)
  match f_dtype f, gi_dtype gi with
  | Some a, Some b => if Nat.eqb a b then Some (Some b) else None
  | a, None => Some a
  | None, Some b => Some (Some b)
  end.

Definition phase2_one (vr : variant) (u : universe) (fuel : nat) (use_filter : bool) (st : pst) (a : nat)
  : pst * option perr :=
  let F := fst (p_heap st) in let O := snd (p_heap st) in
  match nth_error F a with
  | None => (st, Some EBadAddr)
  | Some f =>
    match nth_error O (f_opt f) with
    | None => (st, Some EBadAddr)
    | Some o =>
      match resolve u (f_name f) (f_dom f) (f_cfw f) (og o) (oc o) with
      | inl e => (st, Some e)
      | inr gi =>
        match cfw_check f gi with
        | inl e => (st, Some e)
        | inr cf =>
          match dtype_check f gi with
          | None => (* compute framework already written *)
              ({| p_heap := (upd F a (set_cfw_dtype cf (f_dtype f)), O); p_r := p_r st |}, Some EDtype)
          | Some dt =>
            let h' : heap := (upd F a (set_cfw_dtype cf dt), O) in
            match proc vr u use_filter fuel (p_r st) (f_name f) (f_dom f) (f_cfw f) (og o) (oc o) (f_link f) dt None with
            | inl e => (* an exception inside the recursion (an input feature does not resolve, Domain comparison): the
                          partial effects of the recursion depend on set iteration order and are not kept *)
                       ({| p_heap := h'; p_r := p_r st |}, Some e)
            | inr r => ({| p_heap := h'; p_r := r |}, None)
            end
          end
        end
      end
    end
  end.

Fixpoint phase2 (vr : variant) (u : universe) (fuel : nat) (use_filter : bool) (st : pst) (l : list nat)
  : pst * option perr :=
  match l with
  | [] => (st, None)
  | a :: t => match phase2_one vr u fuel use_filter st a with
              | (st', Some e) => (st', Some e)
              | (st', None) => phase2 vr u fuel use_filter st' t
              end
  end.

(* ---------------------------------------------------------------- mlodaAPI.prepare ---- *)
(* the Engine's filter objects at the start: the content of the caller's (a deep copy, or the very objects) *)
Definition rst0 (fl : list flt) (hz : nat) : rst :=
  {| r_stored := []; r_ladds := []; r_fadds := []; r_flts := fl; r_hz := hz |}.

(* the traversal of a call: a function of the universe, the filters and the (working) heap only *)
Definition traverse_v (vr : variant) (u : universe) (fuel : nat) (w : world) (c : call)
  : heap * (perr + (pst * option perr)) :=
  let nF := List.length (hF w) in
  let h0 : heap := if c_copy c then deepcopy_heap (hF w) (hO w) else (hF w, hO w) in
  let addrs := if c_copy c then map (fun a => a + nF) (c_feats c) else c_feats c in
  match phase1 (c_api c) (c_strict c) h0 addrs with
  | (h1, Some e) => (h1, inl e)
  | (h1, None) => (h1, inr (phase2 vr u fuel (c_filter c) {| p_heap := h1; p_r := rst0 (w_filters w) (c_hz c) |} addrs))
  end.

Definition filter_outcome (use_filter : bool) (C : fcoll) (stored : list pfeat) (links : list link) : outcome :=
  if use_filter then
    match attach C stored (step_reps stored []) with
    | Some steps => Accepted steps links
    | None => Failed ERejected
    end
  else Accepted (map (fun r => (pf_gid r, pf_g r, [])) (step_reps stored [])) links.

Definition plan_call_v (vr : variant) (u : universe) (fuel : nat) (w : world) (c : call) : world * outcome :=
  let nF := List.length (hF w) in let nO := List.length (hO w) in
  (* what the caller holds afterwards; fl: the Engine's filter objects -- the caller's own unless the Engine deep-copied *)
  let back (h : heap) (fl : list flt) : world :=
    {| hF := firstn nF (fst h); hO := firstn nO (snd h);
       w_links := w_links w; w_filters := if v_engine_deepcopy vr then w_filters w else fl; w_coll := w_coll w |} in
  match traverse_v vr u fuel w c with
  | (h1, inl e) => (back h1 (w_filters w), Failed e)
  | (h1, inr (st, e)) =>
    if c_links c && negb (validate_links (w_links w)) then (back h1 (w_filters w), Failed ELinks)
    else
      (* Engine.links = set(links) (or a new set when links=None) and Engine.global_filter = deepcopy(global_filter):
         private copies that start from the content of the caller's objects (variant without the deepcopy: a new, empty
         collection) *)
      let L := apply_links (if c_links c then w_links w else []) (r_ladds (p_r st)) in
      let C := apply_coll (if v_engine_deepcopy vr then w_coll w else []) (r_fadds (p_r st)) in
      (back (p_heap st) (r_flts (p_r st)),
       match e with
       | Some e => Failed e
       | None => filter_outcome (c_filter c) C (p_stored st) L
       end)
  end.

(* /repo *)
Definition traverse := traverse_v as_implemented.
Definition plan_call := plan_call_v as_implemented.

(* outcomes are compared as Python compares them: sets of filters, sets of links, steps in any order *)
Definition steps_sub (a b : list (nat * opts * list flt)) : bool :=
  forallb (fun x => existsb (fun y => Nat.eqb (fst (fst x)) (fst (fst y)) && opts_eqb (snd (fst x)) (snd (fst y))
                                      && fset_eqb (snd x) (snd y)) b) a.
Definition perr_eqb (a b : perr) : bool :=
  match a, b with
  | EBadAddr, EBadAddr | EAddConflict, EAddConflict | ELinks, ELinks | ENoGroup, ENoGroup | ECfw, ECfw
  | EDtype, EDtype | EFuel, EFuel | ERejected, ERejected | EMulti, EMulti | EDomCmp, EDomCmp => true
  | _, _ => false
  end.
Definition outcome_eqb (a b : outcome) : bool :=
  match a, b with
  | Accepted s1 l1, Accepted s2 l2 => steps_sub s1 s2 && steps_sub s2 s1 && links_eqb l1 l2
  | Failed e1, Failed e2 => perr_eqb e1 e2
  | _, _ => false
  end.

(* ---------------------------------------------------------------- what a call adds to the Engine's private copies ---- *)
Definition call_products_v (vr : variant) (u : universe) (fuel : nat) (w : world) (c : call) : list (key * flt) * list pfeat :=
  match traverse_v vr u fuel w c with
  | (_, inr (st, _)) => (r_fadds (p_r st), p_stored st)
  | (_, inl _) => ([], [])
  end.
Definition call_products := call_products_v as_implemented.
(* the matched filters of a call: every (group, feature name) -> enriched filter copy recorded by _add_filter_feature *)
Definition call_matched_v (vr : variant) (u : universe) (fuel : nat) (w : world) (c : call) : list (key * flt) :=
  fst (call_products_v vr u fuel w c).
Definition call_matched := call_matched_v as_implemented.
(* the Engine's own filter objects when planning ends *)
Definition call_engine_filters_v (vr : variant) (u : universe) (fuel : nat) (w : world) (c : call) : list flt :=
  match traverse_v vr u fuel w c with
  | (_, inr (st, _)) => r_flts (p_r st)
  | (_, inl _) => w_filters w
  end.
Definition touches (stored : list pfeat) (k : key) : bool :=
  existsb (fun p => Nat.eqb (pf_gid p) (fst k) && String.eqb (pf_name p) (snd k)) stored.

(* ---------------------------------------------------------------- correspondence checker ---- *)
(* observed after each call: the caller's heaps, links set, filter objects and collection (structural snapshot), and the
   outcome *)
Inductive oobs := OAccepted (steps : list (nat * opts * list flt)) | OFailed (e : perr) | OOther.
Record cobs := { co_call : call; co_F : list fobj; co_O : list oobj; co_links : list link; co_coll : fcoll; co_out : oobs;
                co_same : bool;  (* observed: same planning outcome as the same call on fresh equal objects *)
                co_filters : list flt  (* the caller's GlobalFilter.filters after the call *) }.

Definition oobj_eqb (a b : oobj) : bool := opts_eqb (og a) (og b) && opts_eqb (oc a) (oc b).
Definition olink_eqb (a b : option link) : bool :=
  match a, b with None, None => true | Some x, Some y => link_eqb x y | _, _ => false end.
Definition fobj_eqb (a b : fobj) : bool :=
  String.eqb (f_name a) (f_name b) && Nat.eqb (f_opt a) (f_opt b) && oset_eqb (f_cfw a) (f_cfw b)
  && Bool.eqb (f_flag a) (f_flag b) && onat_eqb (f_dtype a) (f_dtype b) && Nat.eqb (f_uuid a) (f_uuid b)
  && olink_eqb (f_link a) (f_link b) && onat_eqb (f_dom a) (f_dom b).
Definition coll_sub (a b : fcoll) : bool := forallb (fun kv => fset_eqb (snd kv) (coll_get b (fst kv))) a.
Definition coll_eqb (a b : fcoll) : bool := coll_sub a b && coll_sub b a.

(* exceptions raised inside the recursion over input features / filters: which of several is raised first depends on
   set iteration order (input_features returns a set, GlobalFilter.filters is a set) *)
Definition trav_err (e : perr) : bool :=
  match e with ENoGroup | EMulti | EDomCmp => true | _ => false end.
Definition out_matches (m : outcome) (o : oobs) : bool :=
  match m, o with
  | Accepted s _, OAccepted s' => steps_sub s s' && steps_sub s' s
  | Failed e, OFailed e' => perr_eqb e e' || (trav_err e && trav_err e')
  | Accepted _ _, OOther => true     (* rejected by a planning stage the model does not cover (link resolution) ... *)
  | Failed ERejected, OOther => true (* ... which runs before the execution plan compares the filter sets *)
  | _, _ => false
  end.

(* every call is checked as a transition from the OBSERVED state before it: the caller's heaps, links set, filter objects
   and filter collection after the call are the model's (links, filters and collection: unchanged), the planning outcome
   is the model's, and -- the reuse half of the property -- as long as every earlier call left the features alone
   (copy_features=True) the observed outcome equals the observed outcome of the same call on fresh equal objects. *)
Definition obs_world (w : world) (b : cobs) : world :=
  {| hF := co_F b; hO := co_O b; w_links := co_links b; w_filters := co_filters b; w_coll := co_coll b |}.

Definition with_hz (c : call) (k : nat) : call :=
  {| c_feats := c_feats c; c_copy := c_copy c; c_strict := c_strict c; c_api := c_api c; c_links := c_links c;
     c_filter := c_filter c; c_hz := k |}.
(* the observed effect and outcome of one call are the model's for SOME set iteration order: no hazardous look-up raises
   (100: more than a call of the generated size has), or the first / second / third / fourth one does *)
Definition chk_one (u : universe) (fuel : nat) (w : world) (b : cobs) : bool :=
  existsb (fun k =>
    let (w', m) := plan_call u fuel w (with_hz (co_call b) k) in
    list_eqb fobj_eqb (hF w') (co_F b) && list_eqb oobj_eqb (hO w') (co_O b)
    && links_eqb (w_links w') (co_links b) && coll_eqb (w_coll w') (co_coll b)
    && fset_eqb (w_filters w') (co_filters b)
    && out_matches m (co_out b)) [100; 0; 1; 2; 3].

Fixpoint chk_calls (u : universe) (fuel : nat) (w : world) (allcopy : bool) (h : list cobs) : bool :=
  match h with
  | [] => true
  | b :: t =>
    chk_one u fuel w b
    && (if allcopy then co_same b else true)
    && chk_calls u fuel (obs_world w b) (allcopy && c_copy (co_call b)) t
  end.

Definition chk_args (c : universe * world * list cobs) : bool :=
  match c with (u, w, h) => chk_calls u 8 w true h end.
