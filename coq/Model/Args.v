(* Heap model of the caller-owned argument objects of mlodaAPI.prepare / run_all and of what planning writes into
   them.  Mirrors (file: function -> definition):

     mloda/core/api/request.py
       mlodaAPI.__init__       deepcopy(requested_features) if copy_features                          -> deepcopy_heap
       _process_features       feature.initial_requested_data = True; options.add("ApiInputData", cols);
                               options.add(strict_type_enforcement, True) for every requested feature (fix 04e88fc)          -> phase1
     mloda/core/abstract_plugins/components/options.py
       Options.add / add_to_group + OptionsValidator.validate_can_add_to_group                       -> opt_add
     mloda/core/core/engine.py
       Engine.__init__         LinkValidator.validate_links(links); self.links = set(links): a PRIVATE copy of the
                               caller's set; self.global_filter = deepcopy(global_filter): a PRIVATE copy of the
                               caller's GlobalFilter (filters and collection)                         -> validate_links, plan_call
       _process_feature        identify group; set_compute_framework; set_data_type                   -> phase2_one
       add_feature_to_collection / add_feature_link_to_links   self.links.add(feature.link), only for a
                               feature that is not yet stored (Feature.__eq__)                        -> proc
       _handle_input_features_recursion + Features.build_feature_collection / merge_options           -> proc
       _add_filter_feature     identity_matched_filters (deepcopy of each filter, unify_options), then
                               global_filter.add_filter_to_collection(group, feature.name, match)     -> add_filter_feature
     mloda/core/filter/global_filter.py   unify_options, add_filter_to_collection                     -> enrich, coll_add
     mloda/core/prepare/execution_plan.py add_single_filters_to_feature_set (iteration over collection.items(),
                               first matching set kept BY REFERENCE, later ones compared with !=)     -> step_filters

   Objects: Feature objects and Options objects live in two heaps addressed by position (several features may share
   one Options object; several calls may be given the same Feature objects); the links set and the GlobalFilter
   (filters, collection) are single objects of the world.  Planning ADDS links (those attached to stored features) and
   collection entries, but to the Engine's private copies: the caller's two objects are only read (the copies start
   from their content).  api_data is never written by
   planning or running and therefore has no cell (the harness snapshot checks that).

   Domain of the model (what the generated universes of harness/c07.py contain): feature groups without
   index_columns() and with the default set_feature_name (so Feature.name is never rewritten and no index features are
   created), input features created by the groups as Feature(name[, link=...]) without own options, filter features
   without context options and without compute framework / domain, option values that are not Feature objects.
   Python set / dict iteration orders only permute the order in which entries are added; every comparison below is a
   set comparison, so no order parameter is needed.  Definitions only; proofs in Proofs/ArgsP.v. *)
From Coq Require Import List Bool Arith ZArith String.
Import ListNotations.
Open Scope string_scope. Open Scope list_scope.

(* ---------------------------------------------------------------- values, options ---- *)
Definition cols := list (string * list string).          (* ApiInputDataCollection.get_column_names() *)
Inductive val := VZ (z : Z) | VS (s : string) | VB (b : bool) | VCols (c : cols).
Definition opts := list (string * val).                  (* a dict: keys unique *)

Fixpoint list_eqb {A} (e : A -> A -> bool) (a b : list A) : bool :=
  match a, b with [] , [] => true | x :: a', y :: b' => e x y && list_eqb e a' b' | _, _ => false end.
Definition cols_eqb (a b : cols) : bool :=
  list_eqb (fun x y => String.eqb (fst x) (fst y) && list_eqb String.eqb (snd x) (snd y)) a b.
Definition val_eqb (a b : val) : bool :=
  match a, b with
  | VZ x, VZ y => Z.eqb x y | VS x, VS y => String.eqb x y | VB x, VB y => Bool.eqb x y
  | VCols x, VCols y => cols_eqb x y | _, _ => false
  end.
Fixpoint lookup (k : string) (o : opts) : option val :=
  match o with [] => None | (k', v) :: t => if String.eqb k k' then Some v else lookup k t end.
Definition has (k : string) (o : opts) : bool := match lookup k o with Some _ => true | None => false end.
Definition opts_sub (a b : opts) : bool :=
  forallb (fun kv => match lookup (fst kv) b with Some v => val_eqb (snd kv) v | None => false end) a.
Definition opts_eqb (a b : opts) : bool := opts_sub a b && opts_sub b a.     (* dict == dict *)

(* ---------------------------------------------------------------- links ---- *)
Record link := { l_jt : nat; l_left : nat; l_right : nat; l_li : list string; l_ri : list string }.
(* jointype: 0 INNER 1 LEFT 2 RIGHT 3 OUTER 4 APPEND 5 UNION; l_left / l_right: feature-group ids *)
Definition link_eqb (a b : link) : bool :=      (* Link.__eq__ *)
  Nat.eqb (l_jt a) (l_jt b) && Nat.eqb (l_left a) (l_left b) && Nat.eqb (l_right a) (l_right b)
  && list_eqb String.eqb (l_li a) (l_li b) && list_eqb String.eqb (l_ri a) (l_ri b).
Definition link_in (x : link) (s : list link) : bool := existsb (link_eqb x) s.
Definition link_add (s : list link) (x : link) : list link := if link_in x s then s else s ++ [x].   (* set.add *)
Definition links_sub (a b : list link) : bool := forallb (fun x => link_in x b) a.
Definition links_eqb (a b : list link) : bool := links_sub a b && links_sub b a.

(* LinkValidator.validate_links: no double joins, no conflicting join types, right-join constraints *)
Definition is_stack (jt : nat) : bool := Nat.eqb jt 4 || Nat.eqb jt 5.
Definition validate_links (s : list link) : bool :=
  forallb (fun i => forallb (fun j =>
    link_eqb i j ||
    negb ( (Nat.eqb (l_left i) (l_right j) && Nat.eqb (l_right i) (l_left j) && negb (is_stack (l_jt i)))
        || (Nat.eqb (l_left i) (l_left j) && Nat.eqb (l_right i) (l_right j) && negb (Nat.eqb (l_jt i) (l_jt j)))
        || (Nat.eqb (l_jt i) 2 && (Nat.eqb (l_left i) (l_left j) || Nat.eqb (l_left i) (l_right j))) )) s) s.

(* ---------------------------------------------------------------- objects ---- *)
Record oobj := { og : opts; oc : opts }.                                   (* Options: group, context *)
Record fobj := { f_name : string; f_opt : nat; f_cfw : option (list nat); f_flag : bool;
                 f_dtype : option nat; f_uuid : nat; f_link : option link }.  (* Feature *)
Record flt := { ft_name : string; ft_opts : opts; ft_type : string; ft_param : list (string * Z) }.  (* SingleFilter *)
Definition flt_eqb (a b : flt) : bool :=      (* SingleFilter.__eq__: filter_feature (name, options), type, parameter *)
  String.eqb (ft_name a) (ft_name b) && opts_eqb (ft_opts a) (ft_opts b) && String.eqb (ft_type a) (ft_type b)
  && list_eqb (fun x y => String.eqb (fst x) (fst y) && Z.eqb (snd x) (snd y)) (ft_param a) (ft_param b).
Definition flt_in (x : flt) (s : list flt) : bool := existsb (flt_eqb x) s.
Definition fset_sub (a b : list flt) : bool := forallb (fun x => flt_in x b) a.
Definition fset_eqb (a b : list flt) : bool := fset_sub a b && fset_sub b a.          (* set == set *)
Definition fset_add (s : list flt) (x : flt) : list flt := if flt_in x s then s else s ++ [x].

Definition key := (nat * string)%type.                                     (* (feature group, filtered feature name) *)
Definition key_eqb (a b : key) : bool := Nat.eqb (fst a) (fst b) && String.eqb (snd a) (snd b).
Definition fcoll := list (key * list flt).                                 (* GlobalFilter.collection *)
Fixpoint coll_get (c : fcoll) (k : key) : list flt :=
  match c with [] => [] | (k', s) :: t => if key_eqb k k' then s else coll_get t k end.
Fixpoint coll_add (c : fcoll) (k : key) (x : flt) : fcoll :=               (* add_filter_to_collection *)
  match c with
  | [] => [(k, [x])]
  | (k', s) :: t => if key_eqb k k' then (k', fset_add s x) :: t else (k', s) :: coll_add t k x
  end.

Record world := {
  hF : list fobj;            (* the caller's Feature objects *)
  hO : list oobj;            (* the caller's Options objects *)
  w_links : list link;       (* the caller's links set object *)
  w_filters : list flt;      (* the caller's GlobalFilter.filters *)
  w_coll : fcoll             (* the caller's GlobalFilter.collection *)
}.

(* ---------------------------------------------------------------- universe (the enabled plug-ins) ---- *)
Record ginfo := { gi_id : nat; gi_cfw : list nat; gi_api : bool; gi_dtype : option nat;
                  gi_inputs : list (string * option link) }.
Definition universe := list (string * ginfo).          (* feature name -> its group and its input features *)
Fixpoint ufind (u : universe) (n : string) : option ginfo :=
  match u with [] => None | (n', g) :: t => if String.eqb n n' then Some g else ufind t n end.
Definition api_key := "ApiInputData".
Definition strict_key := "strict_type_enforcement".
Definition api_has (n : string) (g c : opts) : bool :=          (* ApiInputData.matches *)
  match lookup api_key g with
  | Some (VCols cs) => existsb (fun kc => existsb (String.eqb n) (snd kc)) cs
  | Some _ => false
  | None => match lookup api_key c with
            | Some (VCols cs) => existsb (fun kc => existsb (String.eqb n) (snd kc)) cs
            | _ => false end
  end.
(* IdentifyFeatureGroupClass: criteria (name; api-backed groups need the name among the api columns in the options) *)
Definition resolve (u : universe) (n : string) (g c : opts) : option ginfo :=
  match ufind u n with
  | Some gi => if gi_api gi then (if api_has n g c then Some gi else None) else Some gi
  | None => None
  end.

(* ---------------------------------------------------------------- a call ---- *)
Record call := {
  c_feats : list nat;             (* addresses of the Feature objects passed as `features` *)
  c_copy : bool;                  (* copy_features *)
  c_strict : bool;                (* strict_type_enforcement *)
  c_api : option cols;            (* api_data given: its shape (None, or empty: no ApiInputDataCollection) *)
  c_links : bool;                 (* links = the world's set object (true) or None (false) *)
  c_filter : bool                 (* global_filter = the world's GlobalFilter (true) or None *)
}.

Inductive perr := EBadAddr | EAddConflict | ELinks | ENoGroup | ECfw | EDtype | EFuel | ERejected.

(* a feature as stored in Engine.feature_group_collection: group, name, options (group / context), link, data type,
   child_options (None for requested and filter features, the parent's options for input features) *)
Record pfeat := { pf_gid : nat; pf_name : string; pf_g : opts; pf_c : opts; pf_link : option link;
                  pf_dtype : option nat; pf_child : option opts }.

Inductive outcome :=
  | Accepted (steps : list (nat * opts * list flt))   (* per feature-group step (group, group options): attached filters *)
            (links_seen : list link)                  (* the links the resolver works with *)
  | Failed (e : perr).

(* ---------------------------------------------------------------- heap primitives ---- *)
Fixpoint upd {A} (l : list A) (a : nat) (f : A -> A) : list A :=
  match l, a with
  | [], _ => []
  | x :: t, 0 => f x :: t
  | x :: t, S a' => x :: upd t a' f
  end.

(* deepcopy(list of features): an isomorphic, disjoint copy of the object graph (the memo dictionary of deepcopy
   preserves sharing): both heaps are duplicated, references inside the copies are shifted. *)
Definition shiftF (nO : nat) (f : fobj) : fobj :=
  {| f_name := f_name f; f_opt := f_opt f + nO; f_cfw := f_cfw f; f_flag := f_flag f; f_dtype := f_dtype f;
     f_uuid := f_uuid f; f_link := f_link f |}.
Definition deepcopy_heap (F : list fobj) (O : list oobj) : list fobj * list oobj :=
  (F ++ map (shiftF (List.length O)) F, O ++ O).

Definition set_flag (f : fobj) : fobj :=
  {| f_name := f_name f; f_opt := f_opt f; f_cfw := f_cfw f; f_flag := true; f_dtype := f_dtype f;
     f_uuid := f_uuid f; f_link := f_link f |}.
Definition set_cfw_dtype (c : option (list nat)) (d : option nat) (f : fobj) : fobj :=
  {| f_name := f_name f; f_opt := f_opt f; f_cfw := c; f_flag := f_flag f; f_dtype := d;
     f_uuid := f_uuid f; f_link := f_link f |}.

(* Options.add: key in group with a different value -> ValueError; key in context -> ValueError; group[key] = value *)
Definition opt_add (o : oobj) (k : string) (v : val) : option oobj :=
  match lookup k (og o) with
  | Some v' => if val_eqb v v' then (if has k (oc o) then None else Some o) else None
  | None => if has k (oc o) then None else Some {| og := og o ++ [(k, v)]; oc := oc o |}
  end.

Definition heap := (list fobj * list oobj)%type.

Definition heap_add (h : heap) (oa : nat) (k : string) (v : val) : option heap :=
  match nth_error (snd h) oa with
  | None => None
  | Some o => match opt_add o k v with
              | None => None
              | Some o' => Some (fst h, upd (snd h) oa (fun _ => o'))
              end
  end.

(* ---------------------------------------------------------------- phase 1: _process_features ---- *)
Definition nonempty_api (a : option cols) : option cols := match a with Some (x :: t) => Some (x :: t) | _ => None end.

Definition phase1_one (api : option cols) (strict : bool) (h : heap) (a : nat) : heap * option perr :=
  match nth_error (fst h) a with
  | None => (h, Some EBadAddr)
  | Some f =>
    let h1 : heap := (upd (fst h) a set_flag, snd h) in
    let r2 := match nonempty_api api with
              | Some c => match heap_add h1 (f_opt f) api_key (VCols c) with Some h2 => (h2, None) | None => (h1, Some EAddConflict) end
              | None => (h1, None)
              end in
    match snd r2 with
    | Some e => r2
    | None => if strict       (* after fix 04e88fc: every requested feature, typed or not *)
              then match heap_add (fst r2) (f_opt f) strict_key (VB true) with
                   | Some h3 => (h3, None) | None => (fst r2, Some EAddConflict) end
              else r2
    end
  end.

Fixpoint phase1 (api : option cols) (strict : bool) (h : heap) (l : list nat) : heap * option perr :=
  match l with
  | [] => (h, None)
  | a :: t => match phase1_one api strict h a with
              | (h', Some e) => (h', Some e)
              | (h', None) => phase1 api strict h' t
              end
  end.

(* ---------------------------------------------------------------- recursion over input features ---- *)
Definition onat_eqb (a b : option nat) : bool :=
  match a, b with None, None => true | Some x, Some y => Nat.eqb x y | _, _ => false end.
Definition oopts_eqb (a b : option opts) : bool :=
  match a, b with None, None => true | Some x, Some y => opts_eqb x y | _, _ => false end.
(* Feature.__eq__: name, options (group), options.context, domain, compute_frameworks, data_type, child_options.
   NOT the link, NOT initial_requested_data.  (One group per name and one framework per group in the model's domain.) *)
Definition pf_eqb (a b : pfeat) : bool :=
  Nat.eqb (pf_gid a) (pf_gid b) && String.eqb (pf_name a) (pf_name b) && opts_eqb (pf_g a) (pf_g b)
  && opts_eqb (pf_c a) (pf_c b) && onat_eqb (pf_dtype a) (pf_dtype b) && oopts_eqb (pf_child a) (pf_child b).
Definition stored_in (p : pfeat) (l : list pfeat) : bool := existsb (pf_eqb p) l.

(* unify_options(feat.options, copy_of_filter.options): keys of the feature (group, then context) missing in the
   filter feature's options are set in its group *)
Definition enrich (x : flt) (g c : opts) : flt :=
  {| ft_name := ft_name x;
     ft_opts := fold_left (fun o kv => if has (fst kv) o then o else o ++ [kv]) (g ++ c) (ft_opts x);
     ft_type := ft_type x; ft_param := ft_param x |}.

(* GlobalFilter.criteria: the feature's group accepts the (enriched) filter feature *)
Definition crit (u : universe) (gid : nat) (x : flt) : bool :=
  match resolve u (ft_name x) (ft_opts x) [] with Some gi => Nat.eqb (gi_id gi) gid | None => false end.

Definition matched (u : universe) (filters : list flt) (gid : nat) (g c : opts) : list flt :=
  filter (crit u gid) (map (fun x => enrich x g c) filters).

(* the planning state the recursion works on: Engine.feature_group_collection (all groups), and -- because the recursion
   only ever ADDS to Engine.links (self.links.add) and to GlobalFilter.collection (add_filter_to_collection) and never
   reads them (groups without index_columns) -- the sequences of those add calls, applied to the two objects afterwards *)
Record rst := { r_stored : list pfeat; r_ladds : list link; r_fadds : list (key * flt) }.
Definition apply_links (L : list link) (log : list link) : list link := fold_left link_add log L.
Definition apply_coll (C : fcoll) (log : list (key * flt)) : fcoll :=
  fold_left (fun c kx => coll_add c (fst kx) (snd kx)) log C.

(* _add_filter_feature(group, feature): every matched filter is recorded under (group, feature.name) and its filter
   feature is stored (add_feature_to_collection: only if no equal feature is stored yet) *)
Definition add_filter_feature (u : universe) (filters : list flt) (st : rst) (gid : nat) (n : string) (g c : opts) : rst :=
  fold_left (fun st x =>
    let ff := {| pf_gid := gid; pf_name := ft_name x; pf_g := ft_opts x; pf_c := []; pf_link := None;
                 pf_dtype := None; pf_child := None |} in
    {| r_stored := if stored_in ff (r_stored st) then r_stored st else r_stored st ++ [ff];
       r_ladds := r_ladds st; r_fadds := r_fadds st ++ [((gid, n), x)] |})
    (matched u filters gid g c) st.

(* Engine._process_feature on a feature value: resolve the group; add_feature_to_collection -- only a feature that is
   NOT yet stored (Feature.__eq__ ignores the link!) gets its link added to Engine.links and its input features
   processed (Feature(name) objects created by the group: group options = the parent's (merge_options), context empty,
   child_options = the parent's options, data type = the group's rule); then, in any case, _add_filter_feature. *)
Fixpoint proc (u : universe) (use_filter : bool) (filters : list flt) (fuel : nat) (st : rst)
              (n : string) (g c : opts) (l : option link) (dt : option nat) (child : option opts) : option rst :=
  match fuel with
  | 0 => None
  | S k =>
    match resolve u n g c with
    | None => None
    | Some gi =>
      let p := {| pf_gid := gi_id gi; pf_name := n; pf_g := g; pf_c := c; pf_link := l; pf_dtype := dt; pf_child := child |} in
      let st1 :=
        if stored_in p (r_stored st) then Some st
        else fold_left (fun acc il => match acc with
                                      | None => None
                                      | Some s => match ufind u (fst il) with
                                                  | None => None
                                                  | Some gi' => proc u use_filter filters k s (fst il) g [] (snd il) (gi_dtype gi') (Some g)
                                                  end
                                      end)
                       (gi_inputs gi)
                       (Some {| r_stored := r_stored st ++ [p];
                                r_ladds := match l with Some x => r_ladds st ++ [x] | None => r_ladds st end;
                                r_fadds := r_fadds st |}) in
      match st1 with
      | None => None
      | Some s1 => Some (if use_filter then add_filter_feature u filters s1 (gi_id gi) n g c else s1)
      end
    end
  end.

(* ---------------------------------------------------------------- steps and their filters ---- *)
Definition same_step (a b : pfeat) : bool := Nat.eqb (pf_gid a) (pf_gid b) && opts_eqb (pf_g a) (pf_g b).
Fixpoint step_reps (l : list pfeat) (seen : list pfeat) : list pfeat :=
  match l with
  | [] => []
  | p :: t => if existsb (same_step p) seen then step_reps t seen else p :: step_reps t (p :: seen)
  end.
Definition step_names (stored : list pfeat) (r : pfeat) : list string :=
  map pf_name (filter (same_step r) stored).

(* add_single_filters_to_feature_set: the sets of the collection entries whose key matches the step, in dict order;
   the first becomes the step's filters, every later one must compare equal *)
Definition matching_sets (c : fcoll) (gid : nat) (names : list string) : list (list flt) :=
  map snd (filter (fun kv => Nat.eqb (fst (fst kv)) gid && existsb (String.eqb (snd (fst kv))) names) c).
Definition step_filters (c : fcoll) (gid : nat) (names : list string) : option (list flt) :=
  match matching_sets c gid names with
  | [] => Some []
  | s :: rest => if forallb (fset_eqb s) rest then Some s else None
  end.

Fixpoint attach (c : fcoll) (stored reps : list pfeat) : option (list (nat * opts * list flt)) :=
  match reps with
  | [] => Some []
  | r :: t => match step_filters c (pf_gid r) (step_names stored r), attach c stored t with
              | Some s, Some rest => Some ((pf_gid r, pf_g r, s) :: rest)
              | _, _ => None
              end
  end.

(* ---------------------------------------------------------------- phase 2: Engine ---- *)
Record pst := { p_heap : heap; p_r : rst }.
Definition p_stored (s : pst) := r_stored (p_r s).

Definition cfw_check (f : fobj) (gi : ginfo) : perr + option (list nat) :=
  match f_cfw f with
  | None => inr (Some (gi_cfw gi))                                  (* feature.compute_frameworks = compute_frameworks *)
  | Some [x] => if existsb (Nat.eqb x) (gi_cfw gi) then inr (Some [x])
                else inl ENoGroup                                   (* _filter_feature_group_by_framework drops the group *)
  | Some _ => inl ECfw                                              (* "should only have one compute framework" *)
  end.
Definition dtype_check (f : fobj) (gi : ginfo) : option (option nat) :=     (* Engine.set_data_type *)
  match f_dtype f, gi_dtype gi with
  | Some a, Some b => if Nat.eqb a b then Some (Some b) else None
  | a, None => Some a
  | None, Some b => Some (Some b)
  end.

Definition phase2_one (u : universe) (fuel : nat) (use_filter : bool) (filters : list flt) (st : pst) (a : nat)
  : pst * option perr :=
  let F := fst (p_heap st) in let O := snd (p_heap st) in
  match nth_error F a with
  | None => (st, Some EBadAddr)
  | Some f =>
    match nth_error O (f_opt f) with
    | None => (st, Some EBadAddr)
    | Some o =>
      match resolve u (f_name f) (og o) (oc o) with
      | None => (st, Some ENoGroup)
      | Some gi =>
        match cfw_check f gi with
        | inl e => (st, Some e)
        | inr cf =>
          match dtype_check f gi with
          | None => (* compute framework already written *)
              ({| p_heap := (upd F a (set_cfw_dtype cf (f_dtype f)), O); p_r := p_r st |}, Some EDtype)
          | Some dt =>
            let h' : heap := (upd F a (set_cfw_dtype cf dt), O) in
            match proc u use_filter filters fuel (p_r st) (f_name f) (og o) (oc o) (f_link f) dt None with
            | None => (* an input feature does not resolve (outside the model's domain: the partial effects of the
                         recursion depend on set iteration order) *)
                      ({| p_heap := h'; p_r := p_r st |}, Some ENoGroup)
            | Some r => ({| p_heap := h'; p_r := r |}, None)
            end
          end
        end
      end
    end
  end.

Fixpoint phase2 (u : universe) (fuel : nat) (use_filter : bool) (filters : list flt) (st : pst) (l : list nat)
  : pst * option perr :=
  match l with
  | [] => (st, None)
  | a :: t => match phase2_one u fuel use_filter filters st a with
              | (st', Some e) => (st', Some e)
              | (st', None) => phase2 u fuel use_filter filters st' t
              end
  end.

(* ---------------------------------------------------------------- mlodaAPI.prepare ---- *)
Definition rst0 : rst := {| r_stored := []; r_ladds := []; r_fadds := [] |}.

(* the traversal of a call: a function of the universe, the filters and the (working) heap only *)
Definition traverse (u : universe) (fuel : nat) (w : world) (c : call) : heap * (perr + (pst * option perr)) :=
  let nF := List.length (hF w) in
  let h0 : heap := if c_copy c then deepcopy_heap (hF w) (hO w) else (hF w, hO w) in
  let addrs := if c_copy c then map (fun a => a + nF) (c_feats c) else c_feats c in
  match phase1 (c_api c) (c_strict c) h0 addrs with
  | (h1, Some e) => (h1, inl e)
  | (h1, None) => (h1, inr (phase2 u fuel (c_filter c) (w_filters w) {| p_heap := h1; p_r := rst0 |} addrs))
  end.

Definition filter_outcome (use_filter : bool) (C : fcoll) (stored : list pfeat) (links : list link) : outcome :=
  if use_filter then
    match attach C stored (step_reps stored []) with
    | Some steps => Accepted steps links
    | None => Failed ERejected
    end
  else Accepted (map (fun r => (pf_gid r, pf_g r, [])) (step_reps stored [])) links.

Definition plan_call (u : universe) (fuel : nat) (w : world) (c : call) : world * outcome :=
  let nF := List.length (hF w) in let nO := List.length (hO w) in
  let back (h : heap) : world :=
    {| hF := firstn nF (fst h); hO := firstn nO (snd h);
       w_links := w_links w; w_filters := w_filters w; w_coll := w_coll w |} in
  match traverse u fuel w c with
  | (h1, inl e) => (back h1, Failed e)
  | (h1, inr (st, e)) =>
    if c_links c && negb (validate_links (w_links w)) then (back h1, Failed ELinks)
    else
      (* Engine.links = set(links) (or a new set when links=None) and Engine.global_filter = deepcopy(global_filter):
         private copies that start from the content of the caller's objects *)
      let L := apply_links (if c_links c then w_links w else []) (r_ladds (p_r st)) in
      let C := apply_coll (w_coll w) (r_fadds (p_r st)) in
      (back (p_heap st),
       match e with
       | Some e => Failed e
       | None => filter_outcome (c_filter c) C (p_stored st) L
       end)
  end.

(* outcomes are compared as Python compares them: sets of filters, sets of links, steps in any order *)
Definition steps_sub (a b : list (nat * opts * list flt)) : bool :=
  forallb (fun x => existsb (fun y => Nat.eqb (fst (fst x)) (fst (fst y)) && opts_eqb (snd (fst x)) (snd (fst y))
                                      && fset_eqb (snd x) (snd y)) b) a.
Definition perr_eqb (a b : perr) : bool :=
  match a, b with
  | EBadAddr, EBadAddr | EAddConflict, EAddConflict | ELinks, ELinks | ENoGroup, ENoGroup | ECfw, ECfw
  | EDtype, EDtype | EFuel, EFuel | ERejected, ERejected => true
  | _, _ => false
  end.
Definition outcome_eqb (a b : outcome) : bool :=
  match a, b with
  | Accepted s1 l1, Accepted s2 l2 => steps_sub s1 s2 && steps_sub s2 s1 && links_eqb l1 l2
  | Failed e1, Failed e2 => perr_eqb e1 e2
  | _, _ => false
  end.

(* ---------------------------------------------------------------- what a call adds to the Engine's private copies ---- *)
Definition call_products (u : universe) (fuel : nat) (w : world) (c : call) : list (key * flt) * list pfeat :=
  match traverse u fuel w c with
  | (_, inr (st, _)) => (r_fadds (p_r st), p_stored st)
  | (_, inl _) => ([], [])
  end.
Definition touches (stored : list pfeat) (k : key) : bool :=
  existsb (fun p => Nat.eqb (pf_gid p) (fst k) && String.eqb (pf_name p) (snd k)) stored.

(* ---------------------------------------------------------------- correspondence checker ---- *)
(* observed after each call: the caller's heaps, links set and collection (structural snapshot), and the outcome *)
Inductive oobs := OAccepted (steps : list (nat * opts * list flt)) | OFailed (e : perr) | OOther.
Record cobs := { co_call : call; co_F : list fobj; co_O : list oobj; co_links : list link; co_coll : fcoll; co_out : oobs;
                co_same : bool  (* observed: same planning outcome as the same call on fresh equal objects *) }.

Definition oobj_eqb (a b : oobj) : bool := opts_eqb (og a) (og b) && opts_eqb (oc a) (oc b).
Definition oset_eqb (a b : option (list nat)) : bool :=
  match a, b with
  | None, None => true
  | Some x, Some y => forallb (fun i => existsb (Nat.eqb i) y) x && forallb (fun i => existsb (Nat.eqb i) x) y
  | _, _ => false
  end.
Definition olink_eqb (a b : option link) : bool :=
  match a, b with None, None => true | Some x, Some y => link_eqb x y | _, _ => false end.
Definition fobj_eqb (a b : fobj) : bool :=
  String.eqb (f_name a) (f_name b) && Nat.eqb (f_opt a) (f_opt b) && oset_eqb (f_cfw a) (f_cfw b)
  && Bool.eqb (f_flag a) (f_flag b) && onat_eqb (f_dtype a) (f_dtype b) && Nat.eqb (f_uuid a) (f_uuid b)
  && olink_eqb (f_link a) (f_link b).
Definition coll_sub (a b : fcoll) : bool := forallb (fun kv => fset_eqb (snd kv) (coll_get b (fst kv))) a.
Definition coll_eqb (a b : fcoll) : bool := coll_sub a b && coll_sub b a.

Definition out_matches (m : outcome) (o : oobs) : bool :=
  match m, o with
  | Accepted s _, OAccepted s' => steps_sub s s' && steps_sub s' s
  | Failed e, OFailed e' => perr_eqb e e'
  | Accepted _ _, OOther => true     (* rejected by a planning stage the model does not cover (link resolution) ... *)
  | Failed ERejected, OOther => true (* ... which runs before the execution plan compares the filter sets *)
  | _, _ => false
  end.

(* every call is checked as a transition from the OBSERVED state before it: the caller's heaps, links set and filter
   collection after the call are the model's (links and collection: unchanged), the planning outcome is the model's,
   and -- the reuse half of the property -- as long as every earlier call left the features alone (copy_features=True)
   the observed outcome equals the observed outcome of the same call on fresh equal objects. *)
Definition obs_world (w : world) (b : cobs) : world :=
  {| hF := co_F b; hO := co_O b; w_links := co_links b; w_filters := w_filters w; w_coll := co_coll b |}.

Fixpoint chk_calls (u : universe) (fuel : nat) (w : world) (allcopy : bool) (h : list cobs) : bool :=
  match h with
  | [] => true
  | b :: t =>
    let (w', m) := plan_call u fuel w (co_call b) in
    list_eqb fobj_eqb (hF w') (co_F b) && list_eqb oobj_eqb (hO w') (co_O b)
    && links_eqb (w_links w') (co_links b) && coll_eqb (w_coll w') (co_coll b)
    && out_matches m (co_out b)
    && (if allcopy then co_same b else true)
    && chk_calls u fuel (obs_world w b) (allcopy && c_copy (co_call b)) t
  end.

Definition chk_args (c : universe * world * list cobs) : bool :=
  match c with (u, w, h) => chk_calls u 8 w true h end.
