(* Data model of the objects the round-3 targets of the source translator (harness/py2coq.py, CLASSES) read and write.
   Definitions only; trusted like Model/PySem.v and Model/PyObj.v: it says which component of a model value a Python attribute is.

     TransformFrameworkStep            PlannerB.tkey = (from_framework, to_framework, from_feature_group, to_feature_group):
        .from_framework ...            tk_from / tk_to / tk_fgrp / tk_tgrp        (a class = its number)
        an `other: Any`                option tkey: Some k = an instance of TransformFrameworkStep, None = any other object
     the step handed to a worker       wcmd: .step_is_done = wc_done (the completion register the orchestrator polls)
     CfwManager (as the worker and     wreg: .error = wr_error (the error register; get_error() reads it), .msg / .exc_info =
        set_error see it)              texts (PySem.msg: not modelled)
     a ComputeFramework object         its number (opaque: the worker only passes it on)
     ExecutionPlan (as                 its global_filter: option fcoll   (None = no GlobalFilter)
        add_single_filters_to_feature_set sees it)
     GlobalFilter.collection           fcoll: Dict[(feature group class, FeatureName), Set[SingleFilter]] in insertion order
     SingleFilter                      its number (SingleFilter.__eq__ / __hash__: equal filters = the same number)
     Feature                           feat: .name = ft_name (FeatureName = its string), .initial_requested_data = ft_init
     FeatureSet                        fset: .features = fs_features (list order = iteration order of the set),
                                       .filters = fs_filters (None until add_filters) *)
From Coq Require Import List Bool Arith String.
Import ListNotations.
Require Import MV.Model.PySem.
Require MV.Model.PlannerB.

(* ---- TransformFrameworkStep ---- *)
Definition tk_from (k : PlannerB.tkey) : nat := match k with (a, _, _, _) => a end.
Definition tk_to (k : PlannerB.tkey) : nat := match k with (_, b, _, _) => b end.
Definition tk_fgrp (k : PlannerB.tkey) : nat := match k with (_, _, c, _) => c end.
Definition tk_tgrp (k : PlannerB.tkey) : nat := match k with (_, _, _, d) => d end.

(* ---- the two shared registers of the THREADING worker ---- *)
Record wcmd := { wc_sid : nat; wc_done : bool }.
Definition wcmd_set_done (c : wcmd) (b : bool) : wcmd := {| wc_sid := wc_sid c; wc_done := b |}.
Record wreg := { wr_error : bool; wr_msg : msg; wr_exc : msg }.
Definition wreg_set_error (r : wreg) (b : bool) : wreg := {| wr_error := b; wr_msg := wr_msg r; wr_exc := wr_exc r |}.
Definition wreg_set_msg (r : wreg) (m : msg) : wreg := {| wr_error := wr_error r; wr_msg := m; wr_exc := wr_exc r |}.
Definition wreg_set_exc (r : wreg) (m : msg) : wreg := {| wr_error := wr_error r; wr_msg := wr_msg r; wr_exc := m |}.

(* ---- global filters attached to feature sets ---- *)
Definition fkey := (nat * string)%type.                     (* (feature group class, name of the processed feature) *)
Definition fcoll := list (fkey * list nat).                 (* GlobalFilter.collection *)
Record feat := { ft_name : string; ft_init : bool }.
Record fset := { fs_features : list feat; fs_filters : option (list nat) }.
