(* Faithful model of mloda_plugins/feature_group/experimental/text_cleaning/python_dict.py
   (PythonDictTextCleaningFeatureGroup) on ASCII text.  Definitions only.

     py_source                <->  _get_source_text: str(v) if v is not None else ""
     py_normalize             <->  _normalize_text: s.lower() then NFKD + dropping combining marks; on ASCII input NFKD is
                                   the identity and no character is combining, so only lower() acts (ASCII restriction!)
     py_remove_punctuation    <->  _remove_punctuation: s.translate(str.maketrans("", "", string.punctuation));
                                   the deleted characters are listed literally (`punctuation`)
     py_remove_special_chars  <->  _remove_special_chars: re.sub(r"[^a-zA-Z0-9\s]", "", s), character by character
     py_normalize_whitespace  <->  _normalize_whitespace: re.sub(r"\s+", " ", s).strip()
     py_apply / py_clean      <->  _apply_operation / the loop in TextCleaningFeatureGroup.calculate_feature
   remove_stopwords (NLTK corpus; the identity when NLTK is not installed) and remove_urls (general regex) are not
   modelled.  `re_space` is what `\s` matches for a str pattern restricted to ASCII: [ \t\n\r\f\v] and \x1c-\x1f. *)
From Coq Require Import List Bool Arith Ascii String.
Import ListNotations.
Require Import MV.Spec.Builtins.

Definition py_source (x : option text) : text := match x with None => [] | Some s => s end.

(* str.lower() on ASCII: 'A'..'Z' -> +32 *)
Definition py_lower_char (a : ascii) : ascii :=
  let n := nat_of_ascii a in if (65 <=? n)%nat && (n <=? 90)%nat then ascii_of_nat (n + 32) else a.
Definition py_normalize (s : text) : text := map py_lower_char s.

(* string.punctuation *)
Definition punctuation : text := list_ascii_of_string "!""#$%&'()*+,-./:;<=>?@[\]^_`{|}~".
Definition in_text (a : ascii) (s : text) : bool := existsb (Ascii.eqb a) s.
Fixpoint py_remove_punctuation (s : text) : text :=
  match s with [] => [] | a :: t => if in_text a punctuation then py_remove_punctuation t else a :: py_remove_punctuation t end.

Definition re_space (a : ascii) : bool :=
  let n := nat_of_ascii a in
  Nat.eqb n 32 || Nat.eqb n 9 || Nat.eqb n 10 || Nat.eqb n 13 || Nat.eqb n 12 || Nat.eqb n 11
  || Nat.eqb n 28 || Nat.eqb n 29 || Nat.eqb n 30 || Nat.eqb n 31.
Definition re_alnum (a : ascii) : bool :=
  let n := nat_of_ascii a in
  (97 <=? n)%nat && (n <=? 122)%nat || (65 <=? n)%nat && (n <=? 90)%nat || (48 <=? n)%nat && (n <=? 57)%nat.
(* a character matched by [^a-zA-Z0-9\s] is replaced by "" *)
Fixpoint py_remove_special_chars (s : text) : text :=
  match s with
  | [] => []
  | a :: t => if negb (re_alnum a || re_space a) then py_remove_special_chars t else a :: py_remove_special_chars t
  end.

(* re.sub(r"\s+", " ", s): every maximal run of \s becomes one space (in_run = the previous character was \s) *)
Fixpoint collapse (in_run : bool) (s : text) : text :=
  match s with
  | [] => []
  | a :: t => if re_space a then (if in_run then collapse true t else space :: collapse true t)
              else a :: collapse false t
  end.
(* str.strip(): remove leading and trailing characters c with c.isspace() (same ASCII set as \s) *)
Fixpoint lstrip (s : text) : text := match s with [] => [] | a :: t => if re_space a then lstrip t else s end.
Definition rstrip (s : text) : text := rev (lstrip (rev s)).
Definition strip (s : text) : text := rstrip (lstrip s).
Definition py_normalize_whitespace (s : text) : text := strip (collapse false s).

Definition py_apply (o : cleanop) (s : text) : text :=
  match o with
  | CNormalize => py_normalize s
  | CPunct => py_remove_punctuation s
  | CSpecial => py_remove_special_chars s
  | CWhite => py_normalize_whitespace s
  end.
(* result = source; for operation in operations: result = _apply_operation(result) *)
Definition py_clean (ops : list cleanop) (x : option text) : text :=
  fold_left (fun acc o => py_apply o acc) ops (py_source x).
