(* Faithful model of mloda_plugins/feature_group/experimental/text_cleaning/python_dict.py
   (PythonDictTextCleaningFeatureGroup) on ASCII text.  Definitions only.

     py_source                <->  _get_source_text: str(v) if v is not None else ""
     py_normalize             <->  _normalize_text: s.lower() then NFKD + dropping combining marks; on ASCII input NFKD is
                                   the identity and no character is combining, so only lower() acts (ASCII restriction!)
     py_remove_punctuation    <->  _remove_punctuation: s.translate(str.maketrans("", "", string.punctuation));
                                   the deleted characters are listed literally (`punctuation`)
     py_remove_special_chars  <->  _remove_special_chars: re.sub(r"[^a-zA-Z0-9\s]", "", s), character by character
     py_normalize_whitespace  <->  _normalize_whitespace: re.sub(r"\s+", " ", s).strip()
     py_apply / py_clean      <->  _apply_operation / the loop in TextCleaningFeatureGroup.calculate_feature
     sub_del / url_at / email_at / py_remove_urls  <->  _remove_urls (lines 227-250):
                                   cleaned = re.sub(r"https?://\S+|www\.\S+", "", s); cleaned = re.sub(r"\S+@\S+\.\S+", "", cleaned)
                                   (see the comment at the definitions for the regular-expression semantics assumed)
     alt_remove_urls          <->  NOT in the code: the one-pass variant re.sub(r"https?://\S+|www\.\S+|\S+@\S+\.\S+", "", s)
                                   (kept to state that it is a different function, C19_remove_urls_single_pass_refuted)
   remove_stopwords (NLTK corpus; the identity when NLTK is not installed) is not modelled.  `re_space` is what `\s` matches for a str pattern restricted to ASCII: [ \t\n\r\f\v] and \x1c-\x1f. *)
From Coq Require Import List Bool Arith Ascii String.
Import ListNotations.
Require Import MV.Spec.Builtins.

Definition py_source (x : option text) : text := match x with None => [] | Some s => s end.

(* str.lower() on ASCII: 'A'..'Z' -> +32 *)
Definition py_lower_char (a : ascii) : ascii :=
  let n := nat_of_ascii a in if (65 <=? n)%nat && (n <=? 90)%nat then ascii_of_nat (n + 32) else a.
Definition py_normalize (s : text) : text := map py_lower_char s.

(* string.punctuation *)
Definition punctuation : text := list_ascii_of_string "!""#$%&'()*+,-./:;<=>?@[\]^_`{|}~".
Definition in_text (a : ascii) (s : text) : bool := existsb (Ascii.eqb a) s.
Fixpoint py_remove_punctuation (s : text) : text :=
  match s with [] => [] | a :: t => if in_text a punctuation then py_remove_punctuation t else a :: py_remove_punctuation t end.

Definition re_space (a : ascii) : bool :=
  let n := nat_of_ascii a in
  Nat.eqb n 32 || Nat.eqb n 9 || Nat.eqb n 10 || Nat.eqb n 13 || Nat.eqb n 12 || Nat.eqb n 11
  || Nat.eqb n 28 || Nat.eqb n 29 || Nat.eqb n 30 || Nat.eqb n 31.
Definition re_alnum (a : ascii) : bool :=
  let n := nat_of_ascii a in
  (97 <=? n)%nat && (n <=? 122)%nat || (65 <=? n)%nat && (n <=? 90)%nat || (48 <=? n)%nat && (n <=? 57)%nat.
(* a character matched by [^a-zA-Z0-9\s] is replaced by "" *)
Fixpoint py_remove_special_chars (s : text) : text :=
  match s with
  | [] => []
  | a :: t => if negb (re_alnum a || re_space a) then py_remove_special_chars t else a :: py_remove_special_chars t
  end.

(* re.sub(r"\s+", " ", s): every maximal run of \s becomes one space (in_run = the previous character was \s) *)
Fixpoint collapse (in_run : bool) (s : text) : text :=
  match s with
  | [] => []
  | a :: t => if re_space a then (if in_run then collapse true t else space :: collapse true t)
              else a :: collapse false t
  end.
(* str.strip(): remove leading and trailing characters c with c.isspace() (same ASCII set as \s) *)
Fixpoint lstrip (s : text) : text := match s with [] => [] | a :: t => if re_space a then lstrip t else s end.
Definition rstrip (s : text) : text := rev (lstrip (rev s)).
Definition strip (s : text) : text := rstrip (lstrip s).
Definition py_normalize_whitespace (s : text) : text := strip (collapse false s).

(* ---- remove_urls: re.sub(pattern, "", s) for the two patterns  https?://\S+|www\.\S+   and   \S+@\S+\.\S+
   Semantics of re.sub assumed (Python `re`, backtracking, and RE2 / leftmost-first alike): scan from the left; at
   position i try to match the pattern at i; on success delete the match and continue at its END (matches do not
   overlap; neither pattern can match the empty string); otherwise keep the character and go to i + 1.
   `\S` = not `\s`; `sp` is the `\s` class (re_space for Python `re` on ASCII text, re2_space for RE2).
   Facts about these two patterns that the automaton uses (regular-expression reasoning, not proved here, covered by the tie):
     * both patterns END in a greedy `\S+` with nothing after it, and every alternative starts with a non-`\s` character,
       so a match starting at i always extends to the end of the maximal `\S` run containing i   (skip = true:
       "inside a match, delete up to the next `\s` character"), and no match starts at a `\s` character;
     * url_at: `https?://\S+` matches at s iff s starts with "http://" or "https://" followed by a `\S` character (the
       optional `s` needs no search: position 4 is `s` or `:`); `www\.\S+` iff s starts with "www." followed by `\S`;
     * email_at: `\S+@\S+\.\S+` matches at s iff the `\S` run r at the head of s can be split r = x @ y . z with x, y, z
       non-empty (backtracking over the greedy `\S+` finds a split iff one exists; `@` and `.` are `\S` characters). *)
Definition next_nonsp (sp : ascii -> bool) (o : option text) : bool :=
  match o with Some (c :: _) => negb (sp c) | _ => false end.
Definition url_at (sp : ascii -> bool) (s : text) : bool :=
  next_nonsp sp (strip_prefix (lit "http://") s) || next_nonsp sp (strip_prefix (lit "https://") s)
  || next_nonsp sp (strip_prefix (lit "www.") s).
Fixpoint take_run (sp : ascii -> bool) (s : text) : text :=
  match s with [] => [] | a :: t => if sp a then [] else a :: take_run sp t end.
Definition email_at (sp : ascii -> bool) (s : text) : bool := is_email (take_run sp s).
(* re.sub(<pattern whose match-at-position test is m>, "", s) *)
Fixpoint sub_del (sp : ascii -> bool) (m : text -> bool) (skip : bool) (s : text) : text :=
  match s with
  | [] => []
  | a :: t => if sp a then a :: sub_del sp m false t
              else if skip then sub_del sp m true t
              else if m s then sub_del sp m true t else a :: sub_del sp m false t
  end.
Definition url_pass (sp : ascii -> bool) (s : text) : text := sub_del sp (url_at sp) false s.
Definition email_pass (sp : ascii -> bool) (s : text) : text := sub_del sp (email_at sp) false s.
Definition two_pass (sp : ascii -> bool) (s : text) : text := email_pass sp (url_pass sp s).
Definition py_remove_urls (s : text) : text := two_pass re_space s.
(* the single alternation: at every position the URL alternatives are tried first, then the e-mail alternative *)
Definition alt_remove_urls (sp : ascii -> bool) (s : text) : text :=
  sub_del sp (fun x => url_at sp x || email_at sp x) false s.

Definition py_apply (o : cleanop) (s : text) : text :=
  match o with
  | CNormalize => py_normalize s
  | CPunct => py_remove_punctuation s
  | CSpecial => py_remove_special_chars s
  | CWhite => py_normalize_whitespace s
  | CUrls => py_remove_urls s
  end.
(* result = source; for operation in operations: result = _apply_operation(result) *)
Definition py_clean (ops : list cleanop) (x : option text) : text :=
  fold_left (fun acc o => py_apply o acc) ops (py_source x).
