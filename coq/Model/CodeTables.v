(* The code's two compatibility relations as total functions over the regenerated tables (Gen/TypeTables.v); a table entry that
   recorded an exception counts as "incompatible".  Kept apart from the proofs so that the correspondence checks still evaluate
   when a theorem over the regenerated tables no longer holds. *)
Require Import MV.Spec.Types MV.Gen.TypeTables.
Definition code_strict d a := match gen_strict d a with Some b => b | None => false end.
Definition code_lenient d a := match gen_lenient d a with Some b => b | None => false end.
(* the Arrow type -> DataType map of the code (None = ValueError, or the table recorded an exception) *)
Definition code_from_arrow a := match gen_from_arrow a with Some r => r | None => None end.
