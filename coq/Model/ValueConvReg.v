(* The value-level conversions (Model/ValueConv.v) plugged into the routing model (Model/Transform.v) over the registry
   REGENERATED from the working tree (Gen/Registry.v).  Definitions only.

   fw_num looks a framework type up by the qualified name harness/c14_gen.py wrote down; `route a b` is what
   TransformFrameworkStep.transform does for the pair (chain search on gen_registry, orientation dispatch, step loop) when
   the two installed transformer classes behave as mfwd / mbwd. *)
From Coq Require Import List Bool Arith String.
Import ListNotations.
Require Import MV.Model.Transform MV.Model.ValueConv MV.Gen.Registry.
Open Scope string_scope.

Definition fw_num (nm : string) : fw :=
  match find (fun p => String.eqb (snd p) nm) gen_fw_names with Some p => fst p | None => 999 end.
Definition n_d : fw := fw_num "builtins.list".
Definition n_a : fw := fw_num "pyarrow.lib.Table".
Definition n_p : fw := fw_num "pandas.DataFrame".
Definition num_of (a : fwk) : fw := match a with FDict => n_d | FArrow => n_a | FPandas => n_p end.

Definition route_res (a b : fwk) (x : anytable) : tres anytable :=
  tfs_transform anytable (mfwd n_d n_a n_p) (mbwd n_d n_a n_p) gen_hub gen_registry (num_of a) (num_of b) x.

Definition route (a b : fwk) (x : anytable) : anytable :=
  match route_res a b x with TOk _ y => y | _ => TFail false end.
