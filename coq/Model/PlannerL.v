(* Model of the LINK / JOIN part of the mloda planner (Stage B of the planner model; Stage A = Model/PlannerA.v).
   Definitions only; lemmas are in Proofs/PlannerL*.v, statements in Props/PlannerL.v.

   Input: the feature graph of PlannerA (fgraph: uuid, feature-group class, direct inputs, requested, THE compute
   framework of the feature) + the Links of the request (plink: link.uuid + LinkSel.link = join type, left / right class,
   left / right index) + the class hierarchy (mro, as in LinkSel).  Output: link_trekker.data, the link queue, the planned
   queue and the execution plan with FeatureGroupSteps, JoinSteps (left / right frameworks and uuids, required uuids) and
   the TransformFrameworkSteps that a JoinStep across two frameworks asks for, in the shape of harness/universe.export_plan.

   Mirrors, in pipeline order (mloda/core/...):
     components/validators/link_validator.py  LinkValidator.validate_links               LinkSel.validate_rejects
     prepare/resolve_links.py   ResolveLinks.go_through_each_child_and_its_parents_and_look_for_links,
                                _find_matching_links, create_link_trekker_key, set_link_trekker      matched, trek_pair, trek_child, trek_data
                                ResolveLinkValidator.validate_no_conflicting_join_types              conflicting_data
                                LinkTrekker.order_links_by_frameworks                                olbf, order_links_by_frameworks
                                LinkTrekker.drop_dependency_in_case_of_circular_dependencies         last_deps, adjust_order, drop_circular
                                LinkTrekker.order_ordered_ids_by_relation                            latest_pos, bump, reorder_step, reorder_rel
                                LinkTrekker.create_data_ordered (+ validate_data_consistency)        create_data_ordered
                                LinkTrekker.get_ordered_data                                         get_ordered_data
                                LinkTrekker.invert_link, get_position, insert_at_position            invert_link
                                ResolveLinks.add_links_to_queue                                      link_queue
     prepare/resolve_graph.py   convert_links_with_queue_to_features, combine_features_of_feature_group   planned_queue_L
     prepare/resolve_compute_frameworks.py
                                ResolveComputeFrameworks.links                                       rcf_group, rcf_links
                                access_link_by_child_uuid                                            trekked_of
                                resolve_trekked_links                                                rtl_step
                                trekker_right_left_adjuster                                          adjuster
                                order_queue_by_trekker_order (the postponed links)                   blocked, oq_step, order_queue
     prepare/joinstep_collection.py  JoinStepCollection.add / similar_dependent_joins_uuids          jc_required
     prepare/execution_plan.py  invert_link_trekker, retrieve_links_which_must_be_calculated_before  child_links, links_pre
                                run_feature_group / add_feature_group_step (PlannerA's steps + the link uuids)  mk_step_L, steps_of_group_L, pre_plan
                                reduce_children_to_one_level                                         reduce_children
                                find_feature_uuids                                                   find_feature_uuids
                                case_link_fw_is_equal_to_children_fw                                 solve_lr, is_valid
                                is_valid_join_step                                                   is_valid
                                run_link                                                             run_link
                                add_joinstep                                                         add_joinstep
                                fill_tfs_by_joinstep, add_tfs                                        join_tfs, same_cfw_join, fg_tfs_needed, add_tfs
                                _validate_required_uuids_are_produced, _validate_steps_do_not_wait_in_a_cycle   PlannerA.validate_A, runsim_accepts
     runtime (for the join semantics, Spec/PlannerLSpec.v):  CfwManager.get_cfw_uuid, find_leftmost, add_to_merge_relation,
                                ComputeFrameworkExecutor.prepare_execute_step / prepare_tfs_and_joinstep, JoinStep.execute    rt_*

   NOT modelled (the model answers LOutside; theorems and the correspondence are restricted accordingly):
     - Links whose two classes are equal (case_link_equal_feature_groups, self_left_alias / self_right_alias);
     - features with an index (feature.index; Engine._add_index_feature): consequently every APPEND / UNION link that reaches
       create_joinstep_in_case_of_append_or_union raises (e_appendunion) and handle_append_or_union_joinstep is the identity;
     - a TransformFrameworkStep between a feature-group step and a parent on another framework (add_tfs, second branch): the
       model reports that one is needed (fg_tfs_needed), as PlannerA does;
     - features whose compute_frameworks is not a singleton before planning (fcfw is THE framework).
   One aliasing fact is abstracted: link_trekker.data[k] and data_ordered[k] are the same set object for the keys created by
   go_through_each_child...; invert_link creates two different (equal) sets for the inverted key.  The model keeps data and
   data_ordered equal as contents; they could differ only after the SAME link is inverted twice.

   uuids: a Link carries its uuid (pl_uid); its JoinStep gets js_uid = uid + 1 and the TransformFrameworkStep made for it
   tfs_uid = uid + 2 (the harness spaces link uids by 4 above the feature uuids); step.uuid of FG steps = position (PlannerA).

   ORDER ORACLES.  As in PlannerA every iteration over a Python set whose order can reach the result is `ord site l`:
     site_links        iteration of Engine.links (_find_matching_links; one set object, one order)
     site_par c        parent_to_children_mapping[c] (both loops of go_through_each_child..., find_feature_uuids)
     site_kids u       children_uuids of link u in run_link (after reduce_children_to_one_level)
     site_suu i        FeatureGroupStep.get_uuids() of the i-th element of the plan (add_tfs)
     site_first grp    next(iter(features of the group)) in ResolveComputeFrameworks.links
     site_cfws u       next(iter(feature.compute_frameworks)) after resolve_trekked_links assigned a set
     site_issue u      the set of postponed links waiting for link u (order_queue_by_trekker_order)
     site_left1 u      next(iter(left_framework_uuids)) / next(iter(right_framework_uuids)) of the JoinStep at run time
   plus PlannerA's sites 0-3 inside run_feature_group.  Python dicts are lists in insertion order. *)
From Coq Require Import List Bool Arith String.
Import ListNotations.
Require Import MV.Model.Orch MV.Model.OrchCheck MV.Model.Grouping MV.Model.PlannerA MV.Model.LinkSel.
Open Scope nat_scope.

(* ---------- Links, trekker keys, Dict[LinkFrameworkTrekker, Set[UUID]] ---------- *)
Record plink := { pl_uid : nat; pl_l : link }.
Definition js_uid (u : nat) : nat := S u.
Definition tfs_uid (u : nat) : nat := S (S u).

Definition lkey := (nat * (nat * nat))%type.          (* (link.uuid, (left framework, right framework)) *)
Definition k_uid (k : lkey) : nat := fst k.
Definition k_l (k : lkey) : nat := fst (snd k).
Definition k_r (k : lkey) : nat := snd (snd k).
Definition key_eqb (a b : lkey) : bool :=
  Nat.eqb (k_uid a) (k_uid b) && Nat.eqb (k_l a) (k_l b) && Nat.eqb (k_r a) (k_r b).
Definition k_inv (k : lkey) : lkey := (k_uid k, (k_r k, k_l k)).

Definition tdata := list (lkey * list nat).
Fixpoint tget (k : lkey) (d : tdata) : option (list nat) :=
  match d with [] => None | (k', v) :: t => if key_eqb k k' then Some v else tget k t end.
Definition tget0 (k : lkey) (d : tdata) : list nat := match tget k d with Some v => v | None => [] end.
Definition thas (k : lkey) (d : tdata) : bool := match tget k d with Some _ => true | None => false end.
(* d[k].add(x) on a defaultdict(set) *)
Fixpoint tadd (k : lkey) (x : nat) (d : tdata) : tdata :=
  match d with
  | [] => [(k, [x])]
  | (k', v) :: t => if key_eqb k k' then (k', set_add x v) :: t else (k', v) :: tadd k x t
  end.
(* d[k] = v *)
Fixpoint tset (k : lkey) (v : list nat) (d : tdata) : tdata :=
  match d with
  | [] => [(k, v)]
  | (k', v') :: t => if key_eqb k k' then (k', v) :: t else (k', v') :: tset k v t
  end.
Definition tkeys (d : tdata) : list lkey := map fst d.
(* d[k].remove(x); if len(d[k]) == 0: del d[k] *)
Definition tremove (k : lkey) (x : nat) (d : tdata) : tdata :=
  flat_map (fun kv => if key_eqb k (fst kv)
                      then match filter (fun y => negb (Nat.eqb y x)) (snd kv) with [] => [] | v => [(fst kv, v)] end
                      else [kv]) d.
Fixpoint tpos (k : lkey) (d : tdata) : option nat :=
  match d with [] => None | (k', _) :: t => if key_eqb k k' then Some 0 else option_map S (tpos k t) end.
Definition tinsert_at (pos : nat) (kv : lkey * list nat) (d : tdata) : tdata := firstn pos d ++ kv :: skipn pos d.

Definition enumerate {A} (l : list A) : list (nat * A) := combine (seq 0 (List.length l)) l.
(* m[k] = v on a dict *)
Fixpoint aset (k : nat) (v : list nat) (m : amap) : amap :=
  match m with [] => [(k, v)] | (k', v') :: t => if Nat.eqb k k' then (k', v) :: t else (k', v') :: aset k v t end.
(* m[k].remove(x) when present *)
Fixpoint aremove (k x : nat) (m : amap) : amap :=
  match m with
  | [] => []
  | (k', v) :: t => if Nat.eqb k k' then (k', filter (fun y => negb (Nat.eqb y x)) v) :: t else (k', v) :: aremove k x t
  end.

Inductive res (A : Type) := Ok (a : A) | Err (code : nat).
Arguments Ok {A} a.
Arguments Err {A} code.

(* what prepare raised (harness: exception class + message) *)
Definition e_links : nat := 10.        (* LinkValidator.validate_links: ValueError, one of its three rules *)
Definition e_conflict : nat := 11.     (* Exception 'Conflicting join types' (validate_no_conflicting_join_types) *)
Definition e_nocfw : nat := 12.        (* ValueError 'No new compute frameworks have been found.' *)
Definition e_nochildren : nat := 13.   (* ValueError 'Link ... has no matching uuids.' *)
Definition e_keyerror : nat := 14.     (* KeyError in reduce_children_to_one_level (set.remove of an element removed before) *)
Definition e_right : nat := 15.        (* Exception 'Right joins are not supported for equal or polymorphic feature groups' *)
Definition e_ambiguous : nat := 16.    (* ValueError 'There are more than one solution for the join' *)
Definition e_appendunion : nat := 17.  (* ValueError 'Are the indexes for the append or union set correctly?' *)
Definition e_internal : nat := 18.     (* the other ValueErrors ('Link not found in data', 'Data and data_ordered ...', get_position) *)
Definition e_outside : nat := 19.      (* not an exception: the request leaves the modelled fragment (self link) *)
Definition e_incomplete : nat := 1.    (* ValueError 'Execution plan is incomplete' *)
Definition e_cycle : nat := 2.         (* ValueError '... wait for each other in a cycle ...' *)

(* ---------- order-oracle sites ---------- *)
Definition site_links : nat := 10.
Definition site_par (c : nat) : nat := 16 + 8 * c.
Definition site_kids (u : nat) : nat := 17 + 8 * u.
Definition site_suu (i : nat) : nat := 18 + 8 * i.
Definition site_first (grp : nat) : nat := 19 + 8 * grp.
Definition site_cfws (u : nat) : nat := 20 + 8 * u.
Definition site_issue (u : nat) : nat := 21 + 8 * u.
Definition site_left1 (u : nat) : nat := 22 + 8 * u.

(* ---------- the plan ---------- *)
Inductive lstep :=
  | LFG (s : step) (grp cfw : nat) (cir tfs : list nat) (any : nat)
      (* FeatureGroupStep: class, compute_framework, children_if_root, tfs_ids, features.any_uuid *)
  | LJOIN (s : step) (uid : nat) (lcfw rcfw : nat) (lus rus : list nat)
      (* JoinStep: link.uuid, left_framework, right_framework, left_framework_uuids, right_framework_uuids *)
  | LTFS (s : step) (fromc toc fromg tog : nat) (lnk : option nat).
      (* TransformFrameworkStep: from/to framework, from/to feature group, link_id *)
Definition core (x : lstep) : step :=
  match x with LFG s _ _ _ _ _ => s | LJOIN s _ _ _ _ _ => s | LTFS s _ _ _ _ _ => s end.
Definition set_core (s : step) (x : lstep) : lstep :=
  match x with
  | LFG _ a b c d e => LFG s a b c d e
  | LJOIN _ a b c d e => LJOIN s a b c d e
  | LTFS _ a b c d e => LTFS s a b c d e
  end.
Definition set_req (r : list nat) (s : step) : step :=
  {| sid := sid s; skind := skind s; uuids := uuids s; req := r; requested := requested s |}.
Fixpoint number_L (i : nat) (p : list lstep) : list lstep :=
  match p with [] => [] | x :: t => set_core (set_sid i (core x)) x :: number_L (S i) t end.

Inductive qitem := QF (u : nat) | QL (k : lkey).
Inductive pitem := PG (grp : nat) (ms : list nat) | PL (k : lkey).
Inductive xitem := XS (s : lstep) | XL (k : lkey).

Record trek := { t_data : tdata; t_dor : tdata; t_order : amap }.
Definition cfwmap := amap.                              (* feature uuid -> compute_frameworks assigned by ResolveComputeFrameworks *)
Definition jcoll := list (nat * (nat * nat)).           (* JoinStepCollection.collection keys: (link uuid, (left fw, right fw)) *)

Inductive lresult :=
  | LPlanned (p : list lstep)
  | LRejected (code : nat) (p : list lstep)             (* p: the plan at the time of the validation error, else [] *)
  | LOutside.

Section Model.
  Variable ord : oparam.
  Variable g : fgraph.
  Variable mro : cls -> list cls.
  Variable links : list plink.

  Definition plink_of (u : nat) : option plink := find (fun l => Nat.eqb (pl_uid l) u) links.
  Definition jt_of (u : nat) : jointype := match plink_of u with Some l => jt (pl_l l) | None => INNER end.
  Definition lfg_of (u : nat) : cls := match plink_of u with Some l => lfg (pl_l l) | None => 0 end.
  Definition rfg_of (u : nat) : cls := match plink_of u with Some l => rfg (pl_l l) | None => 0 end.

  (* ---------- ResolveLinks.go_through_each_child_and_its_parents_and_look_for_links ---------- *)
  (* list(self.links) *)
  Definition links_iter : list plink :=
    flat_map (fun u => match plink_of u with Some l => [l] | None => [] end) (ord site_links (map pl_uid links)).
  (* _find_matching_links(left_fg, right_fg): a sub-list of list(self.links) (links of a set are pairwise unequal) *)
  Definition matched (lf rf : cls) : list plink :=
    let ms := find_matching mro (map pl_l links_iter) lf rf in
    filter (fun pl => existsb (link_eqb (pl_l pl)) ms) links_iter.
  Definition trek_pair (child pin pout : nat) (d : tdata) : tdata :=
    if Nat.eqb pin pout then d
    else fold_left (fun d' ml => tadd (pl_uid ml, (cfw_of g pin, cfw_of g pout)) child d')
                   (matched (grp_of g pin) (grp_of g pout)) d.
  Definition trek_child (d : tdata) (kv : nat * list nat) : tdata :=
    let ps := ord (site_par (fst kv)) (snd kv) in
    fold_left (fun d1 pin => fold_left (fun d2 pout => trek_pair (fst kv) pin pout d2) ps d1) ps d.
  Definition trek_data : tdata :=
    match links with [] => [] | _ :: _ => fold_left trek_child (p2c_of g) [] end.

  (* ---------- ResolveLinkValidator.validate_no_conflicting_join_types ---------- *)
  Definition conflicting_data (d : tdata) : bool :=
    existsb (fun k => existsb (fun k' => Nat.eqb (lfg_of (k_uid k)) (lfg_of (k_uid k')) && Nat.eqb (rfg_of (k_uid k)) (rfg_of (k_uid k'))
                                         && negb (jt_eqb (jt_of (k_uid k)) (jt_of (k_uid k')))) (tkeys d)) (tkeys d).

  (* ---------- LinkTrekker.order_links_by_frameworks (self.order persists between the calls) ---------- *)
  Definition olbf (d : tdata) (order : amap) : amap :=
    fold_left (fun o k => fold_left (fun o' k' =>
        if Nat.eqb (k_uid k) (k_uid k') then o'
        else if Nat.eqb (k_r k) (k_l k') && Nat.eqb (k_l k') (k_l k) then o'
        else if Nat.eqb (k_r k) (k_l k') then aadd (k_uid k') (k_uid k) o' else o') (tkeys d) o) (tkeys d) order.

  (* adjust_order: found_out / found_in = the LAST entry of data whose link has that uuid *)
  Definition last_deps (d : tdata) (u : nat) : option (list nat) :=
    fold_left (fun acc kv => if Nat.eqb (k_uid (fst kv)) u then Some (snd kv) else acc) d None.
  Definition adjust_order (d : tdata) (order : amap) (kout kin : nat) : option amap :=
    match last_deps d kout, last_deps d kin with
    | Some dout, Some din =>
        if Nat.leb (List.length din) (List.length dout) then Some (aremove kin kout order) else Some (aremove kout kin order)
    | _, _ => None
    end.
  Definition drop_circular (d : tdata) (order : amap) : option amap :=
    fold_left (fun acc kout => fold_left (fun acc' kin =>
        match acc' with
        | None => None
        | Some o => if Nat.eqb kout kin then Some o
                    else if mem kout (aget0 kin o) && mem kin (aget0 kout o) then adjust_order d o kout kin else Some o
        end) (map fst order) acc) (map fst order) (Some order).
  Definition order_links_by_frameworks (d : tdata) (order : amap) : option amap := drop_circular d (olbf d order).

  (* ---------- LinkTrekker.order_ordered_ids_by_relation ---------- *)
  Definition pmark := list (nat * (nat * list nat)).          (* pos_marker: position -> (uuid, set) *)
  Definition pm_has (i : nat) (m : pmark) : bool := existsb (fun e => Nat.eqb (fst e) i) m.
  Definition pm_get (i : nat) (m : pmark) : option (nat * list nat) :=
    match find (fun e => Nat.eqb (fst e) i) m with Some e => Some (snd e) | None => None end.
  Definition pm_set (i : nat) (v : nat * list nat) (m : pmark) : pmark :=
    if pm_has i m then map (fun e => if Nat.eqb (fst e) i then (i, v) else e) m else m ++ [(i, v)].
  Definition latest_pos (order : amap) (opos ou : nat) : option nat :=
    fold_left (fun acc ie => if Nat.leb (fst ie) opos then acc else if mem ou (snd (snd ie)) then Some (fst ie) else acc)
              (enumerate order) None.
  (* if latest_position in pos_marker: for i in range(latest_position, len(pos_marker)): if i not in pos_marker:
         latest_position = i + latest_position; break *)
  Definition bump (m : pmark) (latest : nat) : nat :=
    if pm_has latest m then
      match find (fun i => negb (pm_has i m)) (seq latest (List.length m - latest)) with Some i => i + latest | None => latest end
    else latest.
  Definition reorder_step (order : amap) (st : amap * pmark) (oe : nat * (nat * list nat)) : amap * pmark :=
    match latest_pos order (fst oe) (fst (snd oe)) with
    | None => (fst st ++ [snd oe], snd st)
    | Some lp => (fst st, pm_set (bump (snd st) lp) (snd oe) (snd st))
    end.
  Definition reorder_rel (order : amap) : amap :=
    let st := fold_left (reorder_step order) (enumerate order) ([], []) in
    match snd st with
    | [] => order
    | m => fst st ++ flat_map (fun i => match pm_get i m with Some v => [v] | None => [] end)
                              (seq 0 (S (fold_left Nat.max (map fst m) 0)))
    end.

  (* ---------- LinkTrekker.create_data_ordered ---------- *)
  Definition create_data_ordered (d dor : tdata) (order : amap) : tdata :=
    let s1 := fold_left (fun acc oid => fold_left (fun acc' kv => if Nat.eqb (k_uid (fst kv)) oid then tset (fst kv) (snd kv) acc' else acc')
                                                  d acc) (map fst order) dor in
    fold_left (fun acc kv => if thas (fst kv) acc then acc else acc ++ [kv]) d s1.

  Definition get_ordered_data (t : trek) : res trek :=
    match order_links_by_frameworks (t_data t) (t_order t) with
    | None => Err e_internal
    | Some o1 =>
      let o2 := reorder_rel o1 in
      let dor := create_data_ordered (t_data t) (t_dor t) o2 in
      if Nat.eqb (List.length dor) (List.length (t_data t)) then Ok {| t_data := t_data t; t_dor := dor; t_order := o2 |}
      else Err e_internal
    end.

  (* ---------- ResolveLinks.add_links_to_queue ---------- *)
  Definition link_queue (queue : list nat) (dor : tdata) : list qitem :=
    snd (fold_left (fun st u =>
           let st' := fold_left (fun s kv => if existsb (key_eqb (fst kv)) (fst s) then s
                                             else if mem u (snd kv) then (fst s ++ [fst kv], snd s ++ [QL (fst kv)]) else s) dor st in
           (fst st', snd st' ++ [QF u])) queue ([], [])).

  (* ---------- ResolveGraph.convert_links_with_queue_to_features / combine_features_of_feature_group ---------- *)
  Definition planned_queue_L (q : list nat) (lq : list qitem) : list pitem :=
    snd (fold_left (fun st it =>
           match it with
           | QL k => (fst st, snd st ++ [PL k])
           | QF u => if mem u (fst st) then st
                     else let ms := members g q (grp_of g u) in (fst st ++ ms, snd st ++ [PG (grp_of g u) ms])
           end) lq ([], [])).

  (* ---------- ResolveComputeFrameworks ---------- *)
  Definition cfws_of (cm : cfwmap) (u : nat) : list nat := match aget u cm with Some l => l | None => [cfw_of g u] end.
  (* feature.get_compute_framework() = next(iter(self.compute_frameworks)) *)
  Definition cfw_now (cm : cfwmap) (u : nat) : nat := hd 0 (ord (site_cfws u) (cfws_of cm u)).

  (* access_link_by_child_uuid *)
  Definition trekked_of (t : trek) (u : nat) : list lkey := map fst (filter (fun kv => mem u (snd kv)) (t_dor t)).

  (* resolve_trekked_links: (new_cfws, to_invert_trekker_collection) *)
  Definition rtl_step (cfws : list nat) (st : list nat * list lkey) (k : lkey) : list nat * list lkey :=
    match jt_of (k_uid k) with
    | RIGHT => if mem (k_r k) cfws then (set_add (k_r k) (fst st), snd st)
               else if mem (k_l k) cfws then (set_add (k_r k) (fst st), snd st ++ [k]) else st
    | _ => if mem (k_l k) cfws then (set_add (k_l k) (fst st), snd st)
           else if mem (k_r k) cfws then (set_add (k_r k) (fst st), snd st ++ [k]) else st
    end.

  (* LinkTrekker.invert_link *)
  Definition invert_link (t : trek) (k : lkey) (u : nat) : res trek :=
    let k' := k_inv k in
    let dor1 := if thas k' (t_dor t) then Some (tadd k' u (t_dor t))
                else match tpos k (t_dor t) with Some p => Some (tinsert_at (S p) (k', [u]) (t_dor t)) | None => None end in
    match dor1 with
    | None => Err e_internal
    | Some d1 => Ok {| t_data := tremove k u (tadd k' u (t_data t)); t_dor := tremove k u d1; t_order := t_order t |}
    end.

  (* trekker_right_left_adjuster *)
  Definition adjuster (t : trek) (inv : list lkey) (feats : list nat) : res trek :=
    fold_left (fun rt k =>
      match rt with
      | Err e => Err e
      | Ok t1 => fold_left (fun rt2 u => match rt2 with
                                         | Err e => Err e
                                         | Ok t2 => if mem u feats then invert_link t2 k u else Ok t2
                                         end) (tget0 k (t_dor t1)) (Ok t1)
      end) inv (Ok t).

  Definition rcf_group (st : res (trek * cfwmap)) (it : pitem) : res (trek * cfwmap) :=
    match st, it with
    | Err e, _ => Err e
    | Ok s, PL _ => Ok s
    | Ok (t, cm), PG grp ms =>
      match ord (site_first grp) ms with
      | [] => Ok (t, cm)
      | f0 :: _ =>
        match trekked_of t f0 with
        | [] => Ok (t, cm)
        | trekked =>
          let r := fold_left (rtl_step (cfws_of cm f0)) trekked ([], []) in
          match fst r with
          | [] => Err e_nocfw
          | new =>
            let cm' := fold_left (fun c u => aset u new c) ms cm in
            match snd r with
            | [] => Ok (t, cm')
            | inv => match adjuster t inv ms with Err e => Err e | Ok t' => Ok (t', cm') end
            end
          end
        end
      end
    end.

  (* order_queue_by_trekker_order *)
  Definition blocked (orders : amap) (added : list nat) (u : nat) : option nat :=
    match find (fun kv => mem u (snd kv) && negb (mem (fst kv) added)) orders with Some kv => Some (fst kv) | None => None end.
  Definition issues := list (nat * list lkey).
  Fixpoint iadd (b : nat) (k : lkey) (iss : issues) : issues :=
    match iss with
    | [] => [(b, [k])]
    | (b', ks) :: t => if Nat.eqb b b' then (b', if existsb (key_eqb k) ks then ks else ks ++ [k]) :: t else (b', ks) :: iadd b k t
    end.
  (* iteration order of a set of trekker keys: by the oracle on the link uuids *)
  Definition ordk (site : nat) (ks : list lkey) : list lkey :=
    flat_map (fun u => filter (fun k => Nat.eqb (k_uid k) u) ks) (dedupe (ord site (map k_uid ks))).
  Definition oq_step (orders : amap) (st : list pitem * list nat * issues) (p : pitem) : list pitem * list nat * issues :=
    match st with
    | (new, added, iss) =>
      match p with
      | PG _ _ => (new ++ [p], added, iss)
      | PL k =>
        match blocked orders added (k_uid k) with
        | Some b => (new, added, iadd b k iss)
        | None =>
          let r := fold_left (fun s e =>
                     if Nat.eqb (k_uid k) (fst e)
                     then fold_left (fun s' dk => match blocked orders (snd s') (k_uid dk) with
                                                  | Some _ => s'
                                                  | None => (fst s' ++ [PL dk], set_add (k_uid dk) (snd s'))
                                                  end) (ordk (site_issue (fst e)) (snd e)) s
                     else s) iss (new ++ [p], set_add (k_uid k) added) in
          (fst r, snd r, iss)
        end
      end
    end.
  Definition order_queue (orders : amap) (pq : list pitem) : list pitem :=
    fst (fst (fold_left (oq_step orders) pq ([], [], []))).

  (* ResolveComputeFrameworks.links: (planned queue, link trekker, compute frameworks of the features) *)
  Definition rcf_links (pq : list pitem) (t : trek) : res (list pitem * trek * cfwmap) :=
    match fold_left rcf_group pq (Ok (t, [])) with
    | Err e => Err e
    | Ok (t1, cm) =>
      match order_links_by_frameworks (t_data t1) (t_order t1) with
      | None => Err e_internal
      | Some o => Ok (order_queue o pq, {| t_data := t_data t1; t_dor := t_dor t1; t_order := o |}, cm)
      end
    end.

  (* ---------- ExecutionPlan.add_feature_group_step ---------- *)
  Definition cl : amap := p2c_of g.
  (* invert_link_trekker + retrieve_links_which_must_be_calculated_before *)
  Definition child_links (d : tdata) (u : nat) : list nat :=
    dedupe (map (fun kv => k_uid (fst kv)) (filter (fun kv => mem u (snd kv)) d)).
  Definition links_pre (d : tdata) (ms : list nat) : list nat := fold_left (fun acc u => set_union acc (child_links d u)) ms [].

  (* base_similarity_properties: default options; the frameworks are the feature's own or the set assigned to the whole
     class by ResolveComputeFrameworks.links *)
  Definition item_L (cm : cfwmap) (u : nat) : item :=
    {| it_id := u; it_kb := match aget u cm with Some _ => 0 | None => cfw_of g u end; it_ty := None |}.
  Definition levels_of_group_L (cm : cfwmap) (ms : list nat) : list (list (list nat) * bool) :=
    map (fun its => split_levels (fun u => aget0 u cl) (ord 1 (map it_id its)))
        (group_items (map (item_L cm) (ord 0 ms))).
  Definition mk_step_L (cm : cfwmap) (pre : list nat) (grp : nat) (lvl : list nat) : lstep :=
    let us := ord 2 lvl in
    LFG {| sid := 0; skind := KFG; uuids := us; req := ord 3 (set_union (req_of_level cl lvl) pre);
           requested := existsb (isreq g) lvl |}
        grp (cfw_now cm (hd 0 us)) (cir_of cl us) [] (hd 0 us).
  Definition steps_of_group_L (cm : cfwmap) (pre : list nat) (grp : nat) (ms : list nat) : list lstep :=
    flat_map (fun lv => map (mk_step_L cm pre grp) (fst lv)) (levels_of_group_L cm ms).
  Definition pre_plan (cm : cfwmap) (d : tdata) (pq : list pitem) : list xitem :=
    flat_map (fun it => match it with
                        | PL k => [XL k]
                        | PG grp ms => map XS (steps_of_group_L cm (links_pre d ms) grp ms)
                        end) pq.
  (* self.feature_set_collections *)
  Definition fsc_of (pp : list xitem) : list (list nat) :=
    flat_map (fun x => match x with XS (LFG s _ _ _ _ _) => [uuids s] | _ => [] end) pp.

  (* ---------- ExecutionPlan.run_link ---------- *)
  (* reduce_children_to_one_level; None = KeyError (set.remove of an element that was removed before) *)
  Definition reduce_children (cs : list nat) : option (list nat) :=
    fold_left (fun acc c => fold_left (fun acc' coc =>
        match acc' with
        | None => None
        | Some l => if mem coc cs then (if mem coc l then Some (filter (fun y => negb (Nat.eqb y coc)) l) else None) else Some l
        end) (children g c) acc) cs (Some cs).

  (* m[p].update(fu) on a defaultdict(set) *)
  Fixpoint aunion (k : nat) (xs : list nat) (m : amap) : amap :=
    match m with
    | [] => [(k, dedupe xs)]
    | (k', v) :: t => if Nat.eqb k k' then (k', set_union v xs) :: t else (k', v) :: aunion k xs t
    end.
  Definition find_feature_uuids (parents : list nat) (fsc : list (list nat)) : amap :=
    snd (fold_left (fun st p =>
           if mem p (fst st) then st
           else fold_left (fun st' fu => if mem p fu then (set_union (fst st') fu, aunion p fu (snd st')) else st') fsc st)
         parents ([], [])).

  (* the double loop of case_link_fw_is_equal_to_children_fw: (unique_solution_counter, (left_uuids, right_uuids)) *)
  Definition solve_lr (cm : cfwmap) (k : lkey) (lnk : link) (fscpu : amap) : nat * option (list nat * list nat) :=
    fold_left (fun st e =>
      if negb (Nat.eqb (k_l k) (cfw_now cm (fst e))) then st
      else if negb (issub mro (grp_of g (fst e)) (lfg lnk)) then st
      else fold_left (fun st' e' =>
             if Nat.eqb (fst e) (fst e') then st'
             else if negb (Nat.eqb (k_r k) (cfw_now cm (fst e'))) then st'
             else if negb (issub mro (grp_of g (fst e')) (rfg lnk)) then st'
             else match snd st' with
                  | None => (S (fst st'), Some (snd e, snd e'))
                  | Some (l0, r0) => if set_eqb l0 (snd e) && set_eqb r0 (snd e') then st' else (S (fst st'), snd st')
                  end) fscpu st) fscpu (0, None).

  Inductive vres := VFalse | VTrue | VPair (l r : list nat) | VErr (e : nat).
  (* is_valid_join_step *)
  Definition is_valid (cm : cfwmap) (fsc : list (list nat)) (k : lkey) (lnk : link) (child : nat) : vres :=
    if Nat.eqb (lfg lnk) (rfg lnk) then VErr e_outside
    else if Nat.eqb (k_l k) (cfw_now cm child) then
      match jt lnk with
      | RIGHT => VErr e_right
      | _ =>
        match find_feature_uuids (ord (site_par child) (aget0 child cl)) fsc with
        | [] => VErr e_internal
        | fscpu =>
          match solve_lr cm k lnk fscpu with
          | (1, Some (l, r)) => VPair l r
          | (0, _) => VFalse
          | _ => VErr e_ambiguous
          end
        end
      end
    else VTrue.

  (* JoinStepCollection.similar_dependent_joins_uuids *)
  Definition jc_required (jc : jcoll) (lf rf : nat) : list nat :=
    fold_left (fun acc e => let l := fst (snd e) in let r := snd (snd e) in
                 if Nat.eqb l lf || Nat.eqb r lf || Nat.eqb l rf || Nat.eqb r rf
                 then set_union acc [js_uid (fst e); fst e] else acc) jc [].

  Definition is_set_jt (j : jointype) : bool := match j with APPEND | UNION => true | _ => false end.

  (* run_link: Ok None = the join is dropped (is_valid_join_step returned False) *)
  Definition run_link (cm : cfwmap) (t : trek) (fsc : list (list nat)) (k : lkey) : res (option lstep) :=
    match plink_of (k_uid k) with
    | None => Err e_internal
    | Some pl =>
      let lnk := pl_l pl in
      let direct := tget0 k (t_data t) in
      let lf := match direct with [] => k_r k | _ :: _ => if jt_eqb (jt lnk) RIGHT then k_r k else k_l k end in
      let rf := match direct with [] => k_l k | _ :: _ => if jt_eqb (jt lnk) RIGHT then k_l k else k_r k end in
      let cs := match direct with [] => tget0 (k_inv k) (t_data t) | _ :: _ => direct end in
      match cs with
      | [] => Err e_nochildren
      | _ :: _ =>
        match reduce_children cs with
        | None => Err e_keyerror
        | Some cs1 =>
          let cs2 := ord (site_kids (k_uid k)) cs1 in
          let req0 := fold_left (fun acc c => set_union acc (aget0 c cl)) cs2 [] in
          let left0 := filter (fun u => Nat.eqb (cfw_now cm u) lf) req0 in
          let right0 := filter (fun u => Nat.eqb (cfw_now cm u) rf) req0 in
          let req1 := fold_left (fun acc kv => if mem (k_uid k) (snd kv) then set_add (fst kv) acc else acc) (t_order t) req0 in
          let r := fold_left (fun st c =>
                     match st with
                     | inl lr => match is_valid cm fsc k lnk c with
                                 | VFalse => inr None
                                 | VTrue => inl lr
                                 | VPair l' r' => inl (l', r')
                                 | VErr e => inr (Some e)
                                 end
                     | inr x => inr x
                     end) cs2 (inl (left0, right0)) in
          match r with
          | inr None => Ok None
          | inr (Some e) => Err e
          | inl (l, r') =>
            if is_set_jt (jt lnk) then Err e_appendunion
            else Ok (Some (LJOIN {| sid := 0; skind := KJOIN; uuids := [js_uid (k_uid k); k_uid k]; req := req1; requested := false |}
                                 (k_uid k) lf rf l r'))
          end
        end
      end
    end.

  (* add_joinstep: (plan, JoinStepCollection in insertion order with the required join uuids of each entry) *)
  Definition add_joinstep (cm : cfwmap) (t : trek) (pp : list xitem) : res (list lstep * list (nat * list nat)) :=
    let fsc := fsc_of pp in
    match fold_left (fun st x =>
            match st with
            | Err e => Err e
            | Ok (out, jc, jr) =>
              match x with
              | XS s => Ok (out ++ [s], jc, jr)
              | XL k =>
                match run_link cm t fsc k with
                | Err e => Err e
                | Ok None => Ok (out, jc, jr)
                | Ok (Some js) =>
                  match js with
                  | LJOIN _ uid lf rf _ _ => Ok (out ++ [js], jc ++ [(uid, (lf, rf))], jr ++ [(uid, jc_required jc lf rf)])
                  | _ => Ok (out ++ [js], jc, jr)
                  end
                end
              end
            end) pp (Ok ([], [], [])) with
    | Err e => Err e
    | Ok (out, _, jr) => Ok (out, jr)
    end.

  (* ---------- ExecutionPlan.add_tfs ---------- *)
  (* for uuid in inner_ep.get_uuids(): if uuid in right: (children_if_root += link; break); if uuid in left: store_val = uuid *)
  Fixpoint scan_uuids (us lus rus : list nat) (sv : option nat) : option nat * bool :=
    match us with
    | [] => (sv, false)
    | u :: t => if mem u rus then (sv, true) else scan_uuids t lus rus (if mem u lus then Some u else sv)
    end.
  (* JoinStep with left_framework == right_framework: the loop over all steps of the plan *)
  Definition same_cfw_join (uid : nat) (lus rus : list nat) (cur : list lstep) : list lstep :=
    snd (fold_left (fun st ie =>
           match snd ie with
           | LFG s grp cfw cir tfs any =>
             let r := scan_uuids (ord (site_suu (fst ie)) (uuids s)) lus rus (fst st) in
             let cir' := if snd r then set_add uid cir else cir in
             match fst r with
             | None => (None, snd st ++ [LFG s grp cfw cir' tfs any])
             | Some v => if existsb (fun e => mem e (req s)) lus && existsb (fun e => mem e (req s)) rus
                         then (Some v, snd st ++ [LFG s grp cfw cir' [v] v])
                         else (Some v, snd st ++ [LFG s grp cfw cir' tfs any])
             end
           | x => (fst st, snd st ++ [x])
           end) (enumerate cur) (None, [])).

  Definition tfs_key := (nat * nat * (nat * nat))%type.        (* TransformFrameworkStep.__eq__: from fw, to fw, from fg, to fg *)
  Definition tfs_key_eqb (a b : tfs_key) : bool :=
    Nat.eqb (fst (fst a)) (fst (fst b)) && Nat.eqb (snd (fst a)) (snd (fst b))
    && Nat.eqb (fst (snd a)) (fst (snd b)) && Nat.eqb (snd (snd a)) (snd (snd b)).
  (* fill_tfs_by_joinstep *)
  Definition join_tfs_key (uid lf rf : nat) : tfs_key :=
    match jt_of uid with
    | RIGHT => (rf, lf, (lfg_of uid, rfg_of uid))
    | _ => (rf, lf, (rfg_of uid, lfg_of uid))
    end.

  (* the second branch of add_tfs for a FeatureGroupStep: would a TransformFrameworkStep be created? *)
  Definition fg_tfs_needed (cm : cfwmap) (cur : list lstep) (cfw any : nat) : bool :=
    let parents := aget0 any cl in
    let pp := flat_map (fun p => aget0 p cl) parents in
    existsb (fun p =>
      negb (existsb (fun x => match x with
                              | LJOIN s _ lf rf _ _ => mem p (req s) && (Nat.eqb cfw lf || Nat.eqb cfw rf)
                              | _ => false
                              end) cur)
      && negb (mem p pp) && negb (Nat.eqb cfw (cfw_now cm p))) parents.

  Fixpoint replace_nth {A} (n : nat) (x : A) (l : list A) : list A :=
    match l, n with
    | [], _ => []
    | _ :: t, 0 => x :: t
    | y :: t, S n' => y :: replace_nth n' x t
    end.

  (* state: current plan (the step objects, mutated in place), tfs_collecion, the TFS steps created (inserted before position i),
     outside = a feature-group TransformFrameworkStep would be needed *)
  Definition add_tfs (cm : cfwmap) (jr : list (nat * list nat)) (plan0 : list lstep) : list lstep * bool :=
    let st := fold_left (fun st i =>
      match st with
      | (cur, tc, ins, outside) =>
        match nth_error cur i with
        | Some (LJOIN s uid lf rf lus rus) =>
          if Nat.eqb lf rf then (same_cfw_join uid lus rus cur, tc, ins, outside)
          else
            let key := join_tfs_key uid lf rf in
            let fresh := negb (existsb (tfs_key_eqb key) tc) in
            let t := LTFS {| sid := 0; skind := KTFS; uuids := [tfs_uid uid]; req := req s; requested := false |}
                          (fst (fst key)) (snd (fst key)) (fst (snd key)) (snd (snd key)) (Some uid) in
            let req1 := if fresh then set_add (tfs_uid uid) (req s) else req s in
            let req2 := set_union req1 (aget0 uid jr) in
            (replace_nth i (LJOIN (set_req req2 s) uid lf rf lus rus) cur,
             if fresh then tc ++ [key] else tc, if fresh then ins ++ [(i, t)] else ins, outside)
        | Some (LFG s grp cfw cir tfs any) =>
          (cur, tc, ins, match uuids s with [] => outside | _ :: _ => outside || fg_tfs_needed cm cur cfw any end)
        | _ => st
        end
      end) (seq 0 (List.length plan0)) (plan0, [], [], false) in
    match st with
    | (cur, _, ins, outside) =>
      (flat_map (fun ie => map snd (filter (fun it => Nat.eqb (fst it) (fst ie)) ins) ++ [snd ie]) (enumerate cur), outside)
    end.

  (* ---------- the pipeline ---------- *)
  Record stages := {
    st_data0 : tdata;               (* link_trekker.data after resolve_links *)
    st_trek0 : trek;                (* the trekker after get_ordered_data *)
    st_lq : list qitem;             (* ResolveLinks.add_links_to_queue *)
    st_pq0 : list pitem;            (* ResolveGraph.resolve_links *)
    st_pq1 : list pitem;            (* ResolveComputeFrameworks.links *)
    st_trek1 : trek;
    st_cm : cfwmap;
    st_raw : list lstep             (* the execution plan before numbering / validation *)
  }.

  Definition no_self_link : bool := forallb (fun pl => negb (Nat.eqb (lfg (pl_l pl)) (rfg (pl_l pl)))) links.

  Definition stages_L : res (stages * bool) :=
    if validate_rejects (map pl_l links) then Err e_links
    else if negb no_self_link then Err e_outside
    else
      let d0 := trek_data in
      if conflicting_data d0 then Err e_conflict
      else match get_ordered_data {| t_data := d0; t_dor := []; t_order := [] |} with
      | Err e => Err e
      | Ok t0 =>
        let q := queue_of g in
        let lq := link_queue q (t_dor t0) in
        let pq0 := planned_queue_L q lq in
        match rcf_links pq0 t0 with
        | Err e => Err e
        | Ok (pq1, t1, cm) =>
          let pp := pre_plan cm (t_data t1) pq1 in
          match add_joinstep cm t1 pp with
          | Err e => Err e
          | Ok (fw, jr) =>
            let r := add_tfs cm jr fw in
            Ok ({| st_data0 := d0; st_trek0 := t0; st_lq := lq; st_pq0 := pq0; st_pq1 := pq1; st_trek1 := t1; st_cm := cm;
                   st_raw := fst r |}, snd r)
          end
        end
      end.

  Definition plan_of_L (s : stages) : list lstep := number_L 0 (st_raw s).

  Definition prepare_L : lresult :=
    match stages_L with
    | Err e => if Nat.eqb e e_outside then LOutside else LRejected e []
    | Ok (s, outside) =>
      if outside then LOutside
      else
        let p := plan_of_L s in
        let cp := map core p in
        if negb (validate_A cp) then LRejected e_incomplete p
        else if runsim_accepts cp then LPlanned p else LRejected e_cycle p
    end.
End Model.

(* the hierarchy of the generated universes: every class is a direct subclass of FeatureGroup *)
Definition mro_flat : cls -> list cls := fun c => [c].

(* ---------- an order oracle given by a finite table (the orders observed on the real planner) ---------- *)
Definition otab := list (nat * list nat).
Definition is_perm_of (o l : list nat) : bool :=
  Nat.eqb (List.length o) (List.length l) && nodupb o && nodupb l && subset o l.
Definition ord_tab (t : otab) : oparam :=
  fun site l => match aget site t with Some o => if is_perm_of o l then o else l | None => l end.

(* ---------- checkers for the correspondence harness (harness/planner_l.py) ---------- *)
(* the oracle of a case: entries (site, observed order); the first entry of the site that is a permutation of the set asked
   about answers (several sets are iterated at PlannerA's sites 0-3) *)
Definition ord_obs (t : otab) : oparam :=
  fun site l => match find (fun e => Nat.eqb (fst e) site && is_perm_of (snd e) l) t with Some e => snd e | None => l end.

Definition tdata_eqb (a b : tdata) : bool :=
  Nat.eqb (List.length a) (List.length b)
  && forallb (fun xy => key_eqb (fst (fst xy)) (fst (snd xy)) && set_eqb (snd (fst xy)) (snd (snd xy))
                        && Nat.eqb (List.length (snd (fst xy))) (List.length (snd (snd xy)))) (combine a b).
Definition amap_exact_eqb (a b : amap) : bool :=
  Nat.eqb (List.length a) (List.length b)
  && forallb (fun xy => Nat.eqb (fst (fst xy)) (fst (snd xy)) && set_eqb (snd (fst xy)) (snd (snd xy))
                        && Nat.eqb (List.length (snd (fst xy))) (List.length (snd (snd xy)))) (combine a b).
Definition qitem_eqb (a b : qitem) : bool :=
  match a, b with QF u, QF v => Nat.eqb u v | QL k, QL k' => key_eqb k k' | _, _ => false end.
Definition pitem_eqb (a b : pitem) : bool :=
  match a, b with
  | PG x ms, PG y ns => Nat.eqb x y && set_eqb ms ns && Nat.eqb (List.length ms) (List.length ns)
  | PL k, PL k' => key_eqb k k'
  | _, _ => false
  end.
Fixpoint list_eqb_by {A} (f : A -> A -> bool) (a b : list A) : bool :=
  match a, b with [] , [] => true | x :: a', y :: b' => f x y && list_eqb_by f a' b' | _, _ => false end.
Definition sets_eqb (a b : list nat) : bool := set_eqb a b && Nat.eqb (List.length a) (List.length b).
Definition onat_eqb (a b : option nat) : bool :=
  match a, b with Some x, Some y => Nat.eqb x y | None, None => true | _, _ => false end.
Definition core_eqb (s o : step) : bool :=
  sets_eqb (uuids s) (uuids o) && sets_eqb (req s) (req o) && Bool.eqb (requested s) (requested o).
(* a model step against an observed step: sets as sets; the step id of the observation is ignored *)
Definition lstep_matches (m o : lstep) : bool :=
  match m, o with
  | LFG s grp cfw cir tfs any, LFG s' grp' cfw' cir' tfs' any' =>
      core_eqb s s' && Nat.eqb grp grp' && Nat.eqb cfw cfw' && sets_eqb cir cir' && sets_eqb tfs tfs' && Nat.eqb any any'
  | LJOIN s uid lf rf lus rus, LJOIN s' uid' lf' rf' lus' rus' =>
      core_eqb s s' && Nat.eqb uid uid' && Nat.eqb lf lf' && Nat.eqb rf rf' && sets_eqb lus lus' && sets_eqb rus rus'
  | LTFS s a b c d l, LTFS s' a' b' c' d' l' =>
      core_eqb s s' && Nat.eqb a a' && Nat.eqb b b' && Nat.eqb c c' && Nat.eqb d d' && onat_eqb l l'
  | _, _ => false
  end.

(* one observed preparation.  lc_outcome: 0 accepted, else the e_* code of what prepare raised (99 = anything else);
   lc_stage: how far the observation got (the later fields are empty when prepare raised earlier):
   1 = add_links_to_queue returned, 2 = ResolveComputeFrameworks.links returned, 3 = a plan exists *)
Record lcase := {
  lc_g : fgraph; lc_links : list plink; lc_tab : otab;
  lc_stage : nat;
  lc_data0 : tdata; lc_lq : list qitem; lc_pq0 : list pitem;
  lc_pq1 : list pitem; lc_data1 : tdata; lc_dor1 : tdata; lc_order1 : amap; lc_cm : amap;
  lc_plan : list lstep; lc_outcome : nat
}.
Definition stages_of (c : lcase) : res (stages * bool) := stages_L (ord_obs (lc_tab c)) (lc_g c) mro_flat (lc_links c).
Definition result_of (c : lcase) : lresult := prepare_L (ord_obs (lc_tab c)) (lc_g c) mro_flat (lc_links c).
Definition outcome_L (r : lresult) : nat := match r with LPlanned _ => 0 | LRejected e _ => e | LOutside => e_outside end.

Definition chk_graph_L (c : lcase) : bool := graph_okb (lc_g c).
(* stage 1: link_trekker.data, the link queue, the planned queue of ResolveGraph.resolve_links *)
Definition chk_data0 (c : lcase) : bool :=
  Nat.ltb (lc_stage c) 1 ||
  tdata_eqb (trek_data (ord_obs (lc_tab c)) (lc_g c) mro_flat (lc_links c)) (lc_data0 c).
Definition chk_lq (c : lcase) : bool :=
  Nat.ltb (lc_stage c) 1 ||
  match stages_of c with
  | Ok (s, _) => list_eqb_by qitem_eqb (st_lq s) (lc_lq c) && list_eqb_by pitem_eqb (st_pq0 s) (lc_pq0 c)
  | Err _ => true      (* the model stops later than add_links_to_queue or at it: judged by chk_outcome *)
  end.
(* stage 2: ResolveComputeFrameworks.links *)
Definition chk_rcf (c : lcase) : bool :=
  Nat.ltb (lc_stage c) 2 ||
  match stages_of c with
  | Ok (s, _) => list_eqb_by pitem_eqb (st_pq1 s) (lc_pq1 c) && tdata_eqb (t_data (st_trek1 s)) (lc_data1 c)
                 && tdata_eqb (t_dor (st_trek1 s)) (lc_dor1 c) && amap_exact_eqb (t_order (st_trek1 s)) (lc_order1 c)
                 && forallb (fun n => sets_eqb (cfws_of (lc_g c) (st_cm s) (fid n)) (aget0 (fid n) (lc_cm c))) (lc_g c)
  | Err _ => true
  end.
(* stage 3: the plan in plan order, and what prepare did *)
Definition plan_of_result (r : lresult) : list lstep := match r with LPlanned p => p | LRejected _ p => p | LOutside => [] end.
(* the model leaves its fragment (LOutside: self link, or a feature-group TransformFrameworkStep would be created): the plan
   and the outcome are not compared (the harness counts these cases); the earlier stages still are *)
Definition model_outside (c : lcase) : bool := match result_of c with LOutside => true | _ => false end.
Definition model_inside (c : lcase) : bool := negb (model_outside c).
Definition chk_plan_L (c : lcase) : bool :=
  Nat.ltb (lc_stage c) 3 || model_outside c || list_eqb_by lstep_matches (plan_of_result (result_of c)) (lc_plan c).
Definition chk_outcome_L (c : lcase) : bool := model_outside c || Nat.eqb (outcome_L (result_of c)) (lc_outcome c).
Definition chk_planner_L (c : lcase) : bool :=
  chk_graph_L c && chk_data0 c && chk_lq c && chk_rcf c && chk_plan_L c && chk_outcome_L c.

(* ---------- known-defect domains of a request, decided on the MODEL'S PLAN (harness/planner_l.classify) ---------- *)
(* the LEFT table of the JoinStep is not (only) the table of the Link's left class *)
Definition exchanged (g : fgraph) (links : list plink) (x : lstep) : bool :=
  match x with
  | LJOIN _ uid _ _ lus _ => negb (forallb (fun u => Nat.eqb (grp_of g u) (lfg_of links uid)) lus)
  | _ => false
  end.
Definition is_join_step (x : lstep) : bool := match x with LJOIN _ _ _ _ _ _ => true | _ => false end.
Definition is_tfs_step (x : lstep) : bool := match x with LTFS _ _ _ _ _ _ => true | _ => false end.
Definition kf_none : nat := 0.
Definition kf_right : nat := 1.               (* C05-right-join-not-honoured *)
Definition kf_diffkeys_exchanged : nat := 2.  (* C05-different-key-names-consumer-on-right-framework *)
Definition kf_left_flipped : nat := 3.        (* C05-left-join-roles-flipped-for-right-consumer *)
Definition kf_multiway_cross : nat := 4.      (* C05-multiway-join-across-frameworks *)
Definition kf_rejected : nat := 5.            (* prepare raises (outside C05's recorded domains) *)
Definition kf_outside : nat := 6.             (* the model leaves its fragment *)
Definition kf_code (g : fgraph) (links : list plink) (r : lresult) : nat :=
  match links with
  | [l] =>
    match jt (pl_l l) with
    | RIGHT => kf_right
    | j =>
      match r with
      | LPlanned p =>
        if existsb (exchanged g links) p && negb (idx_eqb (lidx (pl_l l)) (ridx (pl_l l))) then kf_diffkeys_exchanged
        else if existsb (exchanged g links) p && jt_eqb j LEFT then kf_left_flipped
        else kf_none
      | LRejected _ _ => kf_rejected
      | LOutside => kf_outside
      end
    end
  | _ =>
    match r with
    | LPlanned p => if existsb is_tfs_step p then kf_multiway_cross else kf_none
    | LRejected e _ => if Nat.eqb e e_incomplete then kf_multiway_cross else kf_rejected
    | LOutside => kf_multiway_cross
    end
  end.
Definition classify_case (c : lcase) : nat := kf_code (lc_g c) (lc_links c) (result_of c).
