(* Data plane with IN-PLACE calculations (C06/C01): a second step kind next to the replacing one of Model/DataPlaneConc.v.

   What the real code does (mloda/core/abstract_plugins/compute_framework.py, ComputeFramework.run_calculation):
       data = feature_group.calculate_feature(self.data, features)       -- run_calculate_feature: `self.data` is evaluated: [ERead]
       if not isinstance(data, expected_data_framework): self.data = self.transform(data, names)
       else:                                             self.data = data                                         [EWrite]
   REPLACING calculation (XRepl): calculate_feature builds a NEW table object from the one it was handed (PyArrow
       append_column on an immutable table, pandas `.copy()` / `assign`, a new list of new row dicts) [ECalc: the content of
       the handed object is read here] and run_calculation stores the new object [EWrite: fresh frame, the object now refers
       to it].  Between ECalc and EWrite other threads may run: the classic read-modify-write.
   IN-PLACE calculation (XInpl), two variants, both found in the tree:
     Mutate:  calculate_feature mutates the object it was handed and returns it (every built-in pandas group:
              `data[name] = f(data[inputs]); return data`; python-dict groups: `row[name] = ...` for every row).  Per new
              column one EIns: the inputs are read from, and the column is inserted into, the frame BEHIND THE HANDLE READ
              AT ERead (whatever the compute-framework object refers to by now); EWrite stores that handle again.
     Series:  calculate_feature returns a pd.Series; mloda_plugins/.../pandas/dataframe.py PandasDataFrame.transform:
                  self.data[feature_name] = data     -- inserts into the frame the object refers to NOW        [EIns]
                  return self.data                   -- handle re-read (kept in the buffer: hw)
              and run_calculation stores it: self.data = <that handle>                                          [EWrite]
              (the Series itself was computed from the frame handed over at ERead).
   A column insertion is one event (atomic under the GIL for a pandas frame; for python-dict rows it is a loop over the rows -
   an abstraction: nobody unordered reads that column).  Not modelled: PandasDataFrame.transform raising when the column already
   exists (two steps never produce the same feature), and calculations that read all inputs before the first insertion (the
   generated harness groups): reading at insertion time differs only if an unordered step writes an input column.

   Because frames are MUTABLE and SHARED BY REFERENCE the store is a heap: object id -> frame reference, reference -> table.
   A replacing write allocates a fresh frame; an in-place step that still holds the old reference then inserts into a frame
   the object no longer refers to, and its final EWrite makes the object refer to the old frame again (Props/C06inplace.v,
   the `_refuted` witnesses).

   xrun executes an arbitrary list of such events.  `eff` gives the atomic DataPlane action an event stands for (ECalc of a
   replacing step: the whole step; EIns i k: the one-column calculation ACalc o [d_k]); Proofs/InPlaceP.v shows that a legal,
   scheduled interleaving of a plan whose unordered dependent steps are in place on one object computes exactly
   DataPlane.exec over these actions in event order, and that all such orders agree with every sequential (SYNC) order.
   Definitions only. *)
From Coq Require Import List Bool ZArith Arith.
Import ListNotations.
Require MV.Model.Orch MV.Model.OrchCheck.
Require Import MV.Spec.RefEval MV.Model.DataPlane MV.Model.DataPlaneConc.
Local Open Scope nat_scope.

(* ---- steps ---- *)
Inductive istyle := Mutate | Series.
Inductive xaction :=
  | XRepl (a : action)                                    (* replacing: any DataPlane action (root, calculation, transform) *)
  | XInpl (sty : istyle) (o : nat) (ds : list fdef).      (* in-place calculation of the features ds on object o *)
(* what the step does when nothing interferes (SYNC): the style is invisible *)
Definition base (x : xaction) : action := match x with XRepl a => a | XInpl _ o ds => ACalc o ds end.
Definition xstep := (nat * xaction)%type.

Fixpoint aget {A : Type} (l : list (nat * A)) (k : nat) : option A :=
  match l with [] => None | (k', v) :: t => if Nat.eqb k' k then Some v else aget t k end.

(* ---- heap ---- *)
Record hst := mkH { h_objs : list (nat * nat); h_heap : list (nat * table); h_next : nat }.
Definition get_ref (st : hst) (o : nat) : option nat := aget (h_objs st) o.
Definition get_frame (st : hst) (r : nat) : option table := aget (h_heap st) r.
Definition frame_of (st : hst) (h : option nat) : option table := match h with Some r => get_frame st r | None => None end.
(* the table an observer of object o sees *)
Definition obs (st : hst) (o : nat) : option table := frame_of st (get_ref st o).
Definition set_ref (st : hst) (o r : nat) : hst := mkH ((o, r) :: h_objs st) (h_heap st) (h_next st).
Definition set_frame (st : hst) (r : nat) (t : table) : hst := mkH (h_objs st) ((r, t) :: h_heap st) (h_next st).
Definition alloc (st : hst) (o : nat) (t : table) : hst :=
  mkH ((o, h_next st) :: h_objs st) ((h_next st, t) :: h_heap st) (S (h_next st)).
(* a DataPlane store as a heap: every binding gets its own frame *)
Fixpoint inject (s : store) : hst :=
  match s with [] => mkH [] [] 0 | (o, t) :: r => alloc (inject r) o t end.

(* ---- events, buffers ---- *)
Inductive xevent := ERead (i : nat) | ECalc (i : nat) | EIns (i k : nat) | EWrite (i : nat).
(* PRead h hw: handle read at ERead / handle the final EWrite will store;  PCalc T: the table a replacing step will store *)
Inductive phase := PRead (h hw : option nat) | PCalc (T : table).
Definition xbufs := list (nat * phase).
Definition xdrop (b : xbufs) (i : nat) : xbufs := filter (fun kv => negb (Nat.eqb (fst kv) i)) b.
Inductive xoutcome := XOk (st : hst) | XFail (e : fault).

Definition read_obj (x : xaction) : option nat :=
  match base x with ARoot _ _ => None | ACalc o _ => Some o | ACopy a _ => Some a end.
Definition do_read (st : hst) (x : xaction) : option nat :=
  match read_obj x with Some o => get_ref st o | None => None end.

(* events of unknown steps, or in a phase in which the step cannot perform them, are skipped (wf_x excludes them) *)
Fixpoint xrun (n : nat) (steps : list xstep) (st : hst) (b : xbufs) (ev : list xevent) : xoutcome :=
  match ev with
  | [] => XOk st
  | ERead i :: r =>
      let h := match aget steps i with Some x => do_read st x | None => None end in
      xrun n steps st ((i, PRead h h) :: b) r
  | ECalc i :: r =>
      match aget b i, aget steps i with
      | Some (PRead h _), Some (XRepl a) =>
          match produce n a (frame_of st h) with
          | inl T => xrun n steps st ((i, PCalc T) :: xdrop b i) r
          | inr e => XFail e
          end
      | _, _ => xrun n steps st b r
      end
  | EIns i k :: r =>
      match aget b i, aget steps i with
      | Some (PRead h _), Some (XInpl sty o ds) =>
          match nth_error ds k with
          | None => xrun n steps st b r
          | Some d =>
              let hw := match sty with Mutate => h | Series => get_ref st o end in
              match frame_of st h, hw with
              | Some t, Some rw =>
                  match get_frame st rw with
                  | Some tw =>
                      match calc_cols n t [d] with
                      | inl new => xrun n steps (set_frame st rw (new ++ tw)) ((i, PRead h (Some rw)) :: xdrop b i) r
                      | inr f => XFail (FCol f)
                      end
                  | None => XFail (FObj o)
                  end
              | _, _ => XFail (FObj o)
              end
          end
      | _, _ => xrun n steps st b r
      end
  | EWrite i :: r =>
      match aget b i, aget steps i with
      | Some (PCalc T), Some (XRepl a) => xrun n steps (alloc st (wr a) T) (xdrop b i) r
      | Some (PRead _ (Some rw)), Some (XInpl _ o _) => xrun n steps (set_ref st o rw) (xdrop b i) r
      | Some _, _ => xrun n steps st (xdrop b i) r
      | None, _ => xrun n steps st b r
      end
  end.

(* the atomic DataPlane action(s) an event stands for *)
Definition eff (steps : list xstep) (e : xevent) : list action :=
  match e with
  | ECalc i => match aget steps i with Some (XRepl a) => [a] | _ => [] end
  | EIns i k => match aget steps i with
                | Some (XInpl _ o ds) => match nth_error ds k with Some d => [ACalc o [d]] | None => [] end
                | _ => []
                end
  | _ => []
  end.

(* heap outcome vs DataPlane outcome: every object shows the same table / the same failure *)
Definition xout_rel (xo : xoutcome) (o : outcome) : Prop :=
  match xo with
  | XOk st => match o with Ok s => forall ob, obs st ob = get_obj s ob | _ => False end
  | XFail e => o = fail_of e
  end.

(* ---- legal interleavings ---- *)
Definition xevent_eqb (a b : xevent) : bool :=
  match a, b with
  | ERead i, ERead j => Nat.eqb i j
  | ECalc i, ECalc j => Nat.eqb i j
  | EIns i k, EIns j l => Nat.eqb i j && Nat.eqb k l
  | EWrite i, EWrite j => Nat.eqb i j
  | _, _ => false
  end.
(* position of the first occurrence (length of the list if there is none) *)
Fixpoint idx (e : xevent) (ev : list xevent) : nat :=
  match ev with [] => 0 | x :: r => if xevent_eqb x e then 0 else S (idx e r) end.

Definition expected (steps : list xstep) (e : xevent) : Prop :=
  match e with
  | ERead i => In i (map fst steps)
  | EWrite i => In i (map fst steps)
  | ECalc i => exists a, aget steps i = Some (XRepl a)
  | EIns i k => exists sty o ds, aget steps i = Some (XInpl sty o ds) /\ k < length ds
  end.

(* every step reads once and writes once; in between a replacing step calculates once, an in-place step inserts each of
   its columns once (in any order) *)
Definition wf_x (steps : list xstep) (ev : list xevent) : Prop :=
  NoDup ev
  /\ (forall e, In e ev <-> expected steps e)
  /\ (forall e, In e ev ->
        match e with
        | ERead _ => True
        | ECalc i => idx (ERead i) ev < idx e ev /\ idx e ev < idx (EWrite i) ev
        | EIns i _ => idx (ERead i) ev < idx e ev /\ idx e ev < idx (EWrite i) ev
        | EWrite i => idx (ERead i) ev < idx e ev
        end).

(* the scheduler starts (ERead) a step only when everything that must come before it has finished (EWrite) *)
Definition scheduled_x (before : nat -> nat -> bool) (steps : list xstep) (ev : list xevent) : Prop :=
  forall i j, before i j = true -> In i (map fst steps) -> In j (map fst steps) -> idx (EWrite i) ev < idx (ERead j) ev.

(* l is a sequential order compatible with `before` (DataPlaneConc.respects for xsteps) *)
Fixpoint respects_x (before : nat -> nat -> bool) (l : list xstep) : Prop :=
  match l with
  | [] => True
  | x :: t => (forall y, In y t -> before (fst y) (fst x) = false) /\ respects_x before t
  end.

(* ---- independence ---- *)
Definition names (ds : list fdef) : list nat := map fname ds.
Definition reads (ds : list fdef) : list nat := flat_map inputs ds.
Definition disjointb (a b : list nat) : bool := forallb (fun x => negb (Orch.mem x b)) a.
(* different new columns, neither reads a column the other writes *)
Definition cols_compat (ds1 ds2 : list fdef) : bool :=
  disjointb (names ds1) (names ds2) && disjointb (reads ds1) (names ds2) && disjointb (reads ds2) (names ds1).
(* ATOMIC level: two calculations on one object that touch different columns commute (up to the order of columns) *)
Definition ipc (a b : action) : bool :=
  match a, b with ACalc o1 ds1, ACalc o2 ds2 => Nat.eqb o1 o2 && cols_compat ds1 ds2 | _, _ => false end.
Definition aindep (a b : action) : bool := independent a b || ipc a b.
(* MICRO level: they may also OVERLAP when both are in place *)
Definition ip_ok (x y : xaction) : bool :=
  match x, y with XInpl _ o1 ds1, XInpl _ o2 ds2 => Nat.eqb o1 o2 && cols_compat ds1 ds2 | _, _ => false end.
Definition xindep (x y : xaction) : bool := independent (base x) (base y) || ip_ok x y.

Fixpoint nodupb (l : list nat) : bool := match l with [] => true | x :: t => negb (Orch.mem x t) && nodupb t end.
(* an in-place step computes at least one column, distinct columns, and reads none of them (features depending on each
   other are separate steps) *)
Definition self_ok (x : xaction) : bool :=
  match x with
  | XInpl _ _ ds => negb (Nat.eqb (length ds) 0) && nodupb (names ds) && disjointb (reads ds) (names ds)
  | XRepl _ => true
  end.

(* every two steps that are not xindep are ordered by `before` *)
Definition xdep_ordered (before : nat -> nat -> bool) (steps : list xstep) : Prop :=
  forall x y, In x steps -> In y steps -> fst x <> fst y -> xindep (snd x) (snd y) = false ->
              before (fst x) (fst y) = true \/ before (fst y) (fst x) = true.

(* tables up to the order of their columns; stores likewise; all failures identified *)
Definition table_eqv (t1 t2 : table) : Prop := forall f, lookup t1 f = lookup t2 f.
Definition otable_eqv (a b : option table) : Prop :=
  match a, b with Some t1, Some t2 => table_eqv t1 t2 | None, None => True | _, _ => False end.
Definition store_eqv (s1 s2 : store) : Prop := forall o, otable_eqv (get_obj s1 o) (get_obj s2 o).
Definition outcome_eqv (o1 o2 : outcome) : Prop :=
  match o1, o2 with
  | Ok s1, Ok s2 => store_eqv s1 s2
  | Ok _, _ => False
  | _, Ok _ => False
  | _, _ => True
  end.
Definition xoutcome_eqv (xo : xoutcome) (o : outcome) : Prop :=
  match xo, o with
  | XOk st, Ok s => forall ob, otable_eqv (obs st ob) (get_obj s ob)
  | XOk _, _ => False
  | XFail _, Ok _ => False
  | XFail _, _ => True
  end.

(* ---- executable versions of the premises ---- *)
Definition memxev (e : xevent) (l : list xevent) : bool := existsb (xevent_eqb e) l.
Fixpoint nodup_xev (l : list xevent) : bool := match l with [] => true | x :: t => negb (memxev x t) && nodup_xev t end.
Definition expectedb (steps : list xstep) (e : xevent) : bool :=
  match e with
  | ERead i => Orch.mem i (map fst steps)
  | EWrite i => Orch.mem i (map fst steps)
  | ECalc i => match aget steps i with Some (XRepl _) => true | _ => false end
  | EIns i k => match aget steps i with Some (XInpl _ _ ds) => Nat.ltb k (length ds) | _ => false end
  end.
Definition events_of (ix : xstep) : list xevent :=
  ERead (fst ix) :: EWrite (fst ix) ::
  match snd ix with XRepl _ => [ECalc (fst ix)] | XInpl _ _ ds => map (EIns (fst ix)) (seq 0 (length ds)) end.
Definition order_okb (ev : list xevent) (e : xevent) : bool :=
  match e with
  | ERead _ => true
  | ECalc i => Nat.ltb (idx (ERead i) ev) (idx e ev) && Nat.ltb (idx e ev) (idx (EWrite i) ev)
  | EIns i _ => Nat.ltb (idx (ERead i) ev) (idx e ev) && Nat.ltb (idx e ev) (idx (EWrite i) ev)
  | EWrite i => Nat.ltb (idx (ERead i) ev) (idx e ev)
  end.
Definition wf_xb (steps : list xstep) (ev : list xevent) : bool :=
  nodupb (map fst steps)
  && nodup_xev ev
  && forallb (expectedb steps) ev
  && forallb (fun e => memxev e ev) (flat_map events_of steps)
  && forallb (order_okb ev) ev.
Definition scheduled_xb (before : nat -> nat -> bool) (steps : list xstep) (ev : list xevent) : bool :=
  forallb (fun i => forallb (fun j => negb (before i j) || Nat.ltb (idx (EWrite i) ev) (idx (ERead j) ev))
                            (map fst steps)) (map fst steps).
Definition xdep_orderedb (before : nat -> nat -> bool) (steps : list xstep) : bool :=
  forallb (fun x => forallb (fun y =>
    Nat.eqb (fst x) (fst y) || xindep (snd x) (snd y) || before (fst x) (fst y) || before (fst y) (fst x)) steps) steps.
Fixpoint respects_xb (before : nat -> nat -> bool) (l : list xstep) : bool :=
  match l with
  | [] => true
  | x :: t => forallb (fun y => negb (before (fst y) (fst x))) t && respects_xb before t
  end.
Definition all_self_ok (steps : list xstep) : bool := forallb (fun x => self_ok (snd x)) steps.

(* ---- bridge to the classifier OrchCheck.conflict_free_ip ---- *)
Definition is_inpl (x : xaction) : bool := match x with XInpl _ _ _ => true | XRepl _ => false end.
Definition foot_of_xsteps (steps : list xstep) : OrchCheck.foot :=
  map (fun x => (fst x, (wr (base (snd x)), rd (base (snd x))))) steps.
Definition styles_of_xsteps (steps : list xstep) : OrchCheck.styles := map (fun x => (fst x, is_inpl (snd x))) steps.
Definition xwrites (x : xaction) : list nat := match base x with ACalc _ ds => names ds | _ => [] end.
Definition xreads (x : xaction) : list nat := match base x with ACalc _ ds => reads ds | _ => [] end.
Definition cols_of_xsteps (steps : list xstep) : OrchCheck.colsig :=
  map (fun x => (fst x, (xwrites (snd x), xreads (snd x)))) steps.

Definition hhas_col (o : xoutcome) (obj f : nat) : bool :=
  match o with
  | XOk st => match obs st obj with Some t => match lookup t f with Some _ => true | None => false end | None => false end
  | XFail _ => false
  end.

(* ---- witnesses (Props/C06inplace.v).  Object 0 holds column 0 (lu_store); lu_d1: column 1 := col0, lu_d2: column 2 := 2*col0 ---- *)
Definition w_m1 : xaction := XInpl Mutate 0 [lu_d1].          (* in place: mutates the frame it was handed *)
Definition w_s1 : xaction := XInpl Series 0 [lu_d1].          (* in place: returns a Series, transform inserts it into self.data *)
Definition w_r1 : xaction := XRepl (ACalc 0 [lu_d1]).         (* the same calculation, replacing (self.data.assign(...)) *)
Definition w_m2 : xaction := XInpl Mutate 0 [lu_d2].
Definition w_r2 : xaction := XRepl (ACalc 0 [lu_d2]).
Definition w_mr : list xstep := [(1, w_m1); (2, w_r2)].       (* in place (mutate) next to replacing *)
Definition w_sr : list xstep := [(1, w_s1); (2, w_r2)].       (* in place (series) next to replacing *)
Definition w_sm : list xstep := [(1, w_s1); (2, w_m2)].       (* both in place *)
Definition w_rm : list xstep := [(1, w_r1); (2, w_m2)].       (* w_sm after the Series branch was made replacing *)
(* step 2 (replacing) copies before step 1 inserts and writes last: column 1 is lost *)
Definition wev_a : list xevent := [ERead 1; ERead 2; ECalc 2; EIns 1 0; EWrite 1; EWrite 2].
(* step 2 (replacing) writes, then step 1 inserts and writes its handle: for Mutate column 2 is lost (old frame restored) *)
Definition wev_b : list xevent := [ERead 1; ERead 2; ECalc 2; EWrite 2; EIns 1 0; EWrite 1].
(* step 1 inserts while step 2 has copied but not written; step 1 writes last: column 2 is lost for both in-place variants *)
Definition wev_c : list xevent := [ERead 1; ERead 2; ECalc 2; EIns 1 0; EWrite 2; EWrite 1].
(* step 1 inserts before step 2 copies; step 2 writes last: nothing is lost *)
Definition wev_d : list xevent := [ERead 1; ERead 2; EIns 1 0; ECalc 2; EWrite 1; EWrite 2].
(* both in place: every interleaving keeps both columns, e.g. *)
Definition wev_ii : list xevent := [ERead 1; ERead 2; EIns 2 0; EIns 1 0; EWrite 2; EWrite 1].
(* w_rm: step 1 now copies (ECalc 1), step 2 inserts into the old frame, step 1 writes last: column 2 is lost *)
Definition wev_reg : list xevent := [ERead 1; ERead 2; ECalc 1; EIns 2 0; EWrite 2; EWrite 1].

(* ---- a non-trivial plan satisfying the premises ----
   step 0: root object 0 (column 0);  steps 1,2,3: in place on object 0, unordered among each other (1: Mutate, column 1;
   2: Series, column 2; 3: Mutate, columns 3 and 4);  step 4: replacing, column 5 := col1 + col2 + col3, after 1,2,3;
   step 5: root of object 1, independent of everything. *)
Definition xe_d1 : fdef := {| fname := 1; inputs := [0]; c0 := 10%Z; coefs := [3%Z] |}.
Definition xe_d2 : fdef := {| fname := 2; inputs := [0]; c0 := 0%Z; coefs := [2%Z] |}.
Definition xe_d3 : fdef := {| fname := 3; inputs := [0]; c0 := 1%Z; coefs := [1%Z] |}.
Definition xe_d4 : fdef := {| fname := 4; inputs := [0]; c0 := 0%Z; coefs := [(-1)%Z] |}.
Definition xe_d5 : fdef := {| fname := 5; inputs := [1; 2; 3]; c0 := 0%Z; coefs := [1%Z; 1%Z; 1%Z] |}.
Definition xe_steps : list xstep :=
  [(0, XRepl (ARoot 0 [(0, [Some 1%Z; None])])); (1, XInpl Mutate 0 [xe_d1]); (2, XInpl Series 0 [xe_d2]);
   (3, XInpl Mutate 0 [xe_d3; xe_d4]); (4, XRepl (ACalc 0 [xe_d5])); (5, XRepl (ARoot 1 [(7, [Some 4%Z; Some 5%Z])]))].
Definition xe_plan : Orch.plan :=
  [ {| Orch.sid := 0; Orch.skind := Orch.KFG; Orch.uuids := [1]; Orch.req := []; Orch.requested := false |};
    {| Orch.sid := 1; Orch.skind := Orch.KFG; Orch.uuids := [2]; Orch.req := [1]; Orch.requested := false |};
    {| Orch.sid := 2; Orch.skind := Orch.KFG; Orch.uuids := [3]; Orch.req := [1]; Orch.requested := false |};
    {| Orch.sid := 3; Orch.skind := Orch.KFG; Orch.uuids := [4; 5]; Orch.req := [1]; Orch.requested := true |};
    {| Orch.sid := 4; Orch.skind := Orch.KFG; Orch.uuids := [6]; Orch.req := [1; 2; 3; 4]; Orch.requested := true |};
    {| Orch.sid := 5; Orch.skind := Orch.KFG; Orch.uuids := [7]; Orch.req := []; Orch.requested := true |} ].
Definition xe_ev : list xevent :=
  [ERead 0; ERead 5; ECalc 0; EWrite 0; ERead 2; ERead 1; ERead 3; EIns 3 1; EIns 1 0; ECalc 5; EIns 2 0; EWrite 1;
   EIns 3 0; EWrite 5; EWrite 3; EWrite 2; ERead 4; ECalc 4; EWrite 4].
