(* MULTIPROCESSING data plane of ONE compute-framework object: the "store protocol".

   In MULTIPROCESSING other worker processes never see the in-memory table of a compute-framework object; they see what the
   object's worker uploaded to the Arrow Flight store under ONE key, the uuid of the object
   (ComputeFramework.upload_finished_data -> upload_table(location, self.uuid); readers: JoinStep.get_data and
   TransformFrameworkStep.get_data -> FlightServer.download_table(location, str(uuid))).  Modelled here:

     calc step    ComputeFramework.run_calculation of a FeatureGroupStep on the object: DataPlane.step of an ARoot / ACalc action
                  on the worker's LOCAL store (the object's table gains columns);
     upload       store[key] := the object's current table.  The code's rule (FeatureGroupStep.execute, MULTIPROCESSING branch
                  `if self.location: if self.need_to_upload: cfw.upload_finished_data(...); add_uuid_flyway_datasets(...)`):
                  every step with need_to_upload uploads AFTER its calculation; a step with requested features uploads in
                  multiprocessing_worker._handle_command_result - both are the flag `need` of a step here;
     registered   CfwManager.uuid_flyway_datasets has an entry for the object (set by the first uploading step);
     read         a reader in another worker gets store[key] (`pub`) as it is at that moment.

   The upload rule is a PARAMETER `pol registered need` so that variants can be stated: the code is `pol_code`, the "publish once"
   variant (upload only if the object is not registered yet) is `pol_once`.  Definitions only. *)
From Coq Require Import List Bool ZArith Arith.
Import ListNotations.
Require Import MV.Spec.RefEval MV.Model.DataPlane.

Definition ustep := (action * bool)%type.                 (* a feature-group step on the object, need_to_upload / requested *)

Record mstate := { loc : store;                           (* the worker's own objects (SYNC data plane) *)
                   pub : option table;                    (* Flight store, key = uuid of the object *)
                   reg : bool }.                          (* uuid_flyway_datasets has the object *)

Definition pol_code (registered need : bool) : bool := need.
Definition pol_once (registered need : bool) : bool := need && negb registered.

Definition mp_step (pol : bool -> bool -> bool) (n o : nat) (m : mstate) (u : ustep) : option mstate :=
  match step n (loc m) (fst u) with
  | Ok s' => if pol (reg m) (snd u)
             then Some {| loc := s'; pub := get_obj s' o; reg := true |}
             else Some {| loc := s'; pub := pub m; reg := reg m || snd u |}
  | _ => None
  end.

Fixpoint mp_run (pol : bool -> bool -> bool) (n o : nat) (m : mstate) (l : list ustep) : option mstate :=
  match l with
  | [] => Some m
  | u :: r => match mp_step pol n o m u with Some m' => mp_run pol n o m' r | None => None end
  end.

Definition init (s : store) : mstate := {| loc := s; pub := None; reg := false |}.

(* what a reader in another worker gets after the steps l ran *)
Definition mp_read (pol : bool -> bool -> bool) (n o : nat) (s : store) (l : list ustep) : option table :=
  match mp_run pol n o (init s) l with Some m => pub m | None => None end.

(* what the same reader gets in SYNC / THREADING: from_cfw.get_data() of the object *)
Definition sync_read (n o : nat) (s : store) (l : list ustep) : option table :=
  match exec n s (map fst l) with Ok s' => get_obj s' o | _ => None end.

(* steps that extend the table of the object o (derived feature groups computing on it) *)
Definition extends (o : nat) (u : ustep) : bool :=
  match fst u with ACalc o' _ => Nat.eqb o' o | _ => false end.

(* the step writes the table of the object o *)
Definition touches (o : nat) (a : action) : bool :=
  match a with ARoot o' _ => Nat.eqb o' o | ACalc o' _ => Nat.eqb o' o | ACopy _ dst => Nat.eqb dst o end.

(* every column of t is a column of t' *)
Definition covers (t t' : table) : Prop := forall f, lookup t f <> None -> lookup t' f <> None.
Definition ocovers (t : table) (x : option table) : Prop := match x with Some t' => covers t t' | None => False end.

(* ---- replay of an observed run (harness/c06store.py) ----
   One object; its calculations in the order its worker executed them: the column set of the table after the calculation and
   the need flag; `versions` = the column sets the store holds after each uploading step according to the rule `pol`
   (column sets are sorted lists of column numbers). *)
Fixpoint versions (pol : bool -> bool -> bool) (registered : bool) (calcs : list (list nat * bool)) : list (list nat) :=
  match calcs with
  | [] => []
  | (cols, need) :: r => if pol registered need then cols :: versions pol true r
                         else versions pol (registered || need) r
  end.

Definition cols_eqb (a b : list nat) : bool :=
  Nat.eqb (length a) (length b) && forallb (fun xy => Nat.eqb (fst xy) (snd xy)) (combine a b).

(* a download that began after `lo` uploading steps had ended and ended when `hi` had begun must return one of the versions
   lo .. hi (1-based; lo = 0: nothing guaranteed yet), and it must contain the columns the reader requires *)
Definition read_ok (vs : list (list nat)) (lo hi : nat) (seen req : list nat) : bool :=
  existsb (cols_eqb seen) (firstn (S hi - lo) (skipn (pred lo) vs))
  && forallb (fun c => existsb (Nat.eqb c) seen) req.

(* a replay case: calcs of the object, the observed uploads of its key (column sets, in order), the observed downloads *)
Definition replay_case := (list (list nat * bool) * list (list nat) * list (nat * nat * list nat * list nat))%type.
Definition chk_replay (c : replay_case) : bool :=
  match c with (calcs, ups, reads) =>
    let vs := versions pol_code false calcs in
    (Nat.eqb (length ups) (length vs) && forallb (fun xy => cols_eqb (fst xy) (snd xy)) (combine ups vs))
    && forallb (fun r => match r with (lo, hi, seen, req) => Nat.ltb 0 lo && read_ok vs lo hi seen req end) reads
  end.
