(* Model of how the run time executes the JoinSteps of a plan on ONE compute framework (the data side of Model/PlannerL.v).
   Definitions only.

   Mirrors (mloda/core/...):
     core/cfw_manager.py         CfwManager.get_cfw_uuid (first registered object whose children_if_root contains the uuid,
                                 then find_leftmost), add_to_merge_relation, find_leftmost          rt_find, rt_leftmost, rt_get_cfw
     runtime/compute_framework_executor.py
                                 prepare_execute_step (JoinStep: the object of next(iter(left_framework_uuids)))
                                 prepare_tfs_and_joinstep (the object registered under link.uuid, else under
                                 next(iter(right_framework_uuids)))                                  rt_join
     core/step/join_step.py      JoinStep.execute / _merge_data: cfw.data = merge(cfw.data, from.data, jointype,
                                 link.left_index, link.right_index); add_to_merge_relation(cfw, from)  rt_join
   The merge itself is the relational specification Spec/Rel.v rel_join (that the engines implement it is property C12).

   find_leftmost follows the pointers of cfw_merge_relation (right object -> left object) until an object points to itself.
   add_to_merge_relation is only ever called with two objects that ARE leftmost at that moment (both come out of
   get_cfw_uuid), so an object gets a pointer at most once and pointers only lead to objects that were merged later:
   following the pointers from x is replaying the merges in order.  The model keeps the merge HISTORY and replays it
   (rt_leftmost); the dict + while-loop form is modelled below (mrel, madd, mfollow) and proved equal on those histories
   (Proofs/PlannerLRunP.v mfollow_replay, rt_run_roots_hist); harness/planner_l.py also compares rt_get_cfw with the real
   CfwManager on random merge sequences. *)
From Coq Require Import List Bool Arith String.
Import ListNotations.
Require Import MV.Model.Orch MV.Model.OrchCheck MV.Model.PlannerA MV.Model.LinkSel MV.Model.PlannerL.
Require MV.Spec.Rel.
Open Scope nat_scope.

Definition table := MV.Spec.Rel.table.

Definition jt_rel (j : jointype) : MV.Spec.Rel.jointype :=
  match j with
  | INNER => MV.Spec.Rel.JInner | LEFT => MV.Spec.Rel.JLeft | RIGHT => MV.Spec.Rel.JRight
  | OUTER => MV.Spec.Rel.JOuter | APPEND => MV.Spec.Rel.JAppend | UNION => MV.Spec.Rel.JUnion
  end.

(* a registered compute-framework object: its uuid and children_if_root *)
Record robj := { ro_id : nat; ro_cir : list nat }.
(* one JoinStep: link.uuid, join type, left / right index, next(iter(left_framework_uuids)), next(iter(right_framework_uuids)) *)
Record rjoin := { rj_uid : nat; rj_jt : jointype; rj_lk : index; rj_rk : index; rj_left : nat; rj_right : nat }.

Definition hist := list (nat * nat).                  (* the merges so far: (right object, left object), oldest first *)
Definition store := list (nat * table).               (* object uuid -> cfw.data *)

Definition rt_leftmost (h : hist) (x : nat) : nat :=
  fold_left (fun cur rl => if Nat.eqb cur (fst rl) then snd rl else cur) h x.
Definition rt_find (objs : list robj) (u : nat) : option nat :=
  match find (fun o => mem u (ro_cir o)) objs with Some o => Some (ro_id o) | None => None end.
Definition rt_get_cfw (objs : list robj) (h : hist) (u : nat) : option nat :=
  match rt_find objs u with Some x => Some (rt_leftmost h x) | None => None end.

Fixpoint st_get (x : nat) (s : store) : option table :=
  match s with [] => None | (k, t) :: r => if Nat.eqb k x then Some t else st_get x r end.
Fixpoint st_set (x : nat) (t : table) (s : store) : store :=
  match s with [] => [(x, t)] | (k, t') :: r => if Nat.eqb k x then (k, t) :: r else (k, t') :: st_set x t r end.

(* the objects both sides resolve to (before find_leftmost) *)
Definition rj_left_obj (objs : list robj) (j : rjoin) : option nat := rt_find objs (rj_left j).
Definition rj_right_obj (objs : list robj) (j : rjoin) : option nat :=
  match rt_find objs (rj_uid j) with Some x => Some x | None => rt_find objs (rj_right j) end.

(* JoinStep.execute; None = the run raises *)
Definition rt_join (objs : list robj) (st : hist * store) (j : rjoin) : option (hist * store) :=
  match rj_left_obj objs j, rj_right_obj objs j with
  | Some a, Some b =>
    let c := rt_leftmost (fst st) a in
    let fr := rt_leftmost (fst st) b in
    match st_get c (snd st), st_get fr (snd st) with
    | Some tc, Some tf =>
      Some (fst st ++ [(fr, c)], st_set c (MV.Spec.Rel.rel_join (jt_rel (rj_jt j)) (rj_lk j) (rj_rk j) tc tf) (snd st))
    | _, _ => None
    end
  | _, _ => None
  end.
Definition rt_run (objs : list robj) (joins : list rjoin) (s0 : store) : option (hist * store) :=
  fold_left (fun st j => match st with Some s => rt_join objs s j | None => None end) joins (Some ([], s0)).
(* the data a feature-group step that looks up uuid u (tfs_ids / any_uuid) computes on *)
Definition rt_read (objs : list robj) (st : hist * store) (u : nat) : option table :=
  match rt_get_cfw objs (fst st) u with Some x => st_get x (snd st) | None => None end.

(* ---------- from a plan of Model/PlannerL.v ---------- *)
Definition objs_of_plan (p : list lstep) : list robj :=
  flat_map (fun x => match x with
                     | LFG s _ _ cir tfs any => match tfs with [] => [{| ro_id := any; ro_cir := cir |}] | _ :: _ => [] end
                     | _ => []
                     end) p.
Definition joins_of_plan (ord : oparam) (links : list plink) (p : list lstep) : list rjoin :=
  flat_map (fun x => match x with
                     | LJOIN _ uid _ _ lus rus =>
                       match plink_of links uid with
                       | Some pl => [{| rj_uid := uid; rj_jt := jt (pl_l pl); rj_lk := lidx (pl_l pl); rj_rk := ridx (pl_l pl);
                                        rj_left := hd 0 (ord (site_left1 uid) lus); rj_right := hd 0 (ord (site_left1 uid) rus) |}]
                       | None => []
                       end
                     | _ => []
                     end) p.

(* ---------- CfwManager.cfw_merge_relation and find_leftmost as the code has them (a dict and a while loop) ----------
   Proofs/PlannerLRunP.v mfollow_replay: on every history of merges between leftmost objects - the only ones JoinStep.execute
   produces - following the pointers is replaying the history (rt_leftmost). *)
Definition mrel := list (nat * nat).                   (* object -> the object it was merged into; latest assignment first *)
Fixpoint mget (x : nat) (r : mrel) : option nat :=
  match r with [] => None | (k, v) :: t => if Nat.eqb k x then Some v else mget x t end.
(* add_to_merge_relation(left, right): rel[right] = left; if left not in rel: rel[left] = left *)
Definition madd (left right : nat) (r : mrel) : mrel :=
  let r1 := (right, left) :: r in match mget left r1 with None => (left, left) :: r1 | Some _ => r1 end.
(* find_leftmost: if uuid not in rel: return uuid; while rel[uuid] != uuid: uuid = rel[uuid]   (fuel = iterations allowed) *)
Fixpoint mfollow (fuel : nat) (r : mrel) (x : nat) : nat :=
  match fuel with
  | 0 => x
  | S n => match mget x r with None => x | Some y => if Nat.eqb y x then x else mfollow n r y end
  end.
Definition mrel_of (h : hist) : mrel := fold_left (fun r m => madd (snd m) (fst m) r) h [].
(* every merge joins two objects that are leftmost at that moment *)
Fixpoint roots_hist_rev (hr : hist) : Prop :=
  match hr with
  | [] => True
  | (fr, c) :: t => roots_hist_rev t /\ rt_leftmost (rev t) fr = fr /\ rt_leftmost (rev t) c = c
  end.
Definition roots_hist (h : hist) : Prop := roots_hist_rev (rev h).
