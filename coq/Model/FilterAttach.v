(* C11 - which feature-group steps get which single filters: model of
     mloda/core/prepare/execution_plan.py  ExecutionPlan.add_single_filters_to_feature_set
   (the planning step between Engine._add_filter_feature, which fills GlobalFilter.collection, and
   BaseFilterEngine.apply_single_filters, whose gate is Model/FilterPath.v `gate`).  Definitions only.

   GlobalFilter.collection is keyed by (feature group class, name of the feature that was PROCESSED when the filters were
   matched) - Engine._add_filter_feature runs for every processed feature, requested or not.  The sets of an entry are
   attached to the feature set of a step exactly when the step belongs to that group and ANY feature of the set - requested
   or a mere input of another feature - carries that name (attach_gate).  The first gated entry (in the insertion order of
   the dict) becomes the step's filters; every later gated entry must hold an equal set, else ValueError (None).

   A feature group class and a SingleFilter are numbers (equal filters = the same number), a FeatureName is its string. *)
From Coq Require Import List Bool Arith String.
Import ListNotations.

Definition fkey := (nat * string)%type.
Definition fcoll := list (fkey * list nat).

(* the same membership test as FilterPath.mem (Proofs/SrcTieFilterP.v: attach_gate_mem) *)
Definition attach_gate (fg : nat) (names : list string) (k : fkey) : bool :=
  Nat.eqb (fst k) fg && existsb (String.eqb (snd k)) names.

Definition set_eqb (a b : list nat) : bool :=
  forallb (fun x => existsb (Nat.eqb x) b) a && forallb (fun x => existsb (Nat.eqb x) a) b.
Definition is_empty (l : list nat) : bool := match l with [] => true | _ :: _ => false end.

(* one entry of the collection; rel = relevant_filters so far; None = the ValueError *)
Definition attach_step (fg : nat) (names : list string) (rel : list nat) (e : fkey * list nat) : option (list nat) :=
  if attach_gate fg names (fst e) then
    if is_empty rel then Some (snd e)
    else if set_eqb rel (snd e) then Some rel else None
  else Some rel.

Fixpoint attach_from (fg : nat) (names : list string) (rel : list nat) (c : fcoll) : option (list nat) :=
  match c with
  | [] => Some rel
  | e :: c' => match attach_step fg names rel e with
               | None => None
               | Some rel' => attach_from fg names rel' c'
               end
  end.

(* what feature_set.add_filters receives for a step of group fg whose feature set has the feature names `names` *)
Definition attach (c : fcoll) (fg : nat) (names : list string) : option (list nat) := attach_from fg names [] c.
