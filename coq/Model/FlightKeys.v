(* Identity of Arrow Flight dataset keys across the runs of ONE prepared session against ONE long-lived Flight server (C09:
   "every dataset a run uploaded has been removed when the call returns, so a long-lived store does not grow across runs").

   Model/Worker.v describes one run with a run-local view `flight` of the store (key = worker id).  Here the store outlives the
   run, keys have an identity that may REPEAT in later runs, and the client side of the store protocol (the static helpers of
   FlightServer, executed in whatever PROCESS calls them) is explicit.  Definitions only; proofs in Proofs/FlightKeysP.v and
   Proofs/FlightKeysWorkerP.v, statements in Props/C09.v.

   Source                                                                     here
   ---------------------------------------------------------------------------------------------------------------------
   FlightServer.tables : Dict[str, table] of the server process               store : list nat (a key set; newest first)
     do_put: self.tables[path] = table   (flight_server.py:37-44)             put
     drop_table: if key in tables: del tables[key]   (:85-87)                 remove_all
   FlightServer.upload_table(location, table, key)   (static, :46-58)         c_upload  (client CDirect = the code)
   FlightServer.drop_tables(location, keys)          (static, :89-95)         c_drop    (client CDirect = the code)
   which keys exist
     ComputeFrameworkExecutor.init_compute_framework(..., uuid or uuid4())    a dataset key is str(cfw.uuid)
       (compute_framework_executor.py:43-73)                                  (compute_framework.py:415-437 upload_finished_data)
     add_compute_framework for a FeatureGroupStep: uuid4()                    r_fresh  : new in every run (uuid4 is a parameter:
       (compute_framework_executor.py:75-94, 145)                              the history theorems quantify over the values)
     prepare_execute_step for a TransformFrameworkStep:
       init_compute_framework(step.to_framework, mode, childrens, step.uuid)  r_stable : the uuid OF THE STEP, i.e. of the plan
       (compute_framework_executor.py:146-167)
     Engine.compute: execution_plan_copy = deepcopy(self.execution_planner)   the copy keeps step.uuid: the plan-derived keys
       (engine.py:74-79), once per run of a prepared session                  are the same in every run of a session
                                                                              -> stable_keys (s_plan s), Model/Session.v
   who touches the store
     worker process of object k (multiprocessing_worker.py:87-92,             SUp k    upload_finished_data: key = own uuid
       feature_group_step.py:57-60, transform_frame_work_step.py:77-78,
       join_step.py:45-49; compute_framework.py:205-206)
     worker process of object k (multiprocessing_worker.py:27-43 ->           SWDrop k drop_last_data: self.data is the object id
       compute_framework.py:316-333, 464-468)
     main process, finally block: ExecutionOrchestrator.join ->               r_sweep  Some ok: drop_tables(location, {str(u) for u in
       _drop_uploaded_datasets (run.py:274-297)                                          executor.cfw_collection}) = ALL keys of the
                                                                                        run's objects; ok = false: it raised (logged,
                                                                                        swallowed); None: set_artifacts raised before
                                                                                        join() was reached (Worker.v XFinallyCrash)
   processes
     a worker is a multiprocessing.Process forked from the main process when its object gets its first step
     (worker_manager.py:30-44): it starts with a COPY of the main process's client state; what it changes stays in the copy.
     The main process's client state changes only in the sweep (its other drop, DataLifecycleManager -> drop_last_data, finds no
     object id in the parent's cfw.data), so every worker of a run starts from the state the main process had at the start of the run.

   Client CMemo is NOT the code: it is the regression studied here - a per-process cache "keys this process has already dropped"
   consulted by drop_tables and un-marked by upload_table.  The un-marking happens in the worker's copy, the sweep reads the main
   process's set.  Theorems: CDirect leaves no key of a run behind, for every history; CMemo does the same as long as no key ever
   repeats (which is why single calls cannot tell them apart) and leaks every repeated key. *)
From Coq Require Import List Bool Arith.
Import ListNotations.
Require Import MV.Model.Orch MV.Model.Worker MV.Model.Session.

(* ---- the server ---- *)
Definition put (k : nat) (s : list nat) : list nat := if mem k s then s else k :: s.

(* ---- the client helpers, executed in a process whose client state is `memo` ---- *)
Inductive client := CDirect | CMemo.

Definition c_upload (cl : client) (memo : list nat) (k : nat) (s : list nat) : list nat * list nat :=
  (match cl with CDirect => memo | CMemo => remove_all [k] memo end, put k s).

Definition c_drop (cl : client) (memo : list nat) (ks : list nat) (s : list nat) : list nat * list nat :=
  match cl with
  | CDirect => (memo, remove_all ks s)
  | CMemo => let pending := remove_all memo ks in (pending ++ memo, remove_all pending s)
  end.

(* ---- one run ---- *)
Inductive sev := SUp (k : nat) | SWDrop (k : nat).
Definition sev_key (e : sev) : nat := match e with SUp k => k | SWDrop k => k end.

Record krun := {
  r_fresh : list nat;          (* keys of the objects created for feature-group steps: uuid4() *)
  r_stable : list nat;         (* keys of the objects created for transform steps: the uuid of the step *)
  r_body : list sev;           (* what the workers did to the store, in the order the server saw it *)
  r_sweep : option bool        (* the end-of-run sweep of the main process *)
}.
Definition r_keys (r : krun) : list nat := r_fresh r ++ r_stable r.

(* a worker only ever uploads / drops the key of its own object, and the object is in cfw_collection since its creation *)
Definition body_okb (r : krun) : bool := forallb (fun e => mem (sev_key e) (r_keys r)) (r_body r).

Definition updm (f : nat -> list nat) (k : nat) (m : list nat) : nat -> list nat := fun j => if Nat.eqb j k then m else f j.

(* wm k = client state of the worker process of object k *)
Fixpoint body (cl : client) (wm : nat -> list nat) (s : list nat) (evs : list sev) : (nat -> list nat) * list nat :=
  match evs with
  | [] => (wm, s)
  | SUp k :: t => let '(m, s') := c_upload cl (wm k) k s in body cl (updm wm k m) s' t
  | SWDrop k :: t => let '(m, s') := c_drop cl (wm k) [k] s in body cl (updm wm k m) s' t
  end.

Record hst := { store : list nat; memo : list nat }.      (* the server's key set; the MAIN process's client state *)

Definition exec_krun (cl : client) (h : hst) (r : krun) : hst :=
  let s1 := snd (body cl (fun _ => memo h) (store h) (r_body r)) in
  match r_sweep r with
  | Some true => let '(m, s2) := c_drop cl (memo h) (r_keys r) s1 in {| store := s2; memo := m |}
  | _ => {| store := s1; memo := memo h |}
  end.

Definition exec_khist (cl : client) (h : hst) (rs : list krun) : hst := fold_left (exec_krun cl) rs h.

(* the stores after every run of a history, oldest first *)
Fixpoint stores (cl : client) (h : hst) (rs : list krun) : list (list nat) :=
  match rs with [] => [] | r :: t => let h' := exec_krun cl h r in store h' :: stores cl h' t end.

Definition swept (r : krun) : bool := match r_sweep r with Some true => true | _ => false end.

(* ---- identity of the keys of a session's history ----
   plan-derived keys: the uuid of every transform step of the session's plan (get_uuids() of a TransformFrameworkStep is
   {self.uuid}: Orch.v `uuids`) *)
Definition stable_keys (p : plan) : list nat :=
  flat_map (fun s => match skind s with KTFS => uuids s | _ => [] end) p.

(* every run's plan-derived keys are keys of the session's plan; the uuid4 keys are new: pairwise different over the whole
   history, different from every plan-derived key and from whatever the store held before *)
Definition hist_okb (stab : list nat) (s0 : list nat) (rs : list krun) : bool :=
  forallb (fun r => subset (r_stable r) stab) rs
  && nodupb (flat_map r_fresh rs) && disjoint (flat_map r_fresh rs) (stab ++ s0).

(* keys that occur in the key set of more than one run *)
Fixpoint repeated (rs : list krun) : list nat :=
  match rs with [] => [] | r :: t => filter (fun k => mem k (flat_map r_keys t)) (r_keys r) ++ repeated t end.

(* ---- the runs of Model/Worker.v as runs of this model ----
   kap w = the key of object (worker) w in this run.  Worker.v: WUpload w registers the key of w; WDropAck w last=true
   dropped=true is the worker-side drop_last_data of an uploaded object; ODropAll ok is the sweep over `tasks`. *)
Definition sev_of (kap : nat -> nat) (c : cfg) (st : pst) (l : label) : list sev :=
  match l with
  | WUpload w => match phase (ws st w) with WRun _ => if mp c then [SUp (kap w)] else [] | _ => [] end
  | WDropAck w true true => [SWDrop (kap w)]
  | _ => []
  end.

Fixpoint sevs (kap : nat -> nat) (c : cfg) (st : pst) (tr : list label) : list sev :=
  match tr with
  | [] => []
  | l :: t => match step c st l with Some st' => sev_of kap c st l ++ sevs kap c st' t | None => [] end
  end.

Fixpoint sweep_of (tr : list label) : option bool :=
  match tr with
  | [] => None
  | ODropAll ok :: t => match sweep_of t with None => Some ok | x => x end
  | _ :: t => sweep_of t
  end.

(* the run record of a protocol trace that ended in state st; stab = the session's plan-derived keys *)
Definition run_of (kap : nat -> nat) (stab : list nat) (c : cfg) (tr : list label) (st : pst) : krun :=
  let ks := map kap (tasks st) in
  {| r_fresh := filter (fun k => negb (mem k stab)) ks; r_stable := filter (fun k => mem k stab) ks;
     r_body := sevs kap c pinit tr; r_sweep := sweep_of tr |}.

(* ---- checker for observed histories (T2) ----
   one observed run: (fresh keys, plan-derived keys, events, sweep, store observed after the call returned) *)
Record orec := { or_run : krun; or_after : list nat }.

Fixpoint chk_stores (ms : list (list nat)) (os : list orec) : bool :=
  match ms, os with
  | [], [] => true
  | m :: ms', o :: os' => set_eqb m (or_after o) && chk_stores ms' os'
  | _, _ => false
  end.

Record hcase := { hc_plan : plan; hc_store0 : list nat; hc_runs : list orec }.

Definition chk_rerun (k : hcase) : bool :=
  let rs := map or_run (hc_runs k) in
  hist_okb (stable_keys (hc_plan k)) (hc_store0 k) rs
  && forallb body_okb rs
  && chk_stores (stores CDirect {| store := hc_store0 k; memo := [] |} rs) (hc_runs k)
  && forallb (fun o => negb (swept (or_run o)) || disjoint (r_keys (or_run o)) (or_after o)) (hc_runs k).

(* diagnostics: 0 = the observed stores are those of the code's client, 1 = those of the memoising client, 2 = neither *)
Definition which_client (k : hcase) : nat :=
  let rs := map or_run (hc_runs k) in
  if chk_stores (stores CDirect {| store := hc_store0 k; memo := [] |} rs) (hc_runs k) then 0
  else if chk_stores (stores CMemo {| store := hc_store0 k; memo := [] |} rs) (hc_runs k) then 1 else 2.
