(* Model of how requested / dependency / filter / index features enter the engine's feature collection, and of
   which names a step asks the compute framework to return (C03).  Definitions only.
   Sources (under /repo/mloda/core):
     core/engine.py   Engine.add_feature_to_collection                  -> add_feature, collect
                      Engine.setup_features_recursion/_process_feature  -> process_feature, process_request
                      Engine._handle_input_features_recursion           -> the fold over [inputs]
                      Engine._add_filter_feature                        -> the fold over [filters_for]
                      Engine._add_index_feature/_process_index_feature/_create_and_add_index_feature
                        + components/index/add_index_feature.py          -> index_features
     abstract_plugins/components/feature.py  Feature.__eq__ (ignores initial_requested_data, uuid, link, index) -> feq
     (state of /repo after fix commit 069fedf: an equal stored feature inherits the request flag)
     abstract_plugins/components/feature_set.py  FeatureSet.get_initial_requested_features -> requested_names
     runtime/data_lifecycle_manager.py  add_to_result_data_collection/get_result_data      -> step_table
   A feature is (group, name, key, flag): [fkey] stands for every other attribute that Feature.__eq__ compares
   (options, domain, compute frameworks, data type, child_options); [fflag] is initial_requested_data.
   Set iteration orders (input_features(), matched filters, links) are the orders of the lists in [genv]. *)
From Coq Require Import List Bool String Arith.
Import ListNotations.
Require Import MV.Model.Naming.
Open Scope string_scope.
Open Scope list_scope.

Record feature := { fgrp : nat; fname : string; fkey : nat; fflag : bool }.

(* Feature.__eq__ within one feature-group collection (the collection is a dict keyed by group class) *)
Definition feq (a b : feature) : bool :=
  Nat.eqb (fgrp a) (fgrp b) && String.eqb (fname a) (fname b) && Nat.eqb (fkey a) (fkey b).

Definition set_requested (f : feature) : feature :=
  {| fgrp := fgrp f; fname := fname f; fkey := fkey f; fflag := true |}.

(* for stored_feature in feature_collection: if stored_feature == feature: stored.initial_requested_data = True; break *)
Fixpoint mark_requested (f : feature) (coll : list feature) : list feature :=
  match coll with
  | [] => []
  | h :: t => if feq h f then set_requested h :: t else h :: mark_requested f t
  end.

(* add_feature_to_collection: `if feature not in collection: add; return True`; otherwise, if the incoming feature is
   requested, the flag is set on the stored equal feature (fix 069fedf); `return False` *)
Definition add_feature (coll : list feature) (f : feature) : list feature * bool :=
  if existsb (feq f) coll
  then ((if fflag f then mark_requested f coll else coll), false)
  else (coll ++ [f], true).

Definition insert (coll : list feature) (f : feature) : list feature := fst (add_feature coll f).

(* the collection after a sequence of add_feature_to_collection calls *)
Definition collect_from (coll : list feature) (order : list feature) : list feature := fold_left insert order coll.
Definition collect (order : list feature) : list feature := collect_from [] order.

(* ---------- order in which the engine calls add_feature_to_collection ---------- *)
Record link := { lgrp : nat; lidx : list string; rgrp : nat; ridx : list string }.

Record genv := {
  group_of : string -> nat;                 (* IdentifyFeatureGroupClass on the (unnormalised) feature name *)
  supported : nat -> list string;           (* feature_names_supported() of the group *)
  inputs : nat -> string -> list string;    (* names of input_features(options, name), in iteration order of the set *)
  dep_key : nat -> nat;                     (* key of a dependency of a feature with the given key (child_options set) *)
  aux_key : nat -> nat;                     (* key of a filter / index feature created for a feature with the given key *)
  filters_for : nat -> option (list string);(* None: no GlobalFilter; Some l: matched filter feature names for the group *)
  index_cols : nat -> list (list string);   (* index_columns() of the group ([] = None/empty) *)
  links : option (list link)                (* None: links is None *)
}.

Fixpoint idx_eqb (a b : list string) : bool :=
  match a, b with
  | [], [] => true
  | x :: a', y :: b' => String.eqb x y && idx_eqb a' b'
  | _, _ => false
  end.

(* for index in indexes: for link in links: left match -> feature named index[0]; right match -> again *)
Definition index_features (g : nat) (idxs : list (list string)) (ls : list link) : list string :=
  flat_map (fun ix =>
    flat_map (fun l =>
      (if Nat.eqb (lgrp l) g && idx_eqb (lidx l) ix then [hd "" ix] else []) ++
      (if Nat.eqb (rgrp l) g && idx_eqb (ridx l) ix then [hd "" ix] else [])) ls) idxs.

(* state = (collection, trace of calls with their return value) *)
Definition pstate := (list feature * list (feature * bool))%type.

Definition add_st (st : pstate) (f : feature) : pstate * bool :=
  let '(c, a) := add_feature (fst st) f in ((c, snd st ++ [(f, a)]), a).

Definition add_aux (e : genv) (g key : nat) (st : pstate) (nm : string) : pstate :=
  fst (add_st st {| fgrp := g; fname := set_feature_name (supported e g) nm; fkey := aux_key e key; fflag := false |}).

(* _process_feature; [fuel] bounds the depth of the dependency recursion *)
Fixpoint process_feature (fuel : nat) (e : genv) (st : pstate) (nm : string) (key : nat) (flag : bool) : pstate :=
  match fuel with
  | 0 => st
  | S n =>
    let g := group_of e nm in
    let nm' := set_feature_name (supported e g) nm in
    let '(st1, added) := add_st st {| fgrp := g; fname := nm'; fkey := key; fflag := flag |} in
    let st2 := if added
               then fold_left (fun s d => process_feature n e s d (dep_key e key) false) (inputs e g nm') st1
               else st1 in
    let st3 := match filters_for e g with
               | None => st2
               | Some fl => fold_left (add_aux e g key) fl st2
               end in
    match index_cols e g, links e with
    | (_ :: _) as idxs, Some ls => fold_left (add_aux e g key) (index_features g idxs ls) st3
    | _, _ => st3
    end
  end.

(* mlodaAPI._process_features sets the flag on every requested feature; setup_features_recursion folds over the list *)
Definition process_request (fuel : nat) (e : genv) (req : list string) : pstate :=
  fold_left (fun s nm => process_feature fuel e s nm 0 true) req ([], []).

(* ---------- what a step asks for ---------- *)
Fixpoint dedup (l : list string) : list string :=
  match l with
  | [] => []
  | x :: t => if mem_str x t then dedup t else x :: dedup t
  end.

(* {feature.name for feature in self.features if feature.initial_requested_data} (a set: order meaningless) *)
Definition requested_names (fs : list feature) : list string := dedup (map fname (filter fflag fs)).

Definition step_features (step : feature -> nat) (coll : list feature) (s : nat) : list feature :=
  filter (fun f => Nat.eqb (step f) s) coll.

(* columns returned for step s when the compute framework holds columns [cols s] ([] = the step returns nothing) *)
Definition step_table (cols : nat -> list string) (step : feature -> nat) (coll : list feature) (s : nat) : list string :=
  select (cols s) (requested_names (step_features step coll s)).

(* ---------- where the selection reads its columns, per execution mode (Model/Modes.v) ----------
   DataLifecycleManager.get_result_data:
       if cfw.data is not None: data = cfw.data                                   SYNC, THREADING: the object's own data
       elif location: data = FlightServer.download_table(location, cfw.uuid)      MULTIPROCESSING: the parent's object is
             data = cfw.convert_flyserver_data_back(data, transformer)            empty; the worker process uploaded its
       return cfw.select_data_by_column_names(data, selected_feature_names, ..)   WHOLE table (all columns)
   [held s]: columns of the data of step s's compute-framework object where the step ran (parent: SYNC / THREADING, worker
   process: MULTIPROCESSING); [transferred s]: columns of the table the parent downloaded for it.  The selection of the
   requested columns happens after the transfer, on the names requested_names (the FeatureSet stays in the parent). *)
Require Import MV.Model.Modes.

Definition seen_cols (m : pmode) (held transferred : nat -> list string) (s : nat) : list string :=
  if transfers m then transferred s else held s.

Definition step_table_in (m : pmode) (held transferred : nat -> list string) (step : feature -> nat) (coll : list feature)
                         (s : nat) : list string :=
  step_table (seen_cols m held transferred) step coll s.
