(* Executable checkers over exported plans and observed histories (T2 / T3). Definitions only. They are evaluated by
   vm_compute on the plans exported from the real planner and on traces observed on the real orchestrator; their
   meaning is given by the theorems in Proofs/OrchP.v about the same definitions of Model/Orch.v. *)
From Coq Require Import List Bool Arith.
Import ListNotations.
Require Import MV.Model.Orch.

Definition list_eqb (a b : list nat) : bool :=
  Nat.eqb (length a) (length b) && forallb (fun xy => Nat.eqb (fst xy) (snd xy)) (combine a b).
Definition set_eqb (a b : list nat) : bool := subset a b && subset b a.

Inductive ostatus := OOk | ORaised | OHang.
Definition status_matches (o : ostatus) (s : status) : bool :=
  match o, s with OOk, ExitNormal => true | ORaised, Raised => true | _, _ => false end.

(* ---- SYNC: iterate scans until the loop head stops looping (fuel bounds the number of iterations) ---- *)
Fixpoint iter_scan (fuel : nat) (stream : bool) (fails : nat -> bool) (p : plan) (st : ost) : ost :=
  match fuel with
  | 0 => st
  | S f => match loop_head p st with
           | Looping => iter_scan f stream fails p (scan stream true fails p st)
           | _ => st
           end
  end.

Definition fails_of (l : list nat) : nat -> bool := fun s => mem s l.

(* observed: order in which step executions began, number of loop iterations, outcome, steps that raised *)
Definition chk_sync (c : plan * (list nat * nat * ostatus * list nat)) : bool :=
  match c with
  | (p, (begins, nscans, o, raised)) =>
    let st := iter_scan (2 * length p + 3) false (fails_of raised) p init in
    list_eqb (rev (started_ids st)) begins && status_matches o (loop_head p st)
    && (match o with OOk => Nat.eqb (scans st) nscans | _ => true end)
  end.

(* ---- gated THREADING history: rounds of (blocked set observed, released step, ok) ---- *)
Definition executing (st : ost) : list nat :=
  filter (fun s => negb (mem s (done st)) && negb (mem s (failed st))) (started_ids st).

Fixpoint replay_rounds (p : plan) (st : ost) (rounds : list (list nat * nat * bool)) : option ost :=
  match rounds with
  | [] => Some st
  | (blocked, rel, ok) :: t =>
    let st1 := scan false false (fun _ => false) p (scan false false (fun _ => false) p st) in
    if set_eqb (executing st1) blocked && mem rel blocked
    then replay_rounds p (worker_done st1 rel ok) t
    else None
  end.

Definition chk_gated (c : plan * (list (list nat * nat * bool) * ostatus)) : bool :=
  match c with
  | (p, (rounds, o)) =>
    match replay_rounds p init rounds with
    | None => false
    | Some st =>
      let st' := scan false false (fun _ => false) p (scan false false (fun _ => false) p st) in
      match executing st' with
      | [] => status_matches o (loop_head p st')
      | _ => false           (* history ended although the model still has executing steps *)
      end
    end
  end.

(* ---- T3: the required sets cover the ancestor closure of the feature graph ---- *)
(* adj: (child uuid, direct parent uuids) *)
Fixpoint parents_of (adj : list (nat * list nat)) (u : nat) : list nat :=
  match adj with [] => [] | (c, ps) :: t => if Nat.eqb c u then ps ++ parents_of t u else parents_of t u end.

Fixpoint ancestors (fuel : nat) (adj : list (nat * list nat)) (frontier acc : list nat) : list nat :=
  match fuel with
  | 0 => acc
  | S f =>
    let next := filter (fun x => negb (mem x acc)) (flat_map (parents_of adj) frontier) in
    match next with
    | [] => acc
    | _ => ancestors f adj next (acc ++ next)
    end
  end.

Definition req_covers (p : plan) (adj : list (nat * list nat)) : bool :=
  forallb (fun s => match skind s with
                    | KFG => forallb (fun u => subset (ancestors (length adj + 1) adj [u] []) (req s)) (uuids s)
                    | _ => true
                    end) p.

(* ---- conflicts: two steps that the wait-for relation does not order and that touch the same object ---- *)
(* foot: sid -> (written object, read objects), observed in a SYNC run *)
Definition foot := list (nat * (nat * list nat)).
Fixpoint foot_of (f : foot) (s : nat) : option (nat * list nat) :=
  match f with [] => None | (k, v) :: t => if Nat.eqb k s then Some v else foot_of t s end.

(* transitive wait-for closure on sids: s waits for every producer of its requirements *)
Definition direct_waits (p : plan) (s : step) : list nat :=
  flat_map (fun u => match find_producer p u with Some s' => [sid s'] | None => [] end) (req s).
Definition step_of (p : plan) (i : nat) : option step := find (fun s => Nat.eqb (sid s) i) p.
Fixpoint waits_closure (fuel : nat) (p : plan) (frontier acc : list nat) : list nat :=
  match fuel with
  | 0 => acc
  | S f =>
    let next := filter (fun x => negb (mem x acc))
                  (flat_map (fun i => match step_of p i with Some s => direct_waits p s | None => [] end) frontier) in
    match next with [] => acc | _ => waits_closure f p next (acc ++ next) end
  end.
Definition waits_for (p : plan) (s : step) : list nat := waits_closure (length p + 1) p [sid s] [].

Definition conflicting (f : foot) (a b : nat) : bool :=
  match foot_of f a, foot_of f b with
  | Some (wa, ra), Some (wb, rb) => Nat.eqb wa wb || mem wa rb || mem wb ra
  | _, _ => false
  end.

Definition unordered_conflicts (p : plan) (f : foot) : list (nat * nat) :=
  flat_map (fun a => flat_map (fun b =>
     if Nat.ltb (sid a) (sid b) && negb (mem (sid a) (waits_for p b)) && negb (mem (sid b) (waits_for p a))
        && conflicting f (sid a) (sid b) then [(sid a, sid b)] else []) p) p.

Definition conflict_free (p : plan) (f : foot) : bool :=
  match unordered_conflicts p f with [] => true | _ => false end.

(* streamed SYNC run: begin order, set of yielded steps, outcome *)
Definition chk_sync_stream (c : plan * (list nat * list nat * ostatus * list nat)) : bool :=
  match c with
  | (p, (begins, yields, o, raised)) =>
    let st := iter_scan (2 * length p + 3) true (fails_of raised) p init in
    list_eqb (rev (started_ids st)) begins && status_matches o (loop_head p st)
    && (match o with OOk => set_eqb (yielded st) yields && Nat.eqb (length (yielded st)) (length yields) | _ => subset yields (yielded st) end)
  end.

(* MULTIPROCESSING serialises the steps of one object in one worker process: only conflicts ACROSS objects remain
   (one step reads an object that an unordered step writes) *)
Definition conflicting_x (f : foot) (a b : nat) : bool :=
  match foot_of f a, foot_of f b with
  | Some (wa, ra), Some (wb, rb) => negb (Nat.eqb wa wb) && (mem wa rb || mem wb ra)
  | _, _ => false
  end.
Definition conflict_free_x (p : plan) (f : foot) : bool :=
  forallb (fun a => forallb (fun b =>
     negb (Nat.ltb (sid a) (sid b) && negb (mem (sid a) (waits_for p b)) && negb (mem (sid b) (waits_for p a))
           && conflicting_x f (sid a) (sid b))) p) p.

(* ---- in-place calculations (Model/DataPlaneInPlace.v): two unordered steps that are BOTH in place on ONE object are no
   hazard (each column insertion goes into the shared frame; the final write stores the same handle) ----
   styles: sid -> the step's calculation was observed to be in place (returned the object it was given / a Series);
   absent = replacing.  The exempted pair must have the footprint of two calculations on one object. *)
Definition styles := list (nat * bool).
Fixpoint style_of (y : styles) (s : nat) : bool :=
  match y with [] => false | (k, v) :: t => if Nat.eqb k s then v else style_of t s end.
Definition ip_pair (f : foot) (y : styles) (a b : nat) : bool :=
  style_of y a && style_of y b &&
  match foot_of f a, foot_of f b with
  | Some (wa, ra), Some (wb, rb) => Nat.eqb wa wb && forallb (Nat.eqb wa) ra && forallb (Nat.eqb wb) rb
  | _, _ => false
  end.
Definition unordered (p : plan) (a b : step) : bool :=
  negb (mem (sid a) (waits_for p b)) && negb (mem (sid b) (waits_for p a)).
Definition unordered_conflicts_ip (p : plan) (f : foot) (y : styles) : list (nat * nat) :=
  flat_map (fun a => flat_map (fun b =>
     if Nat.ltb (sid a) (sid b) && unordered p a b && conflicting f (sid a) (sid b) && negb (ip_pair f y (sid a) (sid b))
     then [(sid a, sid b)] else []) p) p.
Definition conflict_free_ip (p : plan) (f : foot) (y : styles) : bool :=
  match unordered_conflicts_ip p f y with [] => true | _ => false end.

(* column condition of the exempted pairs.  colsig: sid -> (columns written, columns read).
   Every in-place step writes at least one column, distinct columns, and reads none of them; two unordered in-place steps on one object write
   different columns and neither reads a column the other writes. *)
Definition colsig := list (nat * (list nat * list nat)).
Fixpoint cols_of (c : colsig) (s : nat) : list nat * list nat :=
  match c with [] => ([], []) | (k, v) :: t => if Nat.eqb k s then v else cols_of t s end.
Definition ip_disj (a b : list nat) : bool := forallb (fun x => negb (mem x b)) a.
Fixpoint ip_nodup (l : list nat) : bool := match l with [] => true | x :: t => negb (mem x t) && ip_nodup t end.
Definition ip_cols_ok (p : plan) (f : foot) (y : styles) (c : colsig) : bool :=
  forallb (fun a => negb (style_of y (sid a))
                    || (negb (Nat.eqb (length (fst (cols_of c (sid a)))) 0)
                        && ip_nodup (fst (cols_of c (sid a))) && ip_disj (snd (cols_of c (sid a))) (fst (cols_of c (sid a))))) p
  && forallb (fun a => forallb (fun b =>
       negb (negb (Nat.eqb (sid a) (sid b)) && unordered p a b && ip_pair f y (sid a) (sid b))
       || (ip_disj (fst (cols_of c (sid a))) (fst (cols_of c (sid b)))
           && ip_disj (snd (cols_of c (sid a))) (fst (cols_of c (sid b)))
           && ip_disj (snd (cols_of c (sid b))) (fst (cols_of c (sid a))))) p) p.
