(* Value-level model of the conversions between the three base compute frameworks (C14).  Definitions only.

   Sources (mloda code, modelled faithfully including its defects):
     d2a        mloda_plugins/compute_framework/base_implementations/python_dict/python_dict_pyarrow_transformer.py
                PythonDictPyArrowTransformer.transform_fw_to_other_fw :  [] -> pa.table({});  the schema-consistency loop
                (`set(item.keys()) != first_keys` -> ValueError)  = schema_ok;  then pa.Table.from_pylist(data) = from_pylist
     a2d        PythonDictPyArrowTransformer.transform_other_fw_to_fw :  data.to_pylist()
     p2a        mloda_plugins/compute_framework/base_implementations/pandas/pandaspyarrowtransformer.py
                PandasPyArrowTransformer.transform_fw_to_other_fw :  pa.Table.from_pandas(data, preserve_index=False), the
                b"pandas" schema metadata dropped, pa.Table.from_arrays(columns, schema)
     a2p        PandasPyArrowTransformer.transform_other_fw_to_fw :  pa.Table.to_pandas(data)
     mfwd/mbwd  the two classes above as the `fwd` / `bwd` parameters of Model/Transform.v (which class runs, in which
                direction, for which pair of frameworks is decided THERE; pandas <-> list has no transformer of its own and goes
                through pa.Table in two hops)

   TRUSTED BASE -- library behaviour that is MODELLED here, not verified (pyarrow 25.0.1, pandas 3.0.6, numpy 2.5.3, CPython
   3.12; tied to the real libraries on every run by harness/c14.py `chk_conv`, cell by cell and bit-exact on floats):
     L1  pa.Table.from_pylist(rows): column names = keys of rows[0] in dict order; the cell of (row, name) is
         row.get(name) -- looked up BY NAME, a missing key is None, keys that rows[0] does not have are ignored.
     L2  pyarrow type inference for one column of Python values (from_pylist, and from_pandas on an object column): None is
         null; all None -> type null; otherwise the common kind of the non-null values: int -> int64, float -> double,
         str -> string, bool -> bool.  A float NaN stays a NaN VALUE in from_pylist (from_pandas=False) and is a NULL in
         from_pandas.  Anything else (mixed kinds, int outside int64) raises or coerces: `Unmodelled`, outside the domain.
     L3  pa.Table.to_pylist(): one dict per row, keys = column names in column order, null -> None, values unchanged
         (int64 -> int, double -> float incl. NaN/inf/-0.0, string -> str, bool -> bool); a table with 0 rows gives [].
     L4  pa.Table.to_pandas(), per column: int64 without null -> int64; int64 WITH a null -> float64, each value converted
         by C `static_cast<double>` = IEEE-754 round-to-nearest-even (z2f below = SpecFloat.binary_normalize 53 1024),
         null -> NaN; double -> float64, null -> NaN; string / large_string -> dtype `str` (missing = NaN); bool without null
         -> bool; bool with a null -> object of True/False/None; type null -> object of None.  Column names, column order,
         row order kept; the result has a RangeIndex.
     L5  pa.Table.from_pandas(df, preserve_index=False), per column by dtype: int64 -> int64 (no nulls); float64 -> double
         with NaN -> null; bool -> bool; `str` -> (large_)string, missing -> null; object -> inference L2 after NaN/None ->
         null.  The index never becomes a column (preserve_index=False); names, column order, row order kept.
     L6  IEEE doubles are (sign, mantissa, exponent) triples in the canonical form of SpecFloat; there is ONE NaN (payload and
         sign of NaN are not observable through float.hex()).  string and large_string are not distinguished.
     L7  strings are copied unchanged (a Coq `string` is the UTF-8 byte sequence); dict keys are unique per row; a table without
         columns has no rows (pa.Table.from_pylist([{}, {}]) and from_pandas of a column-less frame both have 0 rows).
   Not modelled at all: nullable pandas extension dtypes (Int64, boolean, ...), chunking (a chunked column is its
   concatenation), nested / temporal / decimal types, duplicate column names. *)
From Coq Require Import List Bool Arith ZArith String SpecFloat.
Import ListNotations.
Require Import MV.Model.Transform.
Open Scope Z_scope.

(* ---------- cells ---------- *)
Definition f64 := spec_float.

Inductive cell :=
| VNull                    (* None / Arrow null / pandas NaN-as-missing / pd.NA *)
| VInt (z : Z)             (* int64: -2^63 <= z < 2^63 *)
| VFloat (f : f64)         (* IEEE-754 binary64, bit-exact *)
| VStr (s : string)
| VBool (b : bool).

Definition int64_ok (z : Z) : bool := (- 2 ^ 63 <=? z) && (z <? 2 ^ 63).

(* int64 -> float64 as numpy / Arrow do it: round to nearest, ties to even (L4) *)
Definition z2f (z : Z) : f64 := binary_normalize 53 1024 z 0 false.

Definition is_nan (f : f64) : bool := match f with S754_nan => true | _ => false end.

(* outcome of a conversion *)
Inductive res (T : Type) :=
| Ok (t : T)
| Rejected               (* the transformer's own ValueError (python-dict schema check) *)
| Unmodelled.            (* pyarrow raises or coerces: outside the modelled value domain (L2) *)
Arguments Ok {T} t.
Arguments Rejected {T}.
Arguments Unmodelled {T}.

Definition res_bind {A B} (r : res A) (f : A -> res B) : res B :=
  match r with Ok a => f a | Rejected => Rejected | Unmodelled => Unmodelled end.

Fixpoint res_all {A} (l : list (res A)) : res (list A) :=
  match l with
  | [] => Ok []
  | r :: l' => res_bind r (fun a => res_bind (res_all l') (fun t => Ok (a :: t)))
  end.

(* ---------- the three representations ---------- *)
(* python-dict framework: a list of dicts; a dict is an insertion-ordered association list (keys unique, L7) *)
Definition drow := list (string * cell).
Definition dtable := list drow.

(* Arrow: typed columns with validity *)
Inductive acol :=
| ANull (n : nat)                         (* type null, n rows *)
| AInt (l : list (option Z))              (* int64 *)
| AFloat (l : list (option f64))          (* double; Some NaN is a value, None is a null *)
| AStr (l : list (option string))         (* string / large_string *)
| ABool (l : list (option bool)).
Definition atable := list (string * acol).

(* pandas: columns with a dtype *)
Inductive pcol :=
| PInt (l : list Z)                       (* int64: cannot hold a missing value *)
| PFloat (l : list f64)                   (* float64: NaN is the missing value *)
| PBool (l : list bool)                   (* bool: cannot hold a missing value *)
| PStr (l : list (option string))         (* dtype str (StringDtype(na_value=nan)); None = missing *)
| PObj (l : list cell).                   (* object: arbitrary Python values; None / NaN / pd.NA are all VNull *)
Definition ptable := list (string * pcol).

(* ---------- cells of a column, top to bottom ---------- *)
Definition of_oint (o : option Z) : cell := match o with Some z => VInt z | None => VNull end.
Definition of_ofloat (o : option f64) : cell := match o with Some f => VFloat f | None => VNull end.
Definition of_ostr (o : option string) : cell := match o with Some s => VStr s | None => VNull end.
Definition of_obool (o : option bool) : cell := match o with Some b => VBool b | None => VNull end.

Definition acol_cells (c : acol) : list cell :=
  match c with
  | ANull n => repeat VNull n
  | AInt l => map of_oint l
  | AFloat l => map of_ofloat l
  | AStr l => map of_ostr l
  | ABool l => map of_obool l
  end.

Definition pcol_cells (c : pcol) : list cell :=
  match c with
  | PInt l => map VInt l
  | PFloat l => map VFloat l
  | PBool l => map VBool l
  | PStr l => map of_ostr l
  | PObj l => l
  end.

(* ---------- pyarrow type inference for a column of Python values (L2) ---------- *)
Inductive kind := KInt | KFloat | KStr | KBool.
Definition kind_eqb (a b : kind) : bool :=
  match a, b with KInt, KInt | KFloat, KFloat | KStr, KStr | KBool, KBool => true | _, _ => false end.

Definition cell_kind (c : cell) : option kind :=
  match c with VNull => None | VInt _ => Some KInt | VFloat _ => Some KFloat | VStr _ => Some KStr | VBool _ => Some KBool end.

Inductive inferred := InfNull | InfKind (k : kind) | InfMixed.

Fixpoint infer (cs : list cell) : inferred :=
  match cs with
  | [] => InfNull
  | c :: r =>
      match cell_kind c, infer r with
      | None, i => i
      | Some k, InfNull => InfKind k
      | Some k, InfKind k' => if kind_eqb k k' then InfKind k else InfMixed
      | Some _, InfMixed => InfMixed
      end
  end.

Definition as_int (c : cell) : option Z := match c with VInt z => Some z | _ => None end.
Definition as_float (c : cell) : option f64 := match c with VFloat f => Some f | _ => None end.
Definition as_str (c : cell) : option string := match c with VStr s => Some s | _ => None end.
Definition as_bool (c : cell) : option bool := match c with VBool b => Some b | _ => None end.

Definition cell_int64 (c : cell) : bool := match c with VInt z => int64_ok z | _ => true end.

Definition build_acol (cs : list cell) : res acol :=
  match infer cs with
  | InfNull => Ok (ANull (List.length cs))
  | InfKind KInt => if forallb cell_int64 cs then Ok (AInt (map as_int cs)) else Unmodelled   (* OverflowError *)
  | InfKind KFloat => Ok (AFloat (map as_float cs))
  | InfKind KStr => Ok (AStr (map as_str cs))
  | InfKind KBool => Ok (ABool (map as_bool cs))
  | InfMixed => Unmodelled
  end.

(* ---------- python-dict -> Arrow ---------- *)
Definition keys (r : drow) : list string := map fst r.

Fixpoint dget (r : drow) (k : string) : option cell :=
  match r with
  | [] => None
  | (k', v) :: r' => if String.eqb k' k then Some v else dget r' k
  end.

Definition mem (k : string) (l : list string) : bool := existsb (String.eqb k) l.

(* set(item.keys()) == first_keys *)
Definition same_keys (r r0 : drow) : bool :=
  forallb (fun k => mem k (keys r0)) (keys r) && forallb (fun k => mem k (keys r)) (keys r0).

(* the schema-consistency loop of transform_fw_to_other_fw: false = ValueError "Inconsistent schema at index i" *)
Definition schema_ok (rows : dtable) : bool :=
  match rows with
  | [] => true
  | r0 :: _ => forallb (fun r => same_keys r r0) rows
  end.

(* row.get(name): a missing key is None (L1) *)
Definition dcell (k : string) (r : drow) : cell := match dget r k with Some c => c | None => VNull end.

(* pa.Table.from_pylist (L1, L2) *)
Definition from_pylist (rows : dtable) : res atable :=
  match rows with
  | [] => Ok []
  | r0 :: _ => res_all (map (fun k => res_bind (build_acol (map (dcell k) rows)) (fun c => Ok (k, c))) (keys r0))
  end.

Definition d2a (rows : dtable) : res atable :=
  match rows with
  | [] => Ok []                                           (* `if not data: return pa.table({})` *)
  | _ :: _ => if schema_ok rows then from_pylist rows else Rejected
  end.

(* ---------- Arrow -> python-dict: to_pylist (L3) ---------- *)
Definition acol_len (c : acol) : nat := List.length (acol_cells c).
Definition a_nrows (t : atable) : nat := match t with [] => 0%nat | (_, c) :: _ => acol_len c end.

Definition a2d (t : atable) : dtable :=
  map (fun i => map (fun nc : string * acol => (fst nc, nth i (acol_cells (snd nc)) VNull)) t) (seq 0 (a_nrows t)).

(* ---------- Arrow -> pandas: to_pandas (L4) ---------- *)
Definition is_some {A} (o : option A) : bool := match o with Some _ => true | None => false end.
Definition all_some {A} (l : list (option A)) : bool := forallb is_some l.

Definition a2p_col (c : acol) : pcol :=
  match c with
  | ANull n => PObj (repeat VNull n)
  | AInt l => if all_some l then PInt (map (fun o => match o with Some z => z | None => 0 end) l)
              else PFloat (map (fun o => match o with Some z => z2f z | None => S754_nan end) l)    (* the widening *)
  | AFloat l => PFloat (map (fun o => match o with Some f => f | None => S754_nan end) l)
  | AStr l => PStr l
  | ABool l => if all_some l then PBool (map (fun o => match o with Some b => b | None => false end) l)
               else PObj (map of_obool l)
  end.

Definition a2p (t : atable) : ptable := map (fun nc => (fst nc, a2p_col (snd nc))) t.

(* ---------- pandas -> Arrow: from_pandas(preserve_index=False) (L5) ---------- *)
Definition nan_to_null (c : cell) : cell := match c with VFloat S754_nan => VNull | _ => c end.

Definition p2a_col (c : pcol) : res acol :=
  match c with
  | PInt l => Ok (AInt (map Some l))
  | PFloat l => Ok (AFloat (map (fun f => if is_nan f then None else Some f) l))
  | PBool l => Ok (ABool (map Some l))
  | PStr l => Ok (AStr l)
  | PObj l => build_acol (map nan_to_null l)
  end.

Definition p2a (t : ptable) : res atable :=
  res_all (map (fun nc => res_bind (p2a_col (snd nc)) (fun c => Ok (fst nc, c))) t).

(* ---------- the six conversions between the three frameworks ---------- *)
Inductive fwk := FDict | FArrow | FPandas.
Definition fwk_eqb (a b : fwk) : bool :=
  match a, b with FDict, FDict | FArrow, FArrow | FPandas, FPandas => true | _, _ => false end.

(* a table of any framework; TFail = the conversion raised *)
Inductive anytable :=
| TDict (t : dtable)
| TArrow (t : atable)
| TPandas (t : ptable)
| TFail (rejected : bool).            (* true: the transformer's own ValueError; false: Unmodelled / wrong input type *)

Definition of_res (r : res atable) : anytable :=
  match r with Ok t => TArrow t | Rejected => TFail true | Unmodelled => TFail false end.

(* the four transformer functions on arbitrary input (a table of the wrong framework raises) *)
Definition cv_d2a (x : anytable) : anytable := match x with TDict t => of_res (d2a t) | TFail r => TFail r | _ => TFail false end.
Definition cv_a2d (x : anytable) : anytable := match x with TArrow t => TDict (a2d t) | TFail r => TFail r | _ => TFail false end.
Definition cv_p2a (x : anytable) : anytable := match x with TPandas t => of_res (p2a t) | TFail r => TFail r | _ => TFail false end.
Definition cv_a2p (x : anytable) : anytable := match x with TArrow t => TPandas (a2p t) | TFail r => TFail r | _ => TFail false end.

(* source framework -> target framework; pandas <-> list goes through Arrow (two hops) *)
Definition conv (a b : fwk) (x : anytable) : anytable :=
  match a, b with
  | FDict, FArrow => cv_d2a x
  | FArrow, FDict => cv_a2d x
  | FPandas, FArrow => cv_p2a x
  | FArrow, FPandas => cv_a2p x
  | FDict, FPandas => cv_a2p (cv_d2a x)
  | FPandas, FDict => cv_a2d (cv_p2a x)
  | _, _ => x
  end.

(* ---------- the two installed transformer classes as parameters of Model/Transform.v ----------
   nd na np: the numbers Gen/Registry.v gives to builtins.list, pyarrow.lib.Table, pandas.DataFrame.
   transform_fw_to_other_fw (mfwd) / transform_other_fw_to_fw (mbwd) of the class whose framework() / other_framework()
   are the declared ones; any other class: not modelled (raises). *)
Definition is_decl (d : tdecl) (f o : fw) : bool := ofw_eqb (t_fw d) (Some f) && ofw_eqb (t_other d) (Some o).

Definition mfwd (nd na np : fw) (d : tdecl) (x : anytable) : anytable :=
  if is_decl d nd na then cv_d2a x else if is_decl d np na then cv_p2a x else TFail false.
Definition mbwd (nd na np : fw) (d : tdecl) (x : anytable) : anytable :=
  if is_decl d nd na then cv_a2d x else if is_decl d np na then cv_a2p x else TFail false.
