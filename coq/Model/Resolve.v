(* Model of feature -> (feature group, compute frameworks) resolution (C10).  Definitions only.
   Sources (under /repo/mloda/core):
     api/prepare/setup_compute_framework.py  SetupComputeFramework.__init__, filter_user_set_in_available_sub_classes,
                                             validate_if_at_least_one_feature_compute_framework_is_in_available_compute_framework
                                             -> api_set, precheck (ENoApiFramework, EFeatureFwNotInApi)
     abstract_plugins/components/feature.py  Feature._set_compute_framework / FeatureValidator        -> precheck (EFwUnknown)
     abstract_plugins/components/plugin_option/plugin_collector.py  applicable_feature_group_class    -> applicable
     prepare/accessible_plugins.py           PreFilterPlugins._set_feature_groups (ENoAccessible), _set_compute_frameworks
                                             (usable), resolve_feature_group_compute_framework_limitations (group_fws, accessible)
     abstract_plugins/feature_group.py       compute_framework_definition (cfd), get_domain, match_feature_group_criteria
                                             (as the set of accepted names), index_columns / supports_index
     abstract_plugins/components/domain.py   Domain.__eq__ (name equality)
     prepare/identify_feature_group.py       _filter_loop (keep: criteria, domain, framework, links, non-empty frameworks),
                                             filter_subclasses (popped / survivors), validate, get
     core/engine.py                          Engine.set_compute_framework (set_cfw, feature_fws)
     api/plugin_docs.py                      resolve_feature / _filter_subclasses (doc_resolve)

   Conventions.  A Python set or dict is a list; its order stands for the iteration order (hash order of class objects =
   memory addresses).  `next(iter(s))` in Feature.get_compute_framework is the parameter `choice`.  A class is identified by
   `cid` (Python: the class object); `supers` are the proper ancestors among feature-group classes (`__mro__` without the
   class itself), so issubclass(i, o) = (i is o) or o in supers(i).

   Compute frameworks: IDENTITY and NAME are different things.  `fw` is a compute-framework CLASS OBJECT (a number = its
   identity); `cname e x` is its class name (get_class_name() = __name__, numbered).  Names need NOT be unique among the
   classes that exist: a class factory, a notebook cell run twice (the old class stays in __subclasses__()), a plug-in that
   shadows a built-in name all give same-named "twins".  The classes that exist in the process are `existing`, those whose
   is_available() is true are `available`.  Where the code compares frameworks it does so
     BY NAME     - a `str` entry of the API argument compute_frameworks (`sub.get_class_name() in request`): AName n selects
                   EVERY existing class named n;   Feature(compute_framework="N") / options["compute_framework"]
                   (FeatureValidator.validate_and_resolve_compute_framework: the FIRST class named N in the iteration order
                   of get_all_subclasses(ComputeFramework)): feature_fw_of_name;
     BY IDENTITY - a class entry of the API argument (`sub in request`): AClass x selects exactly x;  feature.compute_frameworks
                   (a set of class objects: `cf in available_compute_frameworks`, `get_compute_framework() in compute_frameworks`);
                   the group's compute_framework_rule set (`cp_fg in compute_frameworks`); set == in filter_subclasses.
   `ffw` of a request is the class object Feature.__init__ has put into feature.compute_frameworks (a number outside
   `existing` stands for a name that resolved to no class; the real Feature(...) raises at once: EFwUnknown).
   Modelled faithfully, including what looks odd: a subclass only replaces its parent when both have the SAME set of usable
   frameworks; an empty enabled-set in the collector means "everything enabled"; a feature-level framework NAME carried by
   several classes is resolved to whichever comes first in set iteration order (resolve_named). *)
From Coq Require Import List Bool String Arith.
Require MV.Model.LinkSel.
Import ListNotations.
Open Scope string_scope.
Open Scope list_scope.

Definition fw := nat.                 (* a compute-framework class OBJECT (identity) *)
Definition fwname := nat.             (* a class NAME (get_class_name()); several classes may carry one name *)
Definition index := list string.

(* one element of the API argument `compute_frameworks` (a list of str or a set of str | type) *)
Inductive apient :=
| AName (n : fwname)                  (* a string: selects every existing class with that name *)
| AClass (x : fw).                    (* a class object: selects exactly that class *)

Record fgclass := {
  cid : nat;                          (* the class object *)
  supers : list nat;                  (* proper ancestors (transitively), as cids *)
  accepts : list string;              (* feature names for which match_feature_group_criteria is true *)
  dom : string;                       (* get_domain().name *)
  rule : option (list fw);            (* compute_framework_rule: None = True, Some s = explicit set *)
  idxcols : option (list index) }.    (* index_columns() *)

Record env := {
  existing : list fw;                 (* get_all_subclasses(ComputeFramework) *)
  available : list fw;                (* {c in existing | c.is_available()} *)
  cname : fw -> fwname }.             (* c.get_class_name(); NOT injective in general *)

Record request := {
  api : list apient;                            (* compute_frameworks argument of run_all/prepare; [] = None/empty *)
  collector : option (list nat * list nat);     (* PluginCollector: (enabled, disabled); None = no collector *)
  fname : string;                               (* feature name *)
  fdom : option string;                         (* Feature(domain=...) or options["domain"] *)
  ffw : option fw;                              (* feature.compute_frameworks = {class} after Feature(compute_framework=...) /
                                                   options["compute_framework"]: a class OBJECT *)
  links : option (list (index * index)) }.      (* (left_index, right_index) of every Link given to the API *)

Inductive err :=
| EFwUnknown            (* Feature(...): "Compute framework via parameter X not found." *)
| ENoApiFramework       (* "No given compute frameworks ... found in available compute frameworks" *)
| EFeatureFwNotInApi    (* "Feature f has compute frameworks ... not in ..." *)
| ENoAccessible         (* "No accessible feature groups found." *)
| ENoGroup              (* "No feature groups found for feature name: f." *)
| EMultiple             (* "Multiple feature groups found for feature 'f': ..." *)
| ENoFramework          (* validate: "... has no compute framework." *)
| EFwUnsupported.       (* set_compute_framework: "Feature f does not support compute framework ..." *)

Inductive result := Chosen (c : nat) (gf : list fw) | Rejected (e : err).

Definition mem (x : nat) (l : list nat) : bool := existsb (Nat.eqb x) l.
Definition smem (x : string) (l : list string) : bool := existsb (String.eqb x) l.
Definition subset (a b : list nat) : bool := forallb (fun x => mem x b) a.
Definition set_eqb (a b : list nat) : bool := subset a b && subset b a.          (* Python set == *)
Definition nonempty {A} (l : list A) : bool := match l with [] => false | _ => true end.

(* ---------- SetupComputeFramework ---------- *)
(* filter_user_set_in_available_sub_classes: `sub.get_class_name() in request or sub in request` for one element of the
   request: a str equals the NAME of sub, a class object IS sub *)
Definition entry_selects (e : env) (a : apient) (s : fw) : bool :=
  match a with
  | AName n => Nat.eqb (cname e s) n
  | AClass x => Nat.eqb s x
  end.
Definition api_selects (e : env) (l : list apient) (s : fw) : bool := existsb (fun a => entry_selects e a s) l.
Definition api_set (e : env) (rq : request) : list fw :=
  match api rq with
  | [] => existing e                                          (* `if user_compute_frameworks:` is false *)
  | _ => filter (api_selects e (api rq)) (existing e)         (* filter_user_set_in_available_sub_classes *)
  end.

(* ---------- PluginCollector.applicable_feature_group_class / `if plugin_collector:` ---------- *)
Definition applicable (rq : request) (c : fgclass) : bool :=
  match collector rq with
  | None => true
  | Some (en, dis) => negb (mem (cid c) dis) && (match en with [] => true | _ => mem (cid c) en end)
  end.

(* errors raised before any feature is looked at, in the order of the code *)
Definition precheck (e : env) (u : list fgclass) (rq : request) : option err :=
  if match ffw rq with Some x => negb (mem x (existing e)) | None => false end then Some EFwUnknown
  else if nonempty (api rq) && negb (nonempty (api_set e rq)) then Some ENoApiFramework
  else if match ffw rq with Some x => negb (mem x (api_set e rq)) | None => false end then Some EFeatureFwNotInApi
  else if negb (nonempty (filter (applicable rq) u)) then Some ENoAccessible
  else None.

(* ---------- PreFilterPlugins ---------- *)
Definition usable (e : env) (rq : request) : list fw := filter (fun x => mem x (available e)) (api_set e rq).
Definition cfd (e : env) (c : fgclass) : list fw := match rule c with None => existing e | Some s => s end.
Definition group_fws (e : env) (rq : request) (c : fgclass) : list fw := filter (fun x => mem x (usable e rq)) (cfd e c).
Definition accessible (e : env) (rq : request) (u : list fgclass) : list (fgclass * list fw) :=
  map (fun c => (c, group_fws e rq c)) (filter (applicable rq) u).

(* ---------- IdentifyFeatureGroupClass._filter_loop ---------- *)
Definition criteria (rq : request) (c : fgclass) : bool := smem (fname rq) (accepts c).
Definition domain_ok (rq : request) (c : fgclass) : bool :=
  match fdom rq with None => true | Some d => String.eqb (dom c) d end.
Definition fw_ok (rq : request) (gf : list fw) : bool := match ffw rq with None => true | Some x => mem x gf end.
Definition supports (cols : list index) (i : index) : bool :=
  match LinkSel.supports_index (Some cols) i with Some b => b | None => false end.
Definition links_ok (rq : request) (c : fgclass) : bool :=
  match idxcols c with
  | None => true
  | Some cols => match links rq with
                 | None => true
                 | Some ls => existsb (fun l => supports cols (fst l) || supports cols (snd l)) ls
                 end
  end.
Definition keep (rq : request) (p : fgclass * list fw) : bool :=
  criteria rq (fst p) && domain_ok rq (fst p) && fw_ok rq (snd p) && links_ok rq (fst p) && nonempty (snd p).
Definition identified (e : env) (rq : request) (u : list fgclass) : list (fgclass * list fw) :=
  filter (keep rq) (accessible e rq u).

(* ---------- filter_subclasses ---------- *)
Definition issub (i o : fgclass) : bool := Nat.eqb (cid i) (cid o) || mem (cid o) (supers i).
Definition popped (ident : list (fgclass * list fw)) (o : fgclass * list fw) : bool :=
  existsb (fun i => set_eqb (snd i) (snd o) && negb (Nat.eqb (cid (fst i)) (cid (fst o))) && issub (fst i) (fst o)) ident.
Definition filter_subclasses (ident : list (fgclass * list fw)) : list (fgclass * list fw) :=
  filter (fun o => negb (popped ident o)) ident.
Definition survivors (e : env) (rq : request) (u : list fgclass) : list (fgclass * list fw) :=
  filter_subclasses (identified e rq u).

(* ---------- validate / get ---------- *)
Definition validate (l : list (fgclass * list fw)) : result :=
  match l with
  | [] => Rejected ENoGroup
  | [(c, gf)] => match gf with [] => Rejected ENoFramework | _ => Chosen (cid c) gf end
  | _ => Rejected EMultiple
  end.

(* ---------- Engine.set_compute_framework: the feature's framework set afterwards (None = raises) ---------- *)
Definition set_cfw (rq : request) (gf : list fw) : option (list fw) :=
  match ffw rq with
  | Some x => if mem x gf then Some [x] else None
  | None => Some gf
  end.
Definition feature_fws (rq : request) (gf : list fw) : list fw := match ffw rq with Some x => [x] | None => gf end.

Definition resolve (e : env) (u : list fgclass) (rq : request) : result :=
  match precheck e u rq with
  | Some er => Rejected er
  | None => match validate (survivors e rq u) with
            | Chosen n gf => match set_cfw rq gf with Some _ => Chosen n gf | None => Rejected EFwUnsupported end
            | r => r
            end
  end.

(* ---------- Feature(name, compute_framework="N") / options["compute_framework"] = "N" ----------
   Feature._set_compute_framework -> FeatureValidator.validate_and_resolve_compute_framework:
     for subclass in get_all_subclasses(ComputeFramework): if N == subclass.get_class_name(): return subclass
   i.e. the FIRST class with that name in the iteration order of the set (list order of `existing`); raises when there is none.
   The class found becomes feature.compute_frameworks = {class}; everything after that compares class objects. *)
Definition feature_fw_of_name (e : env) (n : fwname) : option fw :=
  find (fun s => Nat.eqb (cname e s) n) (existing e).
Definition with_ffw (rq : request) (x : option fw) : request :=
  {| api := api rq; collector := collector rq; fname := fname rq; fdom := fdom rq; ffw := x; links := links rq |}.
(* the request as the USER writes it: the feature's framework is a name (fn), not a class *)
Definition resolve_named (e : env) (u : list fgclass) (rq : request) (fn : option fwname) : result :=
  match fn with
  | None => resolve e u (with_ffw rq None)
  | Some n => match feature_fw_of_name e n with
              | None => Rejected EFwUnknown
              | Some x => resolve e u (with_ffw rq (Some x))
              end
  end.

(* ---------- for contrast only (NOT the implementation): the API list "normalised to names" - every class entry replaced by
   its class name, then everything selected by name.  Used by one refutation example: a class entry then also admits every
   same-named twin. ---------- *)
Definition entry_name (e : env) (a : apient) : fwname := match a with AName n => n | AClass x => cname e x end.
Definition names_only (e : env) (rq : request) : request :=
  {| api := map (fun a => AName (entry_name e a)) (api rq); collector := collector rq; fname := fname rq; fdom := fdom rq;
     ffw := ffw rq; links := links rq |}.

(* the framework a step of this feature runs on: Feature.get_compute_framework = next(iter(feature.compute_frameworks)) *)
Definition run_fw (choice : list fw -> fw) (rq : request) (gf : list fw) : fw := choice (feature_fws rq gf).

(* ---------- plugin_docs.resolve_feature: criteria only, unconditional subclass preference ---------- *)
Definition doc_popped (cands : list fgclass) (o : fgclass) : bool :=
  existsb (fun i => negb (Nat.eqb (cid i) (cid o)) && issub i o) cands.
Definition doc_resolve (u : list fgclass) (name : string) : option (option nat) :=    (* None = "No FeatureGroup found" *)
  match filter (fun c => smem name (accepts c)) u with
  | [] => None
  | cands => match filter (fun o => negb (doc_popped cands o)) cands with
             | [c] => Some (Some (cid c))
             | _ => Some None                                                        (* "Multiple FeatureGroups match" *)
             end
  end.
