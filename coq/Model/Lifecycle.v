(* Model of the drop bookkeeping of one compute-framework object and of the deferred drops of uploaded datasets (C09).
   Sources: ComputeFramework.add_already_calculated_children_and_drop_if_possible (compute_framework.py),
   ExecutionOrchestrator._drop_data_if_possible / _process_step_result (run.py),
   DataLifecycleManager.drop_data_for_finished_cfws / track_data_to_drop (data_lifecycle_manager.py),
   WorkerManager.join_all (worker_manager.py).  Definitions only. *)
From Coq Require Import List Bool Arith.
Import ListNotations.
Require Import MV.Model.Orch.

(* ---- one object: children_if_root, tracker, has the data been dropped, how many uploads are outstanding ---- *)
Record cobj := { children : list nat; tracker : list nat; dropped : bool; uploads : nat }.

Definition new_obj (ch : list nat) : cobj := {| children := ch; tracker := []; dropped := false; uploads := 0 |}.

(* add_already_calculated_children_and_drop_if_possible(children of a finished FG step) ->
   (object', result) where result: inl true = dropped now; inr ids = "track for later drop" (object has uploads);
   inl false = nothing *)
Definition add_children (o : cobj) (fs : list nat) : cobj * (bool + list nat) :=
  let tr := fs ++ tracker o in
  if subset (children o) tr then
    ({| children := children o; tracker := tr; dropped := true; uploads := 0 |}, inl true)
  else if Nat.ltb 0 (uploads o) then
    ({| children := children o; tracker := tr; dropped := dropped o; uploads := uploads o |}, inr (children o))
  else ({| children := children o; tracker := tr; dropped := dropped o; uploads := uploads o |}, inl false).

Definition upload (o : cobj) : cobj :=
  {| children := children o; tracker := tracker o; dropped := dropped o; uploads := S (uploads o) |}.

(* the sequence of results processed for this object: each is the feature uuids of one finished FG step *)
Definition process_all (o : cobj) (fss : list (list nat)) : cobj :=
  fold_left (fun o fs => fst (add_children o fs)) fss o.

(* ---- deferred drops: track_data_to_drop : cfw -> set of ids; dropped when all are finished ---- *)
Definition tracked := list (nat * list nat).
Definition drop_finished (t : tracked) (finished : list nat) : tracked * list nat :=
  (filter (fun e => negb (subset (snd e) finished)) t,
   map fst (filter (fun e => subset (snd e) finished) t)).

(* ---- tasks: every started worker is joined in the finally block of compute / compute_stream ---- *)
Record tasks := { started_tasks : list nat; joined_tasks : list nat }.
Definition start_task (t : tasks) (x : nat) : tasks := {| started_tasks := x :: started_tasks t; joined_tasks := joined_tasks t |}.
Definition join_all (t : tasks) : tasks := {| started_tasks := started_tasks t; joined_tasks := started_tasks t |}.
(* any exit path: normal, raise at the loop head, exception inside the loop body, generator abandoned *)
Inductive exit_path := ENormal | ERaiseHead | ERaiseBody | EAbandon.
Definition run_tasks (starts : list nat) (_ : exit_path) : tasks :=
  join_all (fold_left start_task starts {| started_tasks := []; joined_tasks := [] |}).
