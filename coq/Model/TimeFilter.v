(* Model of GlobalFilter._check_and_convert_time_info and of the range filter built from it (C11).  Definitions only.

   Source: mloda/core/filter/global_filter.py
       if time_with_tz.tzinfo is None: raise ValueError
       return time_with_tz.astimezone(timezone.utc).isoformat()
     _add_range_filter / add_time_and_time_travel_filters: FilterType.range with
       {"min": convert(from), "max": convert(to), "max_exclusive": max_exclusive}.

   A datetime is its wall-clock fields plus utcoffset() in MICROseconds (None = naive).  The zone rules themselves
   (zoneinfo) are not modelled: the harness passes the offset Python reports for that wall-clock time.
   astimezone(utc) = (wall clock - offset), OverflowError outside years 1..9999; isoformat() of a UTC datetime =
   YYYY-MM-DDTHH:MM:SS[.ffffff]+00:00 (the fraction only when non-zero).
   Calendar arithmetic: proleptic Gregorian day number with 1970-01-01 = 0 (the usual era/400-year algorithm;
   Z.div / Z.modulo are floor division like Python's). *)
From Coq Require Import List String ZArith Bool Ascii.
Import ListNotations.
Require Import MV.Spec.Filter.
Open Scope Z_scope.

Definition US_SEC : Z := 1000000.
Definition US_DAY : Z := 86400000000.

Definition days_from_civil (y m d : Z) : Z :=
  let y' := if m <=? 2 then y - 1 else y in
  let era := y' / 400 in
  let yoe := y' - era * 400 in
  let doy := (153 * (if 2 <? m then m - 3 else m + 9) + 2) / 5 + d - 1 in
  let doe := yoe * 365 + yoe / 4 - yoe / 100 + doy in
  era * 146097 + doe - 719468.

Definition civil_from_days (z0 : Z) : Z * Z * Z :=
  let z := z0 + 719468 in
  let era := z / 146097 in
  let doe := z - era * 146097 in
  let yoe := (doe - doe / 1460 + doe / 36524 - doe / 146096) / 365 in
  let y := yoe + era * 400 in
  let doy := doe - (365 * yoe + yoe / 4 - yoe / 100) in
  let mp := (5 * doy + 2) / 153 in
  let d := doy - (153 * mp + 2) / 5 + 1 in
  let m := if mp <? 10 then mp + 3 else mp - 9 in
  ((if m <=? 2 then y + 1 else y), m, d).

Record dt := { yr : Z; mo : Z; dy : Z; hh : Z; mi : Z; ss : Z; us : Z; off : option Z }.

Definition clock_us (h m s u : Z) : Z := ((h * 60 + m) * 60 + s) * US_SEC + u.
(* microseconds since 1970-01-01T00:00:00 of the wall clock *)
Definition wall_us (x : dt) : Z := days_from_civil (yr x) (mo x) (dy x) * US_DAY + clock_us (hh x) (mi x) (ss x) (us x).
(* the instant denoted by an aware datetime: microseconds since 1970-01-01T00:00:00Z *)
Definition instant (x : dt) (o : Z) : Z := wall_us x - o.

(* UTC calendar fields of an instant *)
Definition utc_of_instant (i : Z) : dt :=
  let day := i / US_DAY in
  let r := i mod US_DAY in
  let sod := r / US_SEC in
  match civil_from_days day with
  | (y, m, d) => {| yr := y; mo := m; dy := d; hh := sod / 3600; mi := (sod mod 3600) / 60; ss := (sod mod 3600) mod 60;
                    us := r mod US_SEC; off := Some 0 |}
  end.

Definition digit (z : Z) : ascii := ascii_of_nat (48 + Z.to_nat (z mod 10)).
Fixpoint pad (n : nat) (z : Z) (acc : string) : string :=
  match n with
  | 0%nat => acc
  | S n' => pad n' (z / 10) (String (digit z) acc)
  end.

Local Open Scope string_scope.
Definition iso_utc (x : dt) : string :=
  pad 4 (yr x) "" ++ "-" ++ pad 2 (mo x) "" ++ "-" ++ pad 2 (dy x) "" ++ "T" ++
  pad 2 (hh x) "" ++ ":" ++ pad 2 (mi x) "" ++ ":" ++ pad 2 (ss x) "" ++
  (if (us x =? 0)%Z then "" else "." ++ pad 6 (us x) "") ++ "+00:00".
Local Close Scope string_scope.

Inductive tres := TOk (s : string) | TValueError | TOverflow.

(* datetime.min / one past datetime.max, as instants *)
Definition MIN_US : Z := days_from_civil 1 1 1 * US_DAY.
Definition MAX_US : Z := days_from_civil 10000 1 1 * US_DAY.

Definition convert (x : dt) : tres :=
  match off x with
  | None => TValueError
  | Some o => let i := instant x o in
              if (MIN_US <=? i) && (i <? MAX_US) then TOk (iso_utc (utc_of_instant i)) else TOverflow
  end.

(* the filter added by _add_range_filter for column col *)
Definition time_filter (col : string) (t_from t_to : dt) (excl : bool) : option filt :=
  match convert t_from, convert t_to with
  | TOk a, TOk b => Some {| f_col := col; f_type := FRange;
                            f_par := {| p_value := None; p_values := None; p_min := Some (VStr a); p_max := Some (VStr b);
                                        p_excl := excl |} |}
  | _, _ => None
  end.
