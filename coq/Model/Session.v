(* Model of a prepared session (mloda/core/api/request.py, mloda/core/core/engine.py, mloda/core/runtime/run.py).

   What lives on the session object between calls (class mlodaAPI):
     self.engine.execution_planner   the plan.  Its step objects carry a run-time attribute `step_is_done` which the
                                     executors and _process_step_result WRITE (compute_framework_executor.py:228,
                                     worker/thread_worker.py:14, run.py:205) and _process_step_result READS.
                                     -> s_plan (the immutable part) + s_flags (sids whose step_is_done is True)
     self.api_data                   written in __init__ only; READ by every run / stream_run:
                                        _api_data = api_data if api_data is not None else self.api_data      -> s_api
     self.runner                     (s_gen counts the assignments) the last orchestrator whose run COMPLETED:  _batch_run assigns it after
                                     _run_engine_computation returned (an exception skips the assignment);
                                     stream_run assigns it after the generator body finished (GeneratorExit at a
                                     yield, i.e. an abandoned stream, and a raising loop skip it).
                                     READ only by get_result / get_artifacts.                                -> s_runner

   What a run is made of (mlodaAPI._setup_engine_runner -> Engine.compute, _enter_runner_context ->
   ExecutionOrchestrator.__enter__):
     execution_plan_copy = deepcopy(self.execution_planner)      `copies` below; the code has copies = true
     ExecutionOrchestrator(copy)   new WorkerManager, DataLifecycleManager (result_data_collection = {}), lock
     __enter__                     new CfwManager; `if api_data: cfw_register.set_api_data(api_data)`   -> set_api
     compute / compute_stream      Model/Orch.v, started from finished = running = {} and with `done` = the
                                   step_is_done flags found on the plan object it was given                -> orun
   With copies = true the flags written during the run land in the copy and are dropped with it; the session's own
   plan keeps the flags it had.  `exec false` is the counterfactual without the deepcopy (used only to show that the
   theorem depends on it).

   Results are identified by the keys of result_data_collection (step ids of requested feature-group steps) together
   with the api data the run's CfwManager received; the tables themselves are the business of the data plane (C02)
   and are compared end to end by the harness.  Definitions only; proofs in Proofs/SessionP.v. *)
From Coq Require Import List Bool Arith ZArith String.
Import ListNotations.
Require Import MV.Model.Orch.

(* api_data = {"KeyName": {"column": [values]}} *)
Definition api_data := list (string * list (string * list Z)).
Definition shape (d : api_data) : list (string * list string) := map (fun kv => (fst kv, map fst (snd kv))) d.
Definition shape_o (d : option api_data) : option (list (string * list string)) := option_map shape d.

(* run / stream_run:  _api_data = api_data if api_data is not None else self.api_data *)
Definition eff_api (stored given : option api_data) : option api_data :=
  match given with Some d => Some d | None => stored end.
(* ExecutionOrchestrator.__enter__:  if api_data: set_api_data(api_data)   -- an empty dict is not handed over *)
Definition set_api (e : option api_data) : option api_data :=
  match e with Some [] => None | x => x end.

Record sess := {
  s_plan   : plan;
  s_flags  : list nat;
  s_api    : option api_data;
  s_runner : option (list nat * option api_data);
  s_gen    : nat
}.

(* mlodaAPI.__init__: plan built (all step_is_done False), api_data stored, runner None *)
Definition prepare (p : plan) (api0 : option api_data) : sess :=
  {| s_plan := p; s_flags := []; s_api := api0; s_runner := None; s_gen := 0 |}.

Inductive op :=
  | ORun (api : option api_data) (inline : bool) (fails : list nat) (es : list event)
      (* session.run(api_data=api, parallelization_modes = SYNC if inline else THREADING); `fails` = steps whose
         execution raises in this run (injected fault), `es` = the schedule (loop iterations / worker completions) *)
  | OStream (api : option api_data) (inline : bool) (fails : list nat) (es : list event) (take : option nat)
      (* session.stream_run(...): take = None: the consumer drains it; Some j: the consumer closes it after j items *)
  | OGet.
      (* session.get_result() *)

Definition is_run (o : op) : bool := match o with OGet => false | _ => true end.

Inductive rstatus := ROk | RRaised | RUnfinished | RAbandoned | RNoRunner.
Record result := { r_status : rstatus; r_items : list nat; r_api : option api_data }.

Definition init_flags (fl : list nat) : ost :=
  {| finished := []; running := []; started := []; done := fl; failed := []; results := []; yielded := []; scans := 0 |}.

(* the orchestrator loop on a plan object whose steps carry the flags fl *)
Definition orun (fl : list nat) (stream inline : bool) (fails : nat -> bool) (p : plan) (es : list event) : ost :=
  fold_left (apply stream inline fails p) es (init_flags fl).

Definition memf (l : list nat) : nat -> bool := fun x => mem x l.

(* no assignment to self.runner *)
Definition with_state (s : sess) (fl : list nat) (r : option (list nat * option api_data)) : sess :=
  {| s_plan := s_plan s; s_flags := fl; s_api := s_api s; s_runner := r; s_gen := s_gen s |}.
(* self.runner = runner: the stored orchestrator holds result_data_collection = its.  get_result() on an empty
   collection raises ValueError("No results found") (data_lifecycle_manager.get_results). *)
Definition store_runner (s : sess) (fl : list nat) (its : list nat) (a : option api_data) : sess :=
  {| s_plan := s_plan s; s_flags := fl; s_api := s_api s; s_runner := Some (its, a); s_gen := S (s_gen s) |}.
Definition get_status (its : list nat) : rstatus := match its with [] => RRaised | _ => ROk end.

(* a consumer that calls next() j times and then close(): if the stream has j items to give, the generator is left
   suspended at its j-th yield and closed there (GeneratorExit: the finally block runs, self.runner is NOT assigned);
   otherwise the (k+1)-th next() runs the generator to its end (StopIteration or the run's exception). *)
Definition abandons (take : option nat) (ys : list nat) : bool :=
  match take with Some j => Nat.leb j (List.length ys) | None => false end.
Definition taken (take : option nat) : nat := match take with Some j => j | None => 0 end.

Definition exec (copies : bool) (s : sess) (o : op) : sess * result :=
  match o with
  | ORun api inline fails es =>
      let a := set_api (eff_api (s_api s) api) in
      let fin := orun (s_flags s) false inline (memf fails) (s_plan s) es in
      let fl := if copies then s_flags s else done fin in
      match loop_head (s_plan s) fin with
      | ExitNormal => (store_runner s fl (rev (results fin)) a,     (* run() = _batch_run(); return self.get_result() *)
                       {| r_status := get_status (results fin); r_items := rev (results fin); r_api := a |})
      | Raised => (with_state s fl (s_runner s), {| r_status := RRaised; r_items := []; r_api := a |})
      | Looping => (with_state s fl (s_runner s), {| r_status := RUnfinished; r_items := []; r_api := a |})
      end
  | OStream api inline fails es take =>
      let a := set_api (eff_api (s_api s) api) in
      let fin := orun (s_flags s) true inline (memf fails) (s_plan s) es in
      let fl := if copies then s_flags s else done fin in
      let ys := rev (yielded fin) in
      if abandons take ys
      then (with_state s fl (s_runner s), {| r_status := RAbandoned; r_items := firstn (taken take) ys; r_api := a |})
      else match loop_head (s_plan s) fin with
           | ExitNormal => (store_runner s fl (rev (results fin)) a,    (* the stored collection has been drained *)
                            {| r_status := ROk; r_items := ys; r_api := a |})
           | Raised => (with_state s fl (s_runner s), {| r_status := RRaised; r_items := ys; r_api := a |})
           | Looping => (with_state s fl (s_runner s), {| r_status := RUnfinished; r_items := ys; r_api := a |})
           end
  | OGet =>
      (s, match s_runner s with
          | None => {| r_status := RNoRunner; r_items := []; r_api := None |}
          | Some (it, a) => {| r_status := get_status it; r_items := it; r_api := a |}
          end)
  end.

(* ------------------------------------------------------------------------------------------------------------
   The oracle of the property: the same operation on a brand-new orchestrator that was never part of a session
   (Orch.run starts from Orch.init), written without any session state. *)
Definition alone (p : plan) (api0 : option api_data) (o : op) : result :=
  match o with
  | ORun api inline fails es =>
      let a := set_api (eff_api api0 api) in
      let fin := run false inline (memf fails) p es in
      match loop_head p fin with
      | ExitNormal => {| r_status := get_status (results fin); r_items := rev (results fin); r_api := a |}
      | Raised => {| r_status := RRaised; r_items := []; r_api := a |}
      | Looping => {| r_status := RUnfinished; r_items := []; r_api := a |}
      end
  | OStream api inline fails es take =>
      let a := set_api (eff_api api0 api) in
      let fin := run true inline (memf fails) p es in
      let ys := rev (yielded fin) in
      if abandons take ys then {| r_status := RAbandoned; r_items := firstn (taken take) ys; r_api := a |}
      else {| r_status := match loop_head p fin with ExitNormal => ROk | Raised => RRaised | Looping => RUnfinished end;
              r_items := ys; r_api := a |}
  | OGet => {| r_status := RNoRunner; r_items := []; r_api := None |}
  end.

(* mloda.run_all(args, api_data = e, ...) = prepare(args, api_data = e).run(api_data = e, ...): the plan is a function of
   the arguments and of the SHAPE of the api data (key names and column names: setup_key_class). *)
Definition set_op_api (o : op) (e : option api_data) : op :=
  match o with
  | ORun _ i f es => ORun e i f es
  | OStream _ i f es t => OStream e i f es t
  | OGet => OGet
  end.
Definition op_api (o : op) : option api_data :=
  match o with ORun a _ _ _ => a | OStream a _ _ _ _ => a | OGet => None end.

(* the collection held by the orchestrator that an operation stores in self.runner, if it stores one *)
Definition completes (p : plan) (fl : list nat) (o : op) : option (list nat) :=
  match o with
  | ORun _ inline fails es =>
      let fin := orun fl false inline (memf fails) p es in
      match loop_head p fin with ExitNormal => Some (rev (results fin)) | _ => None end
  | OStream _ inline fails es take =>
      let fin := orun fl true inline (memf fails) p es in
      if abandons take (rev (yielded fin)) then None
      else match loop_head p fin with ExitNormal => Some (rev (results fin)) | _ => None end
  | OGet => None
  end.

(* ------------------------------------------------------------------------------------------------------------
   Correspondence checker (evaluated by vm_compute on histories observed on the real session).
   A fair canonical schedule for THREADING: after every loop iteration every started step completes (or raises if it
   is in `fails`); worker_done ignores steps that are not executing, so one list serves all iterations. *)
Definition round (p : plan) (fails : list nat) : list event :=
  EScan :: map (fun s => EDone (sid s) (negb (mem (sid s) fails))) p.
Definition sched (p : plan) (fails : list nat) (n : nat) : list event := List.concat (repeat (round p fails) n).

Inductive okind := KRun | KStream | KAbandon (j : nat) | KGet.
Record obs := {
  ob_kind : okind; ob_api : option api_data; ob_inline : bool; ob_fails : list nat;
  ob_status : rstatus;              (* observed outcome *)
  ob_items : list nat;              (* observed result keys (sids), any order *)
  ob_runner_changed : bool;         (* session.runner is a different object than before the operation *)
  ob_flags : list nat;              (* sids with step_is_done = True on session.engine.execution_planner afterwards *)
  ob_api_kept : bool;               (* session.api_data is still the object given to prepare *)
  ob_seen : option (option api_data) (* the api data the run's api-backed root received (None: not observed) *)
}.

Definition op_of (p : plan) (b : obs) : op :=
  let es := sched p (ob_fails b) (2 * List.length p + 3) in
  match ob_kind b with
  | KRun => ORun (ob_api b) (ob_inline b) (ob_fails b) es
  | KStream => OStream (ob_api b) (ob_inline b) (ob_fails b) es None
  | KAbandon j => OStream (ob_api b) (ob_inline b) (ob_fails b) es (Some j)
  | KGet => OGet
  end.

Fixpoint leqb {A} (e : A -> A -> bool) (a b : list A) : bool :=
  match a, b with [], [] => true | x :: a', y :: b' => e x y && leqb e a' b' | _, _ => false end.
Definition api_eqb (a b : api_data) : bool :=
  leqb (fun x y => String.eqb (fst x) (fst y) &&
                   leqb (fun c d => String.eqb (fst c) (fst d) && leqb Z.eqb (snd c) (snd d)) (snd x) (snd y)) a b.
Definition oapi_eqb (a b : option api_data) : bool :=
  match a, b with None, None => true | Some x, Some y => api_eqb x y | _, _ => false end.

Definition status_eqb (a b : rstatus) : bool :=
  match a, b with ROk, ROk | RRaised, RRaised | RUnfinished, RUnfinished | RAbandoned, RAbandoned | RNoRunner, RNoRunner => true
  | _, _ => false end.
Definition set_eqb (a b : list nat) : bool := subset a b && subset b a.

Fixpoint chk_ops (s : sess) (h : list obs) : bool :=
  match h with
  | [] => true
  | b :: t =>
    let o := op_of (s_plan s) b in
    let (s', r) := exec true s o in
    let full := r_items (snd (exec true s (match o with OStream a i f es _ => OStream a i f es None | x => x end))) in
    status_eqb (r_status r) (ob_status b)
    && (match r_status r with
        | ROk => set_eqb (r_items r) (ob_items b)
        | RAbandoned => subset (ob_items b) full && Nat.eqb (List.length (ob_items b)) (List.length (r_items r))
        | _ => subset (ob_items b) full
        end)
    && Bool.eqb (negb (Nat.eqb (s_gen s') (s_gen s))) (ob_runner_changed b)
    && set_eqb (s_flags s') (ob_flags b) && ob_api_kept b
    && (match ob_seen b with None => true | Some x => oapi_eqb x (r_api r) end)
    && chk_ops s' t
  end.

Definition chk_hist (c : plan * option api_data * list obs) : bool :=
  match c with (p, a0, h) => chk_ops (prepare p a0) h end.

(* ------------------------------------------------------------------------------------------------------------
   Execution modes (Model/Modes.v).  An operation's `inline` flag is inline_of its ParallelizationMode: SYNC runs a step
   inside the loop; THREADING and MULTIPROCESSING hand it to a worker (thread / forked process) whose completion or failure
   arrives later -- through step.step_is_done set by the thread, resp. through the result queue polled by
   _process_step_result, which sets step_is_done on the RUN's plan copy -- as an event of the schedule `es`.  In both
   asynchronous modes the flags land on the deep copy Engine.compute made for the run, never on the session's plan; the
   api data goes to the run's own CfwManager (a local object in SYNC, an object in a manager process otherwise).  The
   model therefore has no further mode-dependent state, and the theorems of Props/C07.v hold for any mix of modes. *)
Require Import MV.Model.Modes.

Definition run_in (m : pmode) (api : option api_data) (fails : list nat) (es : list event) : op :=
  ORun api (inline_of m) fails es.
Definition stream_in (m : pmode) (api : option api_data) (fails : list nat) (es : list event) (take : option nat) : op :=
  OStream api (inline_of m) fails es take.

(* the same operation carried out in another mode *)
Definition set_mode (m : pmode) (o : op) : op :=
  match o with
  | ORun a _ f es => ORun a (inline_of m) f es
  | OStream a _ f es t => OStream a (inline_of m) f es t
  | OGet => OGet
  end.
(* a history whose i-th operation is carried out in mode ms[i] (operations beyond the list keep theirs) *)
Fixpoint remode (ms : list pmode) (h : list op) : list op :=
  match ms, h with
  | m :: ms', o :: h' => set_mode m o :: remode ms' h'
  | _, _ => h
  end.
