(* Model of the planning pipeline of mloda for the O-FRAGMENT: one compute framework, no Links, no global filter, but
   NON-DEFAULT OPTIONS (group options, context options, propagated context keys, protected keys) and DECLARED DATA TYPES.
   It extends Model/PlannerA.v (strict Stage-A fragment: default options, no types), whose definitions it reuses
   unchanged wherever the code does not look at options / types.  Definitions only; proofs are in Proofs/PlannerO*.v,
   statements in Props/PlannerO.v.

   Three parts, in pipeline order (mloda/core/...):

   C. request -> feature graph  (core/engine.py, abstract_plugins/components/feature_collection.py)
        Engine.setup_features_recursion / _process_feature               collect, process
        Engine.add_feature_to_collection (`feature not in collection`)   existsb feq   (Feature.__eq__ = Identity.feat_eq)
        Engine._handle_input_features_recursion + Features.__init__ /
          build_feature_collection (child_options, merge_options)        build_inputs, norm_child, merge_class / o_merge
        Engine._update_feature_link_parents (re-link a duplicate input)  idx_of  (parents are kept as identities and resolved
                                                                         to the stored equal feature)
        Features.check_duplicate_feature (top-level request)             has_dup
        Engine._set_compute_framework_and_data_type                      cfw_for, the declared type is kept (no type rule)
      Node ids: a feature's uuid is uuid4(); the model names a node by its position in Engine.feature_link_parents (a dict:
      insertion order = the order in which add_feature_to_collection returned True).  The iteration order of the SET returned
      by input_features() is the parameter iord (keyed by the position of the node being expanded).
   B. labelling  (abstract_plugins/components/feature.py base_similarity_key / similarity_key)
        the (group options, frameworks) class of a node                  label_graph: Grouping.base_class over the nodes
   A. feature graph -> plan  (prepare/execution_plan.py; everything else as in Model/PlannerA.v)
        group_features_by_compute_framework_and_options                  Grouping.group_items over (okb, oty) per feature group
        run_feature_group (one FeatureGroupStep per split and level)     levels_of_group_O, steps_of_group_O, raw_plan_O
        validation                                                       prepare_O  (validate_A, runsim_accepts of PlannerA)

   Errors of part C (what mloda.prepare raises), as codes:
     3  ValueError "Duplicate key ... conflicting values" (Features.merge_options)
     4  ValueError of an OptionsValidator inside update_with_protected_keys (group/context key clash, context conflict)
     5  TypeError (feature_chainer_parser_key holds something that cannot be iterated)
     6  ValueError "Duplicate feature setup" (two equal requested features)
     7  no feature group for a name;  9 = recursion depth exhausted (cyclic definitions; never on acyclic ones)
   Errors of part A: 1 = incomplete plan, 2 = steps wait in a cycle (as in PlannerA), 8 = a transform step would be needed. *)
From Coq Require Import List Bool Arith String ZArith.
Import ListNotations.
Require Import MV.Model.Orch MV.Model.OrchCheck MV.Model.Options MV.Model.Identity MV.Model.Grouping MV.Model.PlannerA.
Require Import MV.Spec.OptionsSpec MV.Spec.GroupingSpec.
Open Scope string_scope.
Open Scope list_scope.
Open Scope nat_scope.

(* =====================================================================================================================
   A. the planning stage on a labelled feature graph
   ===================================================================================================================== *)
(* a node of PlannerA's graph + what the grouping looks at: okb = class of (group options, compute frameworks) under ==
   (Grouping.it_kb), oty = declared data type *)
Record onode := { on : fnode; okb : nat; oty : option nat }.
Definition ograph := list onode.
Definition base (g : ograph) : fgraph := map on g.
Definition onode_of (g : ograph) (u : nat) : option onode := find (fun n => Nat.eqb (fid (on n)) u) g.
Definition kb_of (g : ograph) (u : nat) : nat := match onode_of g u with Some n => okb n | None => 0 end.
Definition ty_of (g : ograph) (u : nat) : option nat := match onode_of g u with Some n => oty n | None => None end.
Definition oitem (g : ograph) (u : nat) : item := {| it_id := u; it_kb := kb_of g u; it_ty := ty_of g u |}.

(* run_feature_group: the features ms of one feature group (a set: iteration order ord 0) are split by
   group_features_by_compute_framework_and_options; every split (a new set: iteration order ord 1) is cut into
   dependency levels *)
Definition splits_of (ord : oparam) (itm : nat -> item) (ms : list nat) : list (list nat) :=
  map (map it_id) (group_items (map itm (ord 0 ms))).
Definition levels_of_group_O (ord : oparam) (itm : nat -> item) (cl : amap) (ms : list nat) : list (list (list nat) * bool) :=
  map (fun sp => split_levels (fun u => aget0 u cl) (ord 1 sp)) (splits_of ord itm ms).
Definition steps_of_group_O (ord : oparam) (g : ograph) (cl : amap) (ms : list nat) : list step :=
  flat_map (fun lv => map (mk_step ord (base g) cl) (fst lv)) (levels_of_group_O ord (oitem g) cl ms).
Definition raw_plan_O (ord : oparam) (g : ograph) : list step :=
  let cl := p2c_of (base g) in
  flat_map (fun e => steps_of_group_O ord g cl (snd e)) (planned_queue (base g) (queue_of (base g))).
Definition plan_O (ord : oparam) (g : ograph) : plan := number 0 (raw_plan_O ord g).

Definition fallback_used_O (ord : oparam) (g : ograph) : bool :=
  let cl := p2c_of (base g) in
  existsb (fun e => existsb (fun lv => snd lv) (levels_of_group_O ord (oitem g) cl (snd e)))
          (planned_queue (base g) (queue_of (base g))).

Definition cir_plan_O (ord : oparam) (g : ograph) : list (list nat) :=
  let cl := p2c_of (base g) in map (fun s => cir_of cl (uuids s)) (plan_O ord g).

Definition prepare_O (ord : oparam) (g : ograph) : presult :=
  let p := plan_O ord g in
  if existsb (tfs_needed (base g) (p2c_of (base g))) p then OutsideFragment
  else if negb (validate_A p) then RejectedIncomplete
  else if runsim_accepts p then Planned p else RejectedCycle.

(* the split queue: (feature group, features of one split) in plan order *)
Definition split_queue (ord : oparam) (g : ograph) : list (nat * list nat) :=
  flat_map (fun e => map (fun sp => (fst e, sp)) (splits_of ord (oitem g) (snd e)))
           (planned_queue (base g) (queue_of (base g))).

(* a PlannerA graph as an O-graph: default options everywhere (one class per framework), no declared type *)
Definition lift (g : fgraph) : ograph := map (fun n => {| on := n; okb := fcfw n; oty := None |}) g.

(* known-defect domain of C15 (C15-untyped-joins-first-typed-group) on a graph: in some feature group an untyped feature is
   compatible with typed features of two different types *)
Definition class_items (g : ograph) (k : nat) : list item :=
  map (oitem g) (filter (fun u => Nat.eqb (grp_of (base g) u) k) (ids (base g))).
Definition kf_ambiguous_O (g : ograph) : bool :=
  existsb (fun k => kf_ambiguous (class_items g k)) (dedupe (map (fun n => fgrp (on n)) g)).

(* =====================================================================================================================
   B. labelling: the engine's graph with the features' identities -> O-graph
   ===================================================================================================================== *)
(* one key of Engine.feature_link_parents (uuid = its position) with the Feature object behind it *)
Record xnode := { xf : feat; xgrp : nat; xcfw : nat; xreq : bool; xins : list nat }.
Definition xgraph := list xnode.

Fixpoint mapi_from {A B : Type} (f : nat -> A -> B) (i : nat) (l : list A) : list B :=
  match l with [] => [] | x :: t => f i x :: mapi_from f (S i) t end.

Definition gfeat_of (k : nat) (x : xnode) : gfeat :=
  {| g_id := k; g_group := og (f_opt (xf x)); g_ctx := oc (f_opt (xf x)); g_cfw := Some [xcfw x]; g_ty := f_dtype (xf x) |}.
Definition gfeats (xs : xgraph) : list gfeat := mapi_from gfeat_of 0 xs.
Definition label_node (fs : list gfeat) (k : nat) (x : xnode) : onode :=
  {| on := {| fid := k; fgrp := xgrp x; fins := xins x; freq := xreq x; fcfw := xcfw x |};
     okb := base_class fs (gfeat_of k x); oty := f_dtype (xf x) |}.
Definition label_graph (xs : xgraph) : ograph := mapi_from (label_node (gfeats xs)) 0 xs.

(* =====================================================================================================================
   C. request -> graph
   ===================================================================================================================== *)
(* an input Feature object as created by FeatureGroup.input_features(): name, its own options, its declared type *)
Record oin := { oi_name : string; oi_opt : ostate; oi_ty : option nat }.
(* a feature name: its feature group, the group's compute framework, the input features it asks for *)
Record odef := { od_name : string; od_grp : nat; od_cfw : nat; od_ins : list oin }.
(* a requested Feature object *)
Record oreq := { rq_name : string; rq_opt : ostate; rq_ty : option nat }.

Definition odef_of (defs : list odef) (x : string) : option odef := find (fun d => String.eqb (od_name d) x) defs.
Definition cfw_for (defs : list odef) (x : string) : option (list nat) :=
  match odef_of defs x with Some d => Some [od_cfw d] | None => None end.

Definition mk_feat (name : string) (o : ostate) (cf : option (list nat)) (ty : option nat) (child : option ostate) : feat :=
  {| f_name := name; f_opt := o; f_domain := None; f_cfw := cf; f_dtype := ty; f_child := child; f_child_inf := None |}.

(* Feature.__eq__ (no Domain objects in the fragment, so the comparison never raises).  The model always evaluates
   `new == stored`; CPython evaluates `stored == new` in the set lookup of `feature not in feature_collection` and
   `new == stored` in the wanted_uuid scan -- Feature.__eq__ is a conjunction of comparisons that are symmetric on the values of
   the fragment (not proved: py_eq on sets is symmetric only for sets without equal elements; the tie observes the outcome) *)
Definition feq (a b : feat) : bool := match feat_eq a b with Some true => true | _ => false end.

(* build_feature_collection: `if child_options.group == {} and child_options.context == {}: child_options = Options({})` *)
Definition empty_opt : ostate := {| og := []; oc := []; opk := [] |}.
Definition norm_child (p : ostate) : ostate := if is_nil (og p) && is_nil (oc p) then empty_opt else p.

(* Features.merge_options(feature_options = s, child_options = child): 0 = merged, otherwise the error code *)
Definition merge_class (child s : ostate) : nat :=
  match default_protected s with
  | None => 5
  | Some pk =>
      if existsb (fun c => existsb (fun p => key_eqb (fst c) (fst p) && negb (kmem (fst p) pk)
                                             && negb (py_eq (snd c) (snd p))) (o_items s)) (o_items child)
      then 3
      else match snd (o_update child None s) with None => 0 | Some EValue => 4 | Some EType => 5 end
  end.

(* Features.__init__ over list(input_features) of a feature whose options are the child options c: every input feature
   gets child_options = c and its own options merged with c; the first failing merge raises *)
Fixpoint build_inputs (defs : list odef) (c : ostate) (ins : list oin) : list feat + nat :=
  match ins with
  | [] => inl []
  | i :: t =>
      match merge_class c (oi_opt i) with
      | 0 => match build_inputs defs c t with
             | inl fs => inl (mk_feat (oi_name i) (fst (o_merge c (oi_opt i))) (cfw_for defs (oi_name i)) (oi_ty i) (Some c) :: fs)
             | inr e => inr e
             end
      | S e => inr (S e)
      end
  end.

(* a stored feature: the Feature object, its group / framework / request flag, and the Feature objects of its inputs
   (feature_link_parents[uuid], before the duplicates among them are re-linked to the stored equal features) *)
Record rnode := { rf : feat; rgrp : nat; rcfw : nat; rreq : bool; rparents : list feat }.

(* Engine._process_feature.  A requested feature (child_options None) is never equal to a stored one here: stored
   features with child_options None are requested ones and equal requested features are rejected before (has_dup), so
   the `stored_feature.initial_requested_data = True` branch of add_feature_to_collection is not reached in the fragment. *)
Fixpoint process (fuel : nat) (iord : nat -> list oin -> list oin) (defs : list odef) (st : list rnode) (f : feat) (flag : bool)
    : list rnode + nat :=
  match fuel with
  | 0 => inr 9
  | S n =>
    match odef_of defs (f_name f) with
    | None => inr 7
    | Some d =>
      if existsb (fun r => feq f (rf r)) st then inl st
      else
        match build_inputs defs (norm_child (f_opt f)) (iord (List.length st) (od_ins d)) with
        | inr e => inr e
        | inl ps =>
          fold_left (fun acc p => match acc with inl s => process n iord defs s p false | inr e => inr e end) ps
                    (inl (st ++ [{| rf := f; rgrp := od_grp d; rcfw := od_cfw d; rreq := flag; rparents := ps |}]))
        end
    end
  end.

Definition req_feat (defs : list odef) (r : oreq) : feat := mk_feat (rq_name r) (rq_opt r) (cfw_for defs (rq_name r)) (rq_ty r) None.
(* Features.build_feature_collection over the requested list: `check_duplicate_feature(feature)` (feature in self.collection)
   before `self.collection.append(feature)` *)
Fixpoint has_dup_from (seen l : list feat) : bool :=
  match l with [] => false | x :: t => existsb (feq x) seen || has_dup_from (seen ++ [x]) t end.
Definition has_dup (l : list feat) : bool := has_dup_from [] l.

Definition collect (iord : nat -> list oin -> list oin) (defs : list odef) (rq : list oreq) : list rnode + nat :=
  let fs := map (req_feat defs) rq in
  if has_dup fs then inr 6
  else fold_left (fun acc f => match acc with inl s => process (S (List.length defs)) iord defs s f true | inr e => inr e end)
                 fs (inl []).

(* the position of the stored feature equal to f (the `wanted_uuid` of add_feature_to_collection) *)
Definition idx_of (st : list rnode) (f : feat) : nat := first_idx (fun r => feq f (rf r)) st.
Definition xnode_of (st : list rnode) (r : rnode) : xnode :=
  {| xf := rf r; xgrp := rgrp r; xcfw := rcfw r; xreq := rreq r; xins := map (idx_of st) (rparents r) |}.
Definition xgraph_of (st : list rnode) : xgraph := map (xnode_of st) st.

Definition request_xgraph (iord : nat -> list oin -> list oin) (defs : list odef) (rq : list oreq) : xgraph + nat :=
  match collect iord defs rq with inl st => inl (xgraph_of st) | inr e => inr e end.
Definition request_graph_O (iord : nat -> list oin -> list oin) (defs : list odef) (rq : list oreq) : ograph + nat :=
  match request_xgraph iord defs rq with inl xs => inl (label_graph xs) | inr e => inr e end.

(* mloda.prepare as a whole: the plan or the error code *)
Inductive oresult := OPlanned (p : plan) | ORejected (code : nat).
Definition result_of (r : presult) : oresult :=
  match r with Planned p => OPlanned p | RejectedIncomplete => ORejected 1 | RejectedCycle => ORejected 2 | OutsideFragment => ORejected 8 end.
Definition prepare_request (iord : nat -> list oin -> list oin) (ord : oparam) (defs : list odef) (rq : list oreq) : oresult :=
  match request_graph_O iord defs rq with
  | inr e => ORejected e
  | inl g => result_of (prepare_O ord g)
  end.

Definition iord_id : nat -> list oin -> list oin := fun _ l => l.

(* default options, no declared type: what PlannerA's fragment looks like here *)
Definition plain_in (i : oin) : bool := is_nil (og (oi_opt i)) && is_nil (oc (oi_opt i)) && is_nil (opk (oi_opt i))
                                        && match oi_ty i with None => true | Some _ => false end.
Definition plain_req (r : oreq) : bool := is_nil (og (rq_opt r)) && is_nil (oc (rq_opt r)) && is_nil (opk (rq_opt r))
                                          && match rq_ty r with None => true | Some _ => false end.

(* ---------- decidable forms of the hypotheses on requests (Spec/PlannerOSpec.v odefs_ok, decl_ok, one_cfw) ---------- *)
Fixpoint nodup_str (l : list string) : bool :=
  match l with [] => true | x :: t => negb (existsb (String.eqb x) t) && nodup_str t end.
Fixpoint spos (x : string) (l : list string) : option nat :=
  match l with [] => None | y :: t => if String.eqb x y then Some 0 else option_map S (spos x t) end.
Definition defined (defs : list odef) (x : string) : bool := match odef_of defs x with Some _ => true | None => false end.
(* the definitions are listed in a topological order: every input is defined EARLIER in the list *)
Definition odefs_okb (defs : list odef) (rq : list oreq) : bool :=
  let names := map od_name defs in
  nodup_str names
  && forallb (fun d => nodup_str (map oi_name (od_ins d))) defs
  && forallb (fun d => forallb (fun i => defined defs (oi_name i)) (od_ins d)) defs
  && forallb (fun r => defined defs (rq_name r)) rq
  && forallb (fun d => forallb (fun i => match spos (oi_name i) names, spos (od_name d) names with
                                         | Some a, Some b => Nat.ltb a b | _, _ => false end) (od_ins d)) defs.
Definition refl_dictb (d : dict) : bool := nodupkb (dkeys d) && forallb (fun kv => py_eq (snd kv) (snd kv)) d.
Definition ogoodb (s : ostate) : bool := refl_dictb (og s) && refl_dictb (oc s).
Definition decl_okb (defs : list odef) (rq : list oreq) : bool :=
  forallb (fun d => forallb (fun i => ogoodb (oi_opt i)) (od_ins d)) defs && forallb (fun r => ogoodb (rq_opt r)) rq.
Definition one_cfwb (defs : list odef) : bool :=
  match defs with [] => true | d0 :: _ => forallb (fun d => Nat.eqb (od_cfw d) (od_cfw d0)) defs end.

(* =====================================================================================================================
   checkers for the correspondence harness (harness/planner_o.py)
   ===================================================================================================================== *)
(* observed iteration orders *)
Definition ord_obs (o0 : list (list nat)) : oparam :=
  fun site l => match site with
                | 0 => match find (fun l' => set_eqb l l' && Nat.eqb (List.length l) (List.length l')) o0 with Some l' => l' | None => l end
                | _ => l
                end.
Fixpoint alookup (k : nat) (m : list (nat * list string)) : option (list string) :=
  match m with [] => None | (k', v) :: t => if Nat.eqb k k' then Some v else alookup k t end.
Definition iord_obs (m : list (nat * list string)) : nat -> list oin -> list oin :=
  fun k ins => match alookup k m with
               | Some names => flat_map (fun nm => filter (fun i => String.eqb (oi_name i) nm) ins) names
               | None => ins
               end.

(* structural comparison of an observed Feature with the model's (dict order included; sets as sets) *)
Definition keys_same (a b : list pykey) : bool := forallb (fun k => existsb (key_same k) b) a && forallb (fun k => existsb (key_same k) a) b.
Definition ostate_same (a b : ostate) : bool :=
  val_same (VDict (og a)) (VDict (og b)) && val_same (VDict (oc a)) (VDict (oc b)) && keys_same (opk a) (opk b).
Definition onat_eqb (a b : option nat) : bool := oty_eqb a b.
Definition feat_same (a b : feat) : bool :=
  String.eqb (f_name a) (f_name b) && ostate_same (f_opt a) (f_opt b)
  && match f_cfw a, f_cfw b with Some x, Some y => list_eqb x y | None, None => true | _, _ => false end
  && onat_eqb (f_dtype a) (f_dtype b)
  && match f_child a, f_child b with Some x, Some y => ostate_same x y | None, None => true | _, _ => false end.
Definition xnode_same (a b : xnode) : bool :=
  feat_same (xf a) (xf b) && Nat.eqb (xgrp a) (xgrp b) && Nat.eqb (xcfw a) (xcfw b) && Bool.eqb (xreq a) (xreq b)
  && set_eqb (xins a) (xins b) && Nat.eqb (List.length (xins a)) (List.length (xins b)).

(* one observed preparation.  oc_outcome: 0 accepted, 1 / 2 the two validation errors (graph and steps observed),
   3..7 rejected while the graph was built (nothing else observed) *)
Record ocase := { oc_defs : list odef; oc_req : list oreq; oc_iord : list (nat * list string); oc_x : xgraph;
                  oc_ord0 : list (list nat); oc_queue : list nat; oc_p2c : amap; oc_plan : list ostep; oc_outcome : nat }.

Definition early (c : ocase) : bool := Nat.leb 3 (oc_outcome c).
Definition og_of (c : ocase) : ograph := label_graph (oc_x c).

Definition chk_request_O (c : ocase) : bool :=
  match request_xgraph (iord_obs (oc_iord c)) (oc_defs c) (oc_req c) with
  | inr e => Nat.eqb e (oc_outcome c)
  | inl xs => negb (early c) && all2 xnode_same xs (oc_x c)
  end.
Definition chk_graph_O (c : ocase) : bool := early c || (graph_okb (base (og_of c)) && strictb (base (og_of c))).
Definition chk_queue_O (c : ocase) : bool := early c || list_eqb (queue_of (base (og_of c))) (oc_queue c).
Definition chk_closure_O (c : ocase) : bool :=
  early c || amap_eqb (filter (fun kv => match snd kv with [] => false | _ => true end) (p2c_of (base (og_of c)))) (oc_p2c c).
(* the split queue: the groups of group_features_by_compute_framework_and_options in dict order, as observed *)
Definition chk_plan_O (c : ocase) : bool :=
  early c ||
  (plan_matches (p2c_of (base (og_of c))) (plan_O (ord_obs (oc_ord0 c)) (og_of c)) (oc_plan c)
   && Nat.eqb (outcome_code (prepare_O (ord_obs (oc_ord0 c)) (og_of c))) (oc_outcome c)).
Definition chk_planner_O (c : ocase) : bool :=
  chk_request_O c && chk_graph_O c && chk_queue_O c && chk_closure_O c && chk_plan_O c.

(* the plan computed from the request alone (canonical orders everywhere) has the same steps up to order -- what the
   determinism theorem allows outside kf_ambiguous_O *)
Definition chk_request_plan_O (c : ocase) : bool :=
  early c ||
  match request_graph_O iord_id (oc_defs c) (oc_req c) with
  | inr _ => false
  | inl g => kf_ambiguous_O g ||
             (let p := plan_O ord_id g in
              Nat.eqb (List.length p) (List.length (oc_plan c)) &&
              Nat.eqb (outcome_code (prepare_O ord_id g)) (oc_outcome c))
  end.
(* ... and the whole outcome computed from the request alone in canonical orders (accept / which rejection) *)
Definition code_of (r : oresult) : nat := match r with OPlanned _ => 0 | ORejected e => e end.
(* which of several failing merges is reported depends on the iteration order of input_features() (Props
   PlannerO_error_class_refuted): the codes 3, 4, 5 are one class here *)
Definition err_class (e : nat) : nat := if Nat.leb 3 e && Nat.leb e 5 then 3 else e.
(* inside kf_ambiguous_O the decision itself (accepted / steps wait in a cycle) depends on the iteration order of the set the
   grouping is handed (Props PlannerO_share_iff_refuted; PlannerO_prepare_deterministic_partial holds outside only): there the
   canonical-order decision and the observed one may be any two of {accepted, cycle}.  The difference BETWEEN preparations is
   reported by the determinism comparison of harness/planner_o.py under the recorded finding. *)
Definition acc_or_cycle (e : nat) : bool := Nat.eqb e 0 || Nat.eqb e 2.
Definition chk_request_outcome_O (c : ocase) : bool :=
  let m := code_of (prepare_request iord_id ord_id (oc_defs c) (oc_req c)) in
  Nat.eqb (err_class m) (err_class (oc_outcome c)) ||
  match request_graph_O iord_id (oc_defs c) (oc_req c) with
  | inl g => kf_ambiguous_O g && acc_or_cycle m && acc_or_cycle (oc_outcome c)
  | inr _ => false
  end.

(* classification / theorem instances evaluated on every case *)
Definition model_amb_O (c : ocase) : bool := negb (early c) && kf_ambiguous_O (og_of c).
Definition model_req_covers_O (c : ocase) : bool :=
  early c || req_covers (plan_O (ord_obs (oc_ord0 c)) (og_of c)) (map (fun n => (fid (on n), fins (on n))) (og_of c)).
Definition model_struct_O (c : ocase) : bool := early c || wf_struct (plan_O (ord_obs (oc_ord0 c)) (og_of c)).
Definition model_accept_iff_wf_O (c : ocase) : bool :=
  early c || Bool.eqb (Nat.eqb (outcome_code (prepare_O (ord_obs (oc_ord0 c)) (og_of c))) 0)
                      (wf_plan_auto (plan_O (ord_obs (oc_ord0 c)) (og_of c))).
Definition model_plain_O (c : ocase) : bool := forallb (fun d => forallb plain_in (od_ins d)) (oc_defs c) && forallb plain_req (oc_req c).
(* the hypotheses of the request-level theorems hold for the observed request *)
Definition model_hyps_O (c : ocase) : bool := odefs_okb (oc_defs c) (oc_req c) && decl_okb (oc_defs c) (oc_req c) && one_cfwb (oc_defs c).
(* everything that must hold of every observed preparation, in one evaluation *)
Definition chk_everything_O (c : ocase) : bool :=
  chk_planner_O c && chk_request_outcome_O c && chk_request_plan_O c && model_req_covers_O c && model_struct_O c
  && model_accept_iff_wf_O c && model_hyps_O c.
