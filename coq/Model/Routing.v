(* Routing of plan steps to compute-framework objects at run time (C02, C01): the registry of compute-framework objects
   kept by CfwManager and the lookups ComputeFrameworkExecutor performs before a step executes.  Together with
   Model/DataPlane.v this makes the data plane of merge-free plans a function of the PLAN and the begin order alone:
   which object a step works on is no longer an observed input but computed here, and compared with the real run.

   Mirrors (mloda/core/...):
     core/cfw_manager.py            CfwManager.compute_frameworks (dict, insertion order)        registry
                                    CfwManager.get_cfw_uuid                                       get_cfw
                                    CfwManager.add_cfw_to_compute_frameworks                      reg_add (append)
                                    CfwManager.find_leftmost                                      identity: cfw_merge_relation is
                                                                                                  only written by JoinStep, and the
                                                                                                  fragment has no JoinStep
     runtime/compute_framework_executor.py
                                    prepare_execute_step, FeatureGroupStep branch                 route_fg
                                    add_compute_framework / init_compute_framework                (inside route_fg / route_tfs)
                                    prepare_execute_step, TransformFrameworkStep branch           route_tfs (first half)
                                    prepare_tfs_right_cfw (via prepare_tfs_and_joinstep)          route_tfs (second half)
     core/step/feature_group_step.py        FeatureGroupStep.execute -> cfw.run_calculation       action_of (ARoot / ACalc)
     core/step/transform_frame_work_step.py TransformFrameworkStep.execute (get_data(from_cfw);
                                            transform; cfw.set_data)                              action_of (ACopy)
   Objects are named by the step that creates them: a TransformFrameworkStep creates the object with uuid = step.uuid; a
   FeatureGroupStep that finds no object creates one with a fresh uuid4 (named here by that step's id).
   Python sets: step.tfs_ids and step.required_uuids are ITERATED (`for tfs_id in step.tfs_ids`, `for r_f in
   step.required_uuids`, `next(iter(step.required_uuids))`), first hit wins: the step record carries them as lists in
   iteration order (the harness exports the order of the real set objects; theorems quantify over every order).
   JoinStep is outside the fragment.  Definitions only. *)
From Coq Require Import List Bool ZArith Arith.
Import ListNotations.
Require Import MV.Spec.RefEval MV.Model.DataPlane.

Fixpoint rmem (x : nat) (l : list nat) : bool :=
  match l with [] => false | y :: t => Nat.eqb x y || rmem x t end.

Inductive rkind := RFG | RTFS.

Record rstep := {
  rs_sid : nat;                 (* position of the step in the plan *)
  rs_kind : rkind;
  rs_cls : nat;                 (* FG: step.compute_framework; TFS: step.to_framework (class ids) *)
  rs_from : nat;                (* TFS: step.from_framework *)
  rs_any : nat;                 (* FG: step.features.any_uuid *)
  rs_cir : list nat;            (* FG: step.children_if_root *)
  rs_tfs : list nat;            (* FG: step.tfs_ids in iteration order *)
  rs_req : list nat;            (* step.required_uuids in iteration order *)
  rs_right : option nat;        (* TFS: step.right_framework_uuid *)
  rs_link : option nat;         (* TFS: step.link_id *)
  rs_root : option env;         (* FG of the root group: the source columns its calculation creates *)
  rs_defs : list fdef           (* FG of a derived group: the definitions its calculation computes *)
}.

(* object -> (class, children_if_root), in insertion order of CfwManager.compute_frameworks *)
Definition registry := list (nat * (nat * list nat)).

Definition matches (cls u : nat) (e : nat * (nat * list nat)) : bool :=
  Nat.eqb (fst (snd e)) cls && rmem u (snd (snd e)).

(* CfwManager.get_cfw_uuid: the FIRST registered object of that class whose children contain the uuid *)
Fixpoint get_cfw (reg : registry) (cls u : nat) : option nat :=
  match reg with
  | [] => None
  | e :: r => if matches cls u e then Some (fst e) else get_cfw r cls u
  end.

(* `for x in xs: o = get_cfw_uuid(cls, x); if o: ...` *)
Fixpoint first_hit (reg : registry) (cls : nat) (us : list nat) : option (nat * nat) :=
  match us with
  | [] => None
  | u :: t => match get_cfw reg cls u with Some o => Some (u, o) | None => first_hit reg cls t end
  end.

Fixpoint children_of (reg : registry) (o : nat) : list nat :=
  match reg with
  | [] => []
  | e :: r => if Nat.eqb (fst e) o then snd (snd e) else children_of r o
  end.

Definition reg_add (reg : registry) (o cls : nat) (ch : list nat) : registry := reg ++ [(o, (cls, ch))].

(* result of the lookups before one step: new registry, object written, object read (transform source) *)
Inductive routed := Routed (reg : registry) (w : nat) (rd : option nat) | RouteErr.

Definition route_fg (reg : registry) (st : rstep) : routed :=
  match first_hit reg (rs_cls st) (rs_tfs st) with
  | Some (_, o) => Routed reg o None
  | None =>
    match get_cfw reg (rs_cls st) (rs_any st) with
    | Some o => Routed reg o None
    | None => Routed (reg_add reg (rs_sid st) (rs_cls st) (rs_cir st)) (rs_sid st) None
    end
  end.

Definition route_tfs (reg : registry) (st : rstep) : routed :=
  match first_hit reg (rs_from st) (rs_req st) with
  | None => RouteErr                                       (* "from_feature_uuid or from_cfw_uuid should not be none" *)
  | Some (_, fo) =>
    let ch := children_of reg fo ++ match rs_link st with Some l => [l] | None => [] end in
    let reg' := reg_add reg (rs_sid st) (rs_cls st) ch in
    match (match rs_right st with Some u => Some u | None => hd_error (rs_req st) end) with
    | None => RouteErr
    | Some u =>
      match get_cfw reg' (rs_from st) u with
      | None => RouteErr                                   (* "cfw_uuid should not be none in prepare_tfs" *)
      | Some ro => Routed reg' (rs_sid st) (Some ro)
      end
    end
  end.

Definition route (reg : registry) (st : rstep) : routed :=
  match rs_kind st with RFG => route_fg reg st | RTFS => route_tfs reg st end.

(* footprint of a step: (step, object written, object read) *)
Definition foot := (nat * nat * option nat)%type.

(* the steps in begin order; stops at the first lookup failure (flag false) *)
Fixpoint route_all (reg : registry) (steps : list rstep) : list (rstep * nat * option nat) * bool :=
  match steps with
  | [] => ([], true)
  | st :: r =>
    match route reg st with
    | RouteErr => ([], false)
    | Routed reg' w rd => let (tr, ok) := route_all reg' r in ((st, w, rd) :: tr, ok)
    end
  end.

Fixpoint final_registry (reg : registry) (steps : list rstep) : registry :=
  match steps with
  | [] => reg
  | st :: r => match route reg st with RouteErr => reg | Routed reg' _ _ => final_registry reg' r end
  end.

Definition foot_of (x : rstep * nat * option nat) : foot := (rs_sid (fst (fst x)), snd (fst x), snd x).

Definition action_of (x : rstep * nat * option nat) : action :=
  let st := fst (fst x) in let w := snd (fst x) in
  match rs_kind st with
  | RTFS => ACopy (match snd x with Some r => r | None => w end) w
  | RFG => match rs_root st with Some cols => ARoot w cols | None => ACalc w (rs_defs st) end
  end.

Definition actions (steps : list rstep) : list action := map action_of (fst (route_all [] steps)).

(* the whole data plane from the plan: route, then execute *)
Definition run_plan (n : nat) (steps : list rstep) : option outcome :=
  let (tr, ok) := route_all [] steps in if ok then Some (exec n [] (map action_of tr)) else None.

(* ---------- ambiguity of a lookup: more than one registered object of the class has the uuid among its children ------ *)
Definition hits (reg : registry) (cls u : nat) : nat := length (filter (matches cls u) reg).
Definition unamb (reg : registry) (cls u : nat) : bool := Nat.leb (hits reg cls u) 1.

(* the lookup that decided where the step runs was unambiguous *)
Definition route_unamb (reg : registry) (st : rstep) : bool :=
  match rs_kind st with
  | RFG =>
    match first_hit reg (rs_cls st) (rs_tfs st) with
    | Some (u, _) => unamb reg (rs_cls st) u
    | None => unamb reg (rs_cls st) (rs_any st)
    end
  | RTFS =>
    match first_hit reg (rs_from st) (rs_req st) with
    | None => true
    | Some (u, fo) =>
      let ch := children_of reg fo ++ match rs_link st with Some l => [l] | None => [] end in
      let reg' := reg_add reg (rs_sid st) (rs_cls st) ch in
      unamb reg (rs_from st) u &&
      match (match rs_right st with Some r => Some r | None => hd_error (rs_req st) end) with
      | Some r => unamb reg' (rs_from st) r
      | None => true
      end
    end
  end.

(* steps (ids) whose deciding lookup was ambiguous, in begin order *)
Fixpoint ambiguous_steps (reg : registry) (steps : list rstep) : list nat :=
  match steps with
  | [] => []
  | st :: r =>
    let here := if route_unamb reg st then [] else [rs_sid st] in
    match route reg st with
    | RouteErr => here
    | Routed reg' _ _ => here ++ ambiguous_steps reg' r
    end
  end.
