(* PlannerLM - the planner-with-links model (Model/PlannerL.v) for features that ADMIT SEVERAL compute frameworks.
   Definitions only; lemmas in Proofs/PlannerLBoth.v, statements in Props/C05both.v.

   Model/PlannerL.v fixes feature.compute_frameworks to a singleton (fcfw) before planning.  In mloda a feature group's
   compute_framework_rule may return a SET; Feature.compute_frameworks is then that set (intersected with the frameworks
   of the request) until ResolveComputeFrameworks.links narrows it:

     mloda/core/prepare/resolve_compute_frameworks.py
       ResolveComputeFrameworks.links            for every group of the planned queue whose first feature is a child of trekked
                                                 links: feature.compute_frameworks := resolve_trekked_links(trekked, feature.compute_frameworks)
       resolve_trekked_links (l. 110-141)        per trekker key (link, left_cfw, right_cfw):
                                                   RIGHT link:  right_cfw if admitted, else (left admitted) right_cfw + invert
                                                   other link:  "We keep the left framework if possible": left_cfw if admitted (also when
                                                                both are), else right_cfw + the key goes to to_invert_trekker_collection
       trekker_right_left_adjuster               inverts the collected keys (LinkTrekker.invert_link): ONLY the frameworks of the key are
                                                 exchanged; ExecutionPlan.run_link then builds JoinStep(link, left_framework = right cfw, ...)
                                                 and JoinStep._merge_data hands link.jointype / left_index / right_index to the engine as
                                                 declared - an inverted LEFT link reaches the consumer as (right table) LEFT JOIN (left table).

   Here: cm0 : cfwmap = the compute_frameworks of the features that admit several frameworks BEFORE planning (feature uuid -> the
   admitted set); every other feature has {fcfw}.  PlannerL.cfws_of already reads a cfwmap first and falls back to fcfw, and
   PlannerL.rtl_step is resolve_trekked_links on an arbitrary admitted set, so the only change is the INITIAL map of the fold in
   rcf_links (PlannerL starts from the empty map).  The resolution rule is a parameter `rtl` so that alternatives ("prefer the right
   framework") can be evaluated against the same pipeline; rtl = PlannerL.rtl_step and cm0 = [] is PlannerL, definitionally
   (Proofs/PlannerLBoth.v prepare_LM_conservative).  The fcfw field of a feature listed in cm0 is read by the stages before
   ResolveComputeFrameworks.links only for PARENTS (trek_pair) and for PlannerA's grouping key; for a consumer that is nobody's
   parent it is not read at all; the harness puts the framework the feature is planned on there. *)
From Coq Require Import List Bool Arith String.
Import ListNotations.
Require Import MV.Model.Orch MV.Model.OrchCheck MV.Model.Grouping MV.Model.PlannerA MV.Model.LinkSel MV.Model.PlannerL.
Open Scope nat_scope.

Definition rtl_rule := list plink -> list nat -> list nat * list lkey -> lkey -> list nat * list lkey.

(* the rule of the code *)
Definition rtl_code : rtl_rule := rtl_step.

(* the alternative "same preference order as for RIGHT joins": the right framework first (inverting the key whenever the two
   frameworks differ), the left one as fall-back; with the guard of equal index names when both are admitted *)
Definition rtl_prefer_right : rtl_rule := fun links cfws st k =>
  match jt_of links (k_uid k) with
  | RIGHT => rtl_step links cfws st k
  | _ =>
    let differ := negb (Nat.eqb (k_l k) (k_r k)) in
    let same_idx := match plink_of links (k_uid k) with Some pl => idx_eqb (lidx (pl_l pl)) (ridx (pl_l pl)) | None => false end in
    if mem (k_r k) cfws && ((differ && same_idx) || negb (mem (k_l k) cfws))
    then (set_add (k_r k) (fst st), if differ then snd st ++ [k] else snd st)
    else if mem (k_l k) cfws then (set_add (k_l k) (fst st), snd st) else st
  end.

Section ModelM.
  Variable ord : oparam.
  Variable g : fgraph.
  Variable mro : cls -> list cls.
  Variable links : list plink.
  Variable rtl : rtl_rule.
  Variable cm0 : cfwmap.

  (* PlannerL.rcf_group with the rule as a parameter *)
  Definition rcf_groupM (st : res (trek * cfwmap)) (it : pitem) : res (trek * cfwmap) :=
    match st, it with
    | Err e, _ => Err e
    | Ok s, PL _ => Ok s
    | Ok (t, cm), PG grp ms =>
      match ord (site_first grp) ms with
      | [] => Ok (t, cm)
      | f0 :: _ =>
        match trekked_of t f0 with
        | [] => Ok (t, cm)
        | trekked =>
          let r := fold_left (rtl links (cfws_of g cm f0)) trekked ([], []) in
          match fst r with
          | [] => Err e_nocfw
          | new =>
            let cm' := fold_left (fun c u => aset u new c) ms cm in
            match snd r with
            | [] => Ok (t, cm')
            | inv => match adjuster t inv ms with Err e => Err e | Ok t' => Ok (t', cm') end
            end
          end
        end
      end
    end.

  (* PlannerL.rcf_links starting from the admitted sets *)
  Definition rcf_linksM (pq : list pitem) (t : trek) : res (list pitem * trek * cfwmap) :=
    match fold_left rcf_groupM pq (Ok (t, cm0)) with
    | Err e => Err e
    | Ok (t1, cm) =>
      match order_links_by_frameworks (t_data t1) (t_order t1) with
      | None => Err e_internal
      | Some o => Ok (order_queue ord o pq, {| t_data := t_data t1; t_dor := t_dor t1; t_order := o |}, cm)
      end
    end.

  (* PlannerL.stages_L / prepare_L with rcf_linksM *)
  Definition stages_LM : res (stages * bool) :=
    if validate_rejects (map pl_l links) then Err e_links
    else if negb (no_self_link links) then Err e_outside
    else
      let d0 := trek_data ord g mro links in
      if conflicting_data links d0 then Err e_conflict
      else match get_ordered_data {| t_data := d0; t_dor := []; t_order := [] |} with
      | Err e => Err e
      | Ok t0 =>
        let q := queue_of g in
        let lq := link_queue q (t_dor t0) in
        let pq0 := planned_queue_L g q lq in
        match rcf_linksM pq0 t0 with
        | Err e => Err e
        | Ok (pq1, t1, cm) =>
          let pp := pre_plan ord g cm (t_data t1) pq1 in
          match add_joinstep ord g mro links cm t1 pp with
          | Err e => Err e
          | Ok (fw, jr) =>
            let r := add_tfs ord g links cm jr fw in
            Ok ({| st_data0 := d0; st_trek0 := t0; st_lq := lq; st_pq0 := pq0; st_pq1 := pq1; st_trek1 := t1; st_cm := cm;
                   st_raw := fst r |}, snd r)
          end
        end
      end.

  Definition prepare_LM : lresult :=
    match stages_LM with
    | Err e => if Nat.eqb e e_outside then LOutside else LRejected e []
    | Ok (s, outside) =>
      if outside then LOutside
      else
        let p := plan_of_L s in
        let cp := map core p in
        if negb (validate_A cp) then LRejected e_incomplete p
        else if runsim_accepts cp then LPlanned p else LRejected e_cycle p
    end.
End ModelM.

(* ---------- what the property looks at ---------- *)
(* the framework(s) the feature-group steps of class C are planned on *)
Definition cfw_of_class (C : nat) (r : lresult) : list nat :=
  match r with
  | LPlanned p => flat_map (fun x => match x with LFG _ grp cfw _ _ _ => if Nat.eqb grp C then [cfw] else [] | _ => [] end) p
  | _ => []
  end.
(* per JoinStep: (link uuid, left framework, classes of the LEFT uuids, classes of the RIGHT uuids) *)
Definition join_roles (g : fgraph) (r : lresult) : list (nat * nat * list nat * list nat) :=
  match r with
  | LPlanned p => flat_map (fun x => match x with
                                     | LJOIN _ uid lf _ lus rus => [(uid, lf, map (grp_of g) lus, map (grp_of g) rus)]
                                     | _ => []
                                     end) p
  | _ => []
  end.
(* the roles follow the Link: every JoinStep's LEFT uuids belong to the Link's left class, its RIGHT uuids to the right class *)
Definition roles_follow_links (g : fgraph) (links : list plink) (r : lresult) : bool :=
  match r with
  | LPlanned p => forallb (fun x => match x with
                                    | LJOIN _ uid _ _ lus rus =>
                                        negb (exchanged g links x) && forallb (fun u => Nat.eqb (grp_of g u) (rfg_of links uid)) rus
                                    | _ => true
                                    end) p
  | _ => true
  end.

(* ---------- checkers for the correspondence harness (harness/c05_both.py) ---------- *)
Definition lcaseM := (lcase * cfwmap)%type.
Definition stages_ofM (c : lcaseM) : res (stages * bool) :=
  stages_LM (ord_obs (lc_tab (fst c))) (lc_g (fst c)) mro_flat (lc_links (fst c)) rtl_code (snd c).
Definition result_ofM (c : lcaseM) : lresult :=
  prepare_LM (ord_obs (lc_tab (fst c))) (lc_g (fst c)) mro_flat (lc_links (fst c)) rtl_code (snd c).
Definition model_outsideM (c : lcaseM) : bool := match result_ofM c with LOutside => true | _ => false end.
Definition chk_stagesM (c : lcaseM) : bool :=
  let o := fst c in
  chk_graph_L o && chk_data0 o &&
  (Nat.ltb (lc_stage o) 1 ||
   match stages_ofM c with
   | Ok (s, _) => list_eqb_by qitem_eqb (st_lq s) (lc_lq o) && list_eqb_by pitem_eqb (st_pq0 s) (lc_pq0 o)
   | Err _ => true
   end) &&
  (Nat.ltb (lc_stage o) 2 ||
   match stages_ofM c with
   | Ok (s, _) => list_eqb_by pitem_eqb (st_pq1 s) (lc_pq1 o) && tdata_eqb (t_data (st_trek1 s)) (lc_data1 o)
                  && tdata_eqb (t_dor (st_trek1 s)) (lc_dor1 o) && amap_exact_eqb (t_order (st_trek1 s)) (lc_order1 o)
                  && forallb (fun n => sets_eqb (cfws_of (lc_g o) (st_cm s) (fid n)) (aget0 (fid n) (lc_cm o))) (lc_g o)
   | Err _ => true
   end).
Definition chk_planM (c : lcaseM) : bool :=
  let o := fst c in
  Nat.ltb (lc_stage o) 3 || model_outsideM c || list_eqb_by lstep_matches (plan_of_result (result_ofM c)) (lc_plan o).
Definition chk_outcomeM (c : lcaseM) : bool := model_outsideM c || Nat.eqb (outcome_L (result_ofM c)) (lc_outcome (fst c)).
Definition chk_planner_LM (c : lcaseM) : bool := chk_stagesM c && chk_planM c && chk_outcomeM c.
(* the statement of PlannerL_two_root_both_frameworks on the OBSERVED plan: the consumer class (the class of the requested
   feature) is planned on the framework of the root of the Link's left class, and the roles follow the Link *)
Definition obs_result (c : lcaseM) : lresult := if Nat.eqb (lc_outcome (fst c)) 0 then LPlanned (lc_plan (fst c)) else LRejected (lc_outcome (fst c)) [].
Definition left_root_cfw (g : fgraph) (links : list plink) : list nat :=
  match links with
  | [l] => dedupe (map fcfw (filter (fun n => Nat.eqb (fgrp n) (lfg (pl_l l)) && match fins n with [] => true | _ => false end) g))
  | _ => []
  end.
Definition consumer_classes (g : fgraph) : list nat := dedupe (map fgrp (filter freq g)).
Definition chk_left_kept (c : lcaseM) : bool :=
  let o := fst c in
  let r := obs_result c in
  match r with
  | LPlanned _ =>
    roles_follow_links (lc_g o) (lc_links o) r &&
    forallb (fun C => list_eqb_by Nat.eqb (dedupe (cfw_of_class C r)) (left_root_cfw (lc_g o) (lc_links o))) (consumer_classes (lc_g o))
  | _ => false
  end.
