(* C16 — the PAIR (source features the planner declares, source column the calculation reads).  Definitions only.

   Sources (under /repo):
     mloda/core/abstract_plugins/components/feature_chainer/feature_chain_parser_mixin.py
        FeatureChainParserMixin.input_features            (planning side)    -> plan_of, plan_sources
        FeatureChainParserMixin._extract_source_features  (calculation side) -> calc_of, calc_sources
     mloda_plugins/feature_group/experimental/time_window/base.py
        TimeWindowFeatureGroup.input_features (specialised planning side: no "&" split, exactly one configured
        in_feature, plus the reference-time feature)                           -> plan_tw_of
        (its calculation side is the mixin's _extract_source_features, of which source_features[0] is read)

   Both sides are functions of (feature name, options).  They are written over the RESULT `p` of
   FeatureChainParser.parse_feature_name(name, patterns) and the value `inf` of options.get("in_features"), so the
   precedence between a chained name and configured in_features is explicit and the theorems hold for EVERY pattern
   (also the time-window pattern, which is outside the regex family written out in Model/ChainParser.v).

   Precedence in the code (both sides): the chained name first; configured in_features only when the name does not
   parse (or parses with an empty source, which parse_feature_name never returns).
     planning:     {Feature(f) for f in src.split("&")} after _validate_in_feature_count | options.get_in_features()
     calculation:  src.split("&")  (a list, nothing validated)     | [f.get_name() for f in options.get_in_features()]

   calc_of_cfgfirst is NOT the code: it is the precedence "configured in_features first, name only when none is
   configured" on the calculation side only (refuted in Props/C16.v).                                              *)
From Coq Require Import List Bool Ascii String Arith.
Import ListNotations.
Require Import MV.Model.ChainParser.
Open Scope list_scope.

(* ---- planning side: FeatureChainParserMixin.input_features, over the parse result and options.get(in_features) *)
Definition plan_of (g : grp) (p : presult) (inf : pv) : res (list pv) :=
  let fallback :=
    match get_in_features inf with
    | Err e => Err e
    | Ok fs => if count_ok g (List.length fs) then Ok fs else Err EValue
    end in
  match p with
  | PErr => Err EValue
  | NoParse => fallback
  | Parsed _ [] => fallback
  | Parsed _ src =>
      let parts := split_on amp src in
      if count_ok g (List.length parts) then Ok (dedup (map feat parts)) else Err EValue
  end.

Definition plan_sources (g : grp) (name : str) (group ctx : list (str * pv)) : res (list pv) :=
  plan_of g (parse_feature_name (g_sufs g) name) (options_get k_in_features group ctx).

(* ---- calculation side: FeatureChainParserMixin._extract_source_features: a list of NAMES (Feature.get_name()) *)
Definition names_of (fs : list pv) : list pv := map elem_name fs.

Definition calc_of (p : presult) (inf : pv) : res (list pv) :=
  let fallback := match get_in_features inf with Err e => Err e | Ok fs => Ok (names_of fs) end in
  match p with
  | PErr => Err EValue
  | NoParse => fallback
  | Parsed _ [] => fallback
  | Parsed _ src => Ok (map PStr (split_on amp src))
  end.

Definition calc_sources (g : grp) (name : str) (group ctx : list (str * pv)) : res (list pv) :=
  calc_of (parse_feature_name (g_sufs g) name) (options_get k_in_features group ctx).

(* the column the built-in groups read: source_features[0] *)
Definition calc_column (g : grp) (name : str) (group ctx : list (str * pv)) : res pv :=
  match calc_sources g name group ctx with
  | Err e => Err e
  | Ok (c :: _) => Ok c
  | Ok [] => Err EOther                                   (* IndexError *)
  end.

(* ---- the other precedence (not the code): configured in_features win on the calculation side ---- *)
Definition calc_of_cfgfirst (p : presult) (inf : pv) : res (list pv) :=
  let configured := match get_in_features inf with Err e => Err e | Ok fs => Ok (names_of fs) end in
  if truthy inf then configured
  else match p with
       | PErr => Err EValue
       | Parsed _ (c :: s) => Ok (map PStr (split_on amp (c :: s)))
       | _ => configured                                   (* raises: nothing configured *)
       end.

Definition calc_sources_cfgfirst (g : grp) (name : str) (group ctx : list (str * pv)) : res (list pv) :=
  calc_of_cfgfirst (parse_feature_name (g_sufs g) name) (options_get k_in_features group ctx).

(* where the two precedences can differ: something is configured AND the name parses (or raises) *)
Definition kf_both (p : presult) (inf : pv) : bool :=
  truthy inf && match p with NoParse | Parsed _ [] => false | _ => true end.

(* ---- time window: specialised planning side.  t = the reference-time column (get_reference_time_column(options)) ---- *)
Definition plan_tw_of (t : str) (p : presult) (inf : pv) : res (list pv) :=
  match p with
  | PErr => Err EValue
  | Parsed _ src => Ok (dedup [feat src; feat t])
  | NoParse =>
      match get_in_features inf with
      | Err e => Err e
      | Ok [f] => Ok (dedup [f; feat t])
      | Ok _ => Err EValue
      end
  end.

(* ---- what "the calculation reads what was planned" means: the same set of names ---- *)
Definition same_names (ns : list pv) (fs : list pv) : Prop := forall x, In x ns <-> In x (names_of fs).
