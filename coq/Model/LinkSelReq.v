(* Link selection for a whole request, and the order-dependent "single most specific link" variant (C04).

   Sources (mloda/core/prepare/resolve_links.py):
     ResolveLinks.go_through_each_child_and_its_parents_and_look_for_links
         for every ordered pair (parent_in, parent_out) of a child:  matched_links = _find_matching_links(left_fg, right_fg);
         for matched_link in matched_links: set_link_trekker(key(matched_link, ...), child)
         -> every (pair, selected link) becomes a key of link_trekker.data, i.e. one join of the plan   -> pair_joins, request_joins
     ResolveLinks._find_matching_links / _select_most_specific_links                                    -> LinkSel.find_matching
   self.links is a Python `set` of Link (Link.__hash__ hashes strings and an Enum): the order in which `for link in self.links`
   yields the links depends on PYTHONHASHSEED.  In the model the iteration order is the ORDER OF THE LIST `links`; theorems
   quantify over all permutations of it.

   first_min / find_matching_first are NOT the code: they are the variant "min(link_distances, key=distance)" (Python's min
   returns the FIRST minimal element in iteration order), kept as the refuted alternative (Props/C04.v, *_refuted).
   Definitions only. *)
From Coq Require Import List Bool ZArith String Arith.
Import ListNotations.
Require Import MV.Model.LinkSel.
Open Scope Z_scope.

Section Req.
  Variable mro : cls -> list cls.

  Definition pair_joins (links : list link) (ab : cls * cls) : list ((cls * cls) * link) :=
    map (pair ab) (find_matching mro links (fst ab) (snd ab)).

  (* the joins planned for a request = list of ordered pairs of feature-group classes needing a join *)
  Definition request_joins (links : list link) (pairs : list (cls * cls)) : list ((cls * cls) * link) :=
    flat_map (pair_joins links) pairs.

  (* min(link_distances, key=lambda ld: ld[1]) over the links in iteration order: first minimal element *)
  Fixpoint first_min (lf rf : cls) (ls : list link) : option (link * Z) :=
    match ls with
    | [] => None
    | l :: t => match sel_dist mro lf rf l, first_min lf rf t with
                | Some d, Some (l', m) => if Z.leb d m then Some (l, d) else Some (l', m)
                | Some d, None => Some (l, d)
                | None, r => r
                end
    end.

  Definition find_matching_first (links : list link) (lf rf : cls) : list link :=
    match filter (fun l => matches_exact l lf rf) links with
    | e :: es => e :: es
    | [] => match first_min lf rf (filter (fun l => matches_poly mro l lf rf) links) with
            | Some (l, _) => [l]
            | None => []
            end
    end.
End Req.
