(* Execution modes of one run (mloda/core/abstract_plugins/components/parallelization_modes.py: ParallelizationMode)
   and the three places where the models of C03 / C07 / C20 depend on them.  Definitions only.

   Sources:
     runtime/compute_framework_executor.py  _get_execution_function            -> inline_of
         SYNC            sync_execute_step: the step runs to completion inside the orchestrator's loop
         THREADING       thread_execute_step: worker thread, sets step.step_is_done / the error flag later
         MULTIPROCESSING multi_execute_step: worker process (multiprocessing.Process, start method fork), the
                         step is pickled through a command queue, completion arrives through a result queue
     runtime/run.py  ExecutionOrchestrator.__enter__                            -> shares_objects
         {SYNC}: cfw_register = CfwManager(...) is a local object; otherwise it lives in a BaseManager server
         process: function_extender and api_data are pickled into it and every compute-framework object is created
         with an unpickled COPY of the extender set (get_function_extender through the proxy)
     runtime/data_lifecycle_manager.py  get_result_data                         -> transfers
         `cfw.data` if the parent holds the data (SYNC, THREADING), else FlightServer.download_table(cfw.uuid):
         the worker process uploaded its whole table; the requested columns are selected after the download *)
Inductive pmode := MSync | MThreading | MMultiprocessing.

Definition inline_of (m : pmode) : bool := match m with MSync => true | _ => false end.
Definition shares_objects (m : pmode) : bool := match m with MSync => true | _ => false end.
Definition transfers (m : pmode) : bool := match m with MMultiprocessing => true | _ => false end.

Definition pmode_eqb (a b : pmode) : bool :=
  match a, b with MSync, MSync | MThreading, MThreading | MMultiprocessing, MMultiprocessing => true | _, _ => false end.
