(* A worker failure that lands in the MIDDLE of a pass of the orchestrator's loop, MULTIPROCESSING view (Model/Worker.v terms).
   Definitions only; proofs in Proofs/WorkerMidP.v, statements in Props/C08mid.v.

   WFail w c (multiprocessing_worker.py:131-140): the worker calls set_error (CfwManager.error := message, through the manager
   process), puts "STOP" on its own command queue and leaves its loop: the process exits with code 0 and NO message is put on
   its result queue.  The main thread polls the error register only at the loop head (run.py:101-108 / 156-163, label OHead);
   everything it does between two heads (OVisit, OPoll, OCollect, ORequeue / OGot / OTimeout, OExec, OEndScan, the drain of
   compute_stream) reads result queues, step.step_is_done and its own locals - never the liveness of a worker process.

   `reported a` is what get_error() returns (Model/Orch.v: `failed`, head = the message of the last set_error).

   step_deadchk = Model/Worker.v `step` PLUS one main-thread transition ODeadRaise that the code does NOT have:
     "in _process_step_result of a running step that has not reported a result (PPolled i, not done): if the worker process the
      step was sent to is dead, raise" (exit kind XRaisedBody = an exception out of the loop body: the caller sees THAT exception,
      not get_error()).
   It is the mechanism of a plausible "dead worker detection" (regression input seeded/C08_r5); used only by the witness
   Worker_midpass_deadcheck_refuted. *)
From Coq Require Import List Bool Arith.
Import ListNotations.
Require Import MV.Model.Orch MV.Model.Worker.

(* what get_error() returns: the message of the failing step (steps stand for their messages) *)
Definition reported (a : ost) : option nat := hd_error (failed a).

(* the main thread is inside the loop (no exit kind chosen yet) *)
Definition in_loop (q : opc) : bool :=
  match q with PHead | PVisit _ | PPolled _ | PWait _ _ | PYield _ => true | _ => false end.

(* the exit kind once the main thread has left the loop (finally block and after) *)
Definition exit_kind (q : opc) : option exitk :=
  match q with PFinally x | PTerm x _ | PJoin x _ | PDrop x | PExited x => Some x | _ => None end.

Inductive xlabel := XL (l : label) | ODeadRaise.

Definition step_deadchk (c : cfg) (st : pst) (xl : xlabel) : option pst :=
  match xl with
  | XL l => step c st l
  | ODeadRaise =>
    match pc st with
    | PPolled i =>
      match nth_error (cplan c) i with
      | Some s =>
        if negb (is_fin s (o st)) && cur_running s (o st) && negb (mem (sid s) (done (o st))) && mp c
           && dead (phase (ws st (wof c (sid s))))
        then Some (set_pc st (PFinally XRaisedBody)) else None
      | None => None
      end
    | _ => None
    end
  end.

Fixpoint exec_deadchk (c : cfg) (st : pst) (tr : list xlabel) : option pst :=
  match tr with
  | [] => Some st
  | l :: t => match step_deadchk c st l with Some st' => exec_deadchk c st' t | None => None end
  end.
