(* C17: WHICH features of a run carry a declared type, and therefore reach the type check.

   The validator (Model/Validate.v) decides one feature; the chain model (Model/ValidateChain.v) decides which strict option a
   feature carries.  This file models how the engine fills `feature_group_collection` - the features that end up in the
   FeatureSets handed to ComputeFramework.run_validate_output_features -> DataTypeValidator.validate - from
     (1) the features the USER wrote: requested features and the features a group's input_features() returns,
     (2) the features the ENGINE adds by itself: an index (join-key) feature for every (index of the group, side of a Link naming
         that index), a filter feature for every filter of the GlobalFilter that the group matches.
   Mirrors (mloda/core/core/engine.py unless said otherwise):
     Engine._process_feature                    process_feature: set type, add the feature, then its filter features, then its
                                                index features (the recursion into input_features is the next element of `us`:
                                                the user features arrive flattened, each with the strict option it carries after
                                                Features.merge_options - that is Model/ValidateChain.effective)
     Engine.set_data_type                       Validate.set_data_type with the group's return_data_type_rule (g_rule, by name)
     Engine._add_index_feature / _process_index_feature / _create_and_add_index_feature
                                                add_index_features: nothing without index_columns() or without links; one feature
                                                per index x link x side whose (feature group, index) equals the group's
     components/index/add_index_feature.py: create_index_feature
                                                create_index_feature: name = FIRST column of the index, options = the options of
                                                the feature it is created for, NO data type; it is put into the collection directly,
                                                i.e. NOT through set_data_type (a return_data_type_rule never reaches it)
     Engine._add_filter_feature, GlobalFilter.identity_matched_filters / unify_options / criteria
                                                add_filter_features: a deep copy of the filter's own feature (a `str` filter =>
                                                no data type; a Feature => whatever the user declared on it), options: the filter
                                                feature's own keys win, missing keys are taken from the feature being processed;
                                                also put into the collection directly
     Engine.add_feature_to_collection           add_entry: the collection is a set (Feature.__eq__: name, options, data type, ...)
     ComputeFramework.run_validate_output_features -> DataTypeValidator.validate
                                                run_mismatch: every feature of every feature set of every group is validated against
                                                the columns of the data its group produced (validate_raises)
   The index-feature constructor is a parameter (`mkidx`) of the general definitions so that the theorems can say what they need of
   it (it leaves the type undeclared) and what happens otherwise (index_inherit: the owner's declaration leaks onto the key).
   Definitions only. *)
From Coq Require Import List Bool String Arith.
Import ListNotations.
Require Import MV.Spec.Types MV.Model.Validate MV.Model.ValidateChain.
Open Scope string_scope.
Open Scope list_scope.

(* a feature group as far as this mechanism sees it *)
Record group := {
  g_cols  : list string;            (* names it matches (match_feature_group_criteria) - decides which filters apply *)
  g_index : list (list string);     (* index_columns(): each index is a tuple of columns; [] = None *)
  g_rule  : list (string * dtype)   (* return_data_type_rule, by feature name *)
}.
(* a Link: (left feature group, left index, right feature group, right index); groups by position in the group list *)
Record link := { k_lg : nat; k_lidx : list string; k_rg : nat; k_ridx : list string }.
(* the filter feature of a SingleFilter *)
Record flt := { f_name : string; f_decl : option dtype; f_own : strict_opt }.
(* a feature the user wrote (requested / returned by input_features), with the strict option it carries after option merging *)
Record ufeat := { u_group : nat; u_name : string; u_decl : option dtype; u_strict : strict_opt }.
(* a feature as stored in feature_group_collection[group] *)
Record entry := { e_group : nat; e_name : string; e_type : option dtype; e_strict : strict_opt }.

Definition odtype_eqb (a b : option dtype) : bool :=
  match a, b with Some x, Some y => dtype_eqb x y | None, None => true | _, _ => false end.
Definition entry_eqb (a b : entry) : bool :=
  Nat.eqb (e_group a) (e_group b) && String.eqb (e_name a) (e_name b) && odtype_eqb (e_type a) (e_type b)
  && strict_opt_eqb (e_strict a) (e_strict b).

Fixpoint assoc_s {A} (n : string) (l : list (string * A)) : option A :=
  match l with [] => None | (k, v) :: t => if String.eqb k n then Some v else assoc_s n t end.
Definition rule_of (g : group) (n : string) : option dtype := assoc_s n (g_rule g).

Fixpoint index_eqb (a b : list string) : bool :=
  match a, b with
  | [], [] => true
  | x :: s, y :: t => String.eqb x y && index_eqb s t
  | _, _ => false
  end.

(* create_index_feature as the code has it *)
Definition create_index_feature (gi : nat) (idx : list string) (owner : entry) : entry :=
  {| e_group := gi; e_name := hd "" idx; e_type := None; e_strict := e_strict owner |}.
(* the variant in which the index feature takes over the declaration of the feature it is created for *)
Definition index_inherit (gi : nat) (idx : list string) (owner : entry) : entry :=
  {| e_group := gi; e_name := hd "" idx; e_type := e_type owner; e_strict := e_strict owner |}.

Definition filter_matches (g : group) (f : flt) : bool := existsb (String.eqb (f_name f)) (g_cols g).
Definition filter_feature (gi : nat) (owner : entry) (f : flt) : entry :=
  {| e_group := gi; e_name := f_name f; e_type := f_decl f;
     e_strict := match f_own f with SAbsent => e_strict owner | o => o end |}.
Definition add_filter_features (gi : nat) (g : group) (filters : list flt) (owner : entry) : list entry :=
  map (filter_feature gi owner) (filter (filter_matches g) filters).

Section Engine.
  Variable mkidx : nat -> list string -> entry -> entry.

  Definition process_index (gi : nat) (links : list link) (owner : entry) (idx : list string) : list entry :=
    flat_map (fun k =>
      (if Nat.eqb (k_lg k) gi && index_eqb (k_lidx k) idx then [mkidx gi idx owner] else []) ++
      (if Nat.eqb (k_rg k) gi && index_eqb (k_ridx k) idx then [mkidx gi idx owner] else [])) links.

  (* links = None: no links were passed *)
  Definition add_index_features (gi : nat) (g : group) (links : option (list link)) (owner : entry) : list entry :=
    match links with
    | None => []
    | Some ks => flat_map (process_index gi ks owner) (g_index g)
    end.

  (* None = prepare raises (no such group / request type conflicts with the group's rule) *)
  Definition process_feature (groups : list group) (links : option (list link)) (filters : list flt) (u : ufeat)
    : option (list entry) :=
    match nth_error groups (u_group u) with
    | None => None
    | Some g =>
      match set_data_type (u_decl u) (rule_of g (u_name u)) with
      | inr _ => None
      | inl t =>
        let own := {| e_group := u_group u; e_name := u_name u; e_type := t; e_strict := u_strict u |} in
        Some (own :: add_filter_features (u_group u) g filters own ++ add_index_features (u_group u) g links own)
      end
    end.

  Definition add_entry (acc : list entry) (e : entry) : list entry :=
    if existsb (entry_eqb e) acc then acc else acc ++ [e].

  Fixpoint collect_from (groups : list group) (links : option (list link)) (filters : list flt) (us : list ufeat)
           (acc : list entry) : option (list entry) :=
    match us with
    | [] => Some acc
    | u :: t =>
      match process_feature groups links filters u with
      | None => None
      | Some es => collect_from groups links filters t (fold_left add_entry es acc)
      end
    end.
  Definition collect_with groups links filters us := collect_from groups links filters us [].
End Engine.

Definition collect := collect_with create_index_feature.

(* the data a group's steps produce: column name -> DataType.from_arrow_type of the column (None = unsupported Arrow type);
   a name that is not listed is not a column of the data *)
Definition columns := list (list (string * option dtype)).

Definition entry_vcase (cols : columns) (e : entry) : vcase :=
  let c := assoc_s (e_name e) (nth (e_group e) cols []) in
  {| v_declared := e_type e;
     v_present := match c with Some _ => true | None => false end;
     v_actual := match c with Some a => a | None => None end;
     v_strict := e_strict e |}.

Definition run_mismatch (strict lenient : dtype -> dtype -> bool) (cols : columns) (coll : list entry) : bool :=
  existsb (fun e => validate_raises strict lenient (entry_vcase cols e)) coll.

Inductive set_outcome := SReject | SMismatch | SOk.

Definition run_set_with mkidx (strict lenient : dtype -> dtype -> bool) groups links filters us (cols : columns) : set_outcome :=
  match collect_with mkidx groups links filters us with
  | None => SReject
  | Some coll => if run_mismatch strict lenient cols coll then SMismatch else SOk
  end.
Definition run_set := run_set_with create_index_feature.

(* what the user declared: the features the user wrote, with the type that results from the own declaration and the group's rule *)
Definition user_entry (u : ufeat) (t : option dtype) : entry :=
  {| e_group := u_group u; e_name := u_name u; e_type := t; e_strict := u_strict u |}.
Definition declared_type (groups : list group) (u : ufeat) : option (option dtype) :=
  match nth_error groups (u_group u) with
  | None => None
  | Some g => match set_data_type (u_decl u) (rule_of g (u_name u)) with inl t => Some t | inr _ => None end
  end.

(* vocabulary of the statements: filters given by column name (no declaration on the filter feature); a user feature whose
   resulting declaration is incompatible with the column its group produced, under the table its strict option selects *)
Definition undeclared_filters (filters : list flt) : Prop := forall f, In f filters -> f_decl f = None.
Definition user_incompatible (strict lenient : dtype -> dtype -> bool) (groups : list group) (cols : columns) (u : ufeat) : Prop :=
  exists d a, declared_type groups u = Some (Some d) /\
              assoc_s (u_name u) (nth (u_group u) cols []) = Some (Some a) /\
              (if strict_mode (u_strict u) then strict d a else lenient d a) = false.

(* ---- depth-2 requests for the correspondence: requested features with their input features; the per-call flag and the option
        merge are those of Model/ValidateChain.v ---- *)
Record dfeat := { d_group : nat; d_name : string; d_decl : option dtype; d_own : strict_opt }.
Record rfeat := { r_group : nat; r_name : string; r_decl : option dtype; r_own : strict_opt; r_deps : list dfeat }.

Fixpoint flatten_deps (parent : strict_opt) (ds : list dfeat) : option (list ufeat) :=
  match ds with
  | [] => Some []
  | d :: t =>
    match merge_strict parent (d_own d), flatten_deps parent t with
    | Some e, Some r => Some ({| u_group := d_group d; u_name := d_name d; u_decl := d_decl d; u_strict := e |} :: r)
    | _, _ => None
    end
  end.

(* None = the option conflict of Options.add / Features.merge_options *)
Fixpoint flatten (api : bool) (rs : list rfeat) : option (list ufeat) :=
  match rs with
  | [] => Some []
  | r :: t =>
    if api && match r_own r with SFalse => true | _ => false end then None else
    let e0 := propagate_strict api (r_decl r) (r_own r) in
    match flatten_deps e0 (r_deps r), flatten api t with
    | Some ds, Some rest => Some ({| u_group := r_group r; u_name := r_name r; u_decl := r_decl r; u_strict := e0 |} :: ds ++ rest)
    | _, _ => None
    end
  end.

Inductive req_outcome := QOptConflict | QReject | QMismatch | QOk.

Definition undeclarable (groups : list group) (u : ufeat) : bool :=
  match declared_type groups u with None => true | Some _ => false end.

(* mlodaAPI._process_features runs over ALL requested features before the engine exists: Options.add raises when a requested
   feature carries strict_type_enforcement=False and the call asks for strict enforcement *)
Definition api_conflict (api : bool) (rs : list rfeat) : bool :=
  api && existsb (fun r => match r_own r with SFalse => true | _ => false end) rs.

(* the prepare-time errors of a request in the order the engine meets them (Engine.setup_features_recursion over the requested
   features in request order): set_data_type of the requested feature; then Features.__init__ merges the options into ALL its input
   features (conflict); then set_data_type of each input feature.  None = prepare succeeds. *)
Fixpoint prepare_error (groups : list group) (api : bool) (rs : list rfeat) : option req_outcome :=
  match rs with
  | [] => None
  | r :: t =>
    let e0 := propagate_strict api (r_decl r) (r_own r) in
    if undeclarable groups {| u_group := r_group r; u_name := r_name r; u_decl := r_decl r; u_strict := e0 |} then Some QReject else
    match flatten_deps e0 (r_deps r) with
    | None => Some QOptConflict
    | Some ds => if existsb (undeclarable groups) ds then Some QReject else prepare_error groups api t
    end
  end.

Definition run_request (strict lenient : dtype -> dtype -> bool) groups links filters (api : bool) (rs : list rfeat) (cols : columns)
  : req_outcome * list entry :=
  if api_conflict api rs then (QOptConflict, []) else
  match prepare_error groups api rs with
  | Some o => (o, [])
  | None =>
    match flatten api rs with
    | None => (QOptConflict, [])
    | Some us =>
      match collect groups links filters us with
      | None => (QReject, [])
      | Some coll => (if run_mismatch strict lenient cols coll then QMismatch else QOk, coll)
      end
    end
  end.
