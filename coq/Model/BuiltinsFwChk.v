(* C19 (extension): checkers of the MODEL TIE and of the KERNEL CONTRACT tests, evaluated with vm_compute on the case
   files written by harness/c19.py.  Definitions only.

   chk_imp_fwx / chk_win_fwx / chk_aggx_fwx : what the real PyArrow / pandas feature group returned (mloda.run_all) is
     compared, cell by cell, with the glue models of Model/MissingValueArrow.v, MissingValuePandas.v, TimeWindowFw.v
     (the definitions the theorems of Props/C19fw.v are about) instantiated with the executable reference kernels
     (`ref_kernels`, `ref_pd`, `ref_paw`, `ref_pdw`; they satisfy the contracts).
   chk_kernel : one recorded call of a REAL library kernel (input, output) against the contract assumed for it.
   Numbers: exact rationals, tolerance 1e-9 as in Model/BuiltinsChk.v where a float is computed (mean, median, variance),
   exact equality where a kernel only moves cells around. *)
From Coq Require Import QArith Qabs List Bool Arith ZArith.
Import ListNotations.
Require Import MV.Spec.Builtins MV.Model.MissingValuePyDict MV.Model.BuiltinsFw MV.Model.BuiltinsChk.
Require Import MV.Model.MissingValueArrow MV.Model.MissingValuePandas MV.Model.TimeWindowFw.
Open Scope Q_scope.

(* ---------------------------------------------- model tie ---------------------------------------------- *)
Definition im_dtype (c : imp_case) : dtype := if negb (im_num c) then TStr else if im_int c then TInt else TFloat.
(* the Python kind of the `constant_value` option as harness/c19.py feature_of builds it *)
Definition im_ckind (c : imp_case) : pykind :=
  if negb (im_num c) then KStr
  else match im_m c with
       | IConst k => if im_int c && q_is_integer k then KInt else KFloat
       | _ => KFloat
       end.
Definition imp_fwx (c : imp_case) : option col :=
  match im_fw c with
  | FwPa => option_map a_cells (pa_perform ref_kernels (im_m c) (im_ckind c) (option_map pa_transpose (im_keys c))
                                           (mk_arr (im_dtype c) (im_col c)))
  | FwPd => Some (pd_perform ref_pd (im_m c) (im_keys c) (im_col c))
  | FwPy => Some (py_perform_imputation (im_m c) (im_keys c) (im_col c))
  end.
Definition chk_imp_fwx (c : imp_case) : bool := obs_cmp false (im_obs c) (imp_fwx c).

Definition win_fwx (c : win_case) : list (option Q) :=
  match wi_fw c with
  | FwPa => pa_window ref_paw (wi_op c) (wi_size c) (wi_times c) (wi_col c)
  | FwPd => pd_window ref_pdw (wi_op c) (wi_size c) (wi_times c) (wi_col c)
  | FwPy => window_spec (wi_op c) (wi_size c) (wi_times c) (wi_col c)
  end.
Definition chk_win_fwx (c : win_case) : bool := obs_cmp (wop_is_root (wi_op c)) (wi_obs c) (Some (win_fwx c)).

(* aggregation: the WHOLE result column (the broadcast is glue) *)
Record aggx_case := { ax_fw : fwk; ax_op : aggop; ax_col : col; ax_obs : option (list (option Q)) }.
Definition aggx_fw (c : aggx_case) : list (option Q) :=
  match ax_fw c with
  | FwPa => pa_aggregate ref_paw (ax_op c) (ax_col c)
  | FwPd => pd_aggregate ref_pdw (ax_op c) (ax_col c)
  | FwPy => repeat (agg_spec (ax_op c) (ax_col c)) (List.length (ax_col c))
  end.
Definition chk_aggx_fwx (c : aggx_case) : bool := obs_cmp (is_root (ax_op c)) (ax_obs c) (Some (aggx_fw c)).

(* ------------------------------------------- kernel contracts ------------------------------------------- *)
Definition qeq_cell (a b : cell) : bool :=
  match a, b with None, None => true | Some x, Some y => Qeq_bool x y | _, _ => false end.
Fixpoint col_eqb (a b : col) : bool :=
  match a, b with [], [] => true | x :: a', y :: b' => qeq_cell x y && col_eqb a' b' | _, _ => false end.
Fixpoint counts_eqb (a b : list (Q * nat)) : bool :=
  match a, b with
  | [], [] => true
  | (x, n) :: a', (y, m) :: b' => Qeq_bool x y && Nat.eqb n m && counts_eqb a' b'
  | _, _ => false
  end.
Fixpoint groups_eqb (a b : list (list nat)) : bool :=
  match a, b with [], [] => true | x :: a', y :: b' => list_nat_eqb x y && groups_eqb a' b' | _, _ => false end.
Fixpoint nodup_keys (ks : list key) : bool :=
  match ks with [] => true | k :: t => negb (existsb (key_eqb k) t) && nodup_keys t end.
(* the decidable form of contract p_groups: every group is the full row set of the key of its first row, the groups have
   pairwise different keys, every row is in a group *)
Definition groups_ok (keys : list key) (gs : list (list nat)) : bool :=
  forallb (fun g => match g with [] => false | i :: _ => list_nat_eqb g (rows_with keys (nth i keys [])) end) gs
  && nodup_keys (map (fun g => nth (hd 0%nat g) keys []) gs)
  && forallb (fun i => existsb (fun g => existsb (Nat.eqb i) g) gs) (seq 0 (List.length keys)).

Inductive kcase :=
  (* pyarrow *)
  | KMean (c : col) (out : option Q)                               (* pc.mean(c).as_py() *)
  | KQuantile50 (c : col) (out : option Q)                         (* pc.quantile(c, q=0.5)[0].as_py() *)
  | KDropNull (c : col) (out : col)                                (* pc.drop_null(c) *)
  | KValueCounts (c : col) (out : list (Q * nat))                  (* pc.value_counts(pc.drop_null(c)) *)
  | KMax (l : list nat) (out : nat)                                (* pc.max(counts).as_py() *)
  | KFillNull (t : dtype) (c : col) (v : option pyv) (out : col)   (* pc.fill_null(c, v) *)
  | KCastF64 (c : col) (out : col)                                 (* pc.cast(int column, float64) *)
  | KFilter (c : col) (mask : list bool) (out : col)               (* pc.filter(c, mask) *)
  | KNonzero (mask : list bool) (out : list nat)                   (* pc.indices_nonzero(mask) *)
  | KArray (l : col) (out : col)                                   (* pa.array(python list) *)
  | KSort (times : list Z) (out : list nat)                        (* pc.sort_indices / ndarray.argsort(kind="stable") *)
  | KTake (c : col) (idx : list nat) (out : col)                   (* pc.take / DataFrame.iloc *)
  | KAggPa (op : aggop) (c : col) (out : option Q)                 (* pc.sum ... pc.quantile *)
  (* pandas / numpy *)
  | KAggPd (op : aggop) (c : col) (out : option Q)                 (* Series.sum() ... median() *)
  | KRolling (op : aggop) (w : nat) (c : col) (out : list (option Q))     (* rolling(w, min_periods=1).<op>() *)
  | KRollingApply (first : bool) (w : nat) (c : col) (out : list (option Q))  (* rolling(...).apply(iloc[0] / iloc[-1]) *)
  | KScatter (idx : list nat) (vals : col) (out : col)             (* r = v.copy(); r[idx] = v *)
  | KPdFillna (c : col) (v : option Q) (out : col)                 (* Series.fillna(scalar) *)
  | KPdFillnaSeries (c o out : col)                                (* Series.fillna(Series) *)
  | KPdValueCounts (c : col) (out : list (Q * nat))                (* value_counts(sort=False) *)
  | KPdIdxmax (d : list (Q * nat)) (out : Q)                       (* idxmax() *)
  | KPdFfill (fwd : bool) (c out : col)                            (* ffill() / bfill() *)
  | KPdGroups (keys : list key) (out : list (list nat))            (* [list(g.index) for _, g in groupby(dropna=False)] *)
  | KPdTransform (median : bool) (keys : list key) (c out : col)   (* transform("mean" / "median") *)
  | KPdTransformFill (fwd : bool) (keys : list key) (c out : col). (* transform(lambda x: x.ffill() / x.bfill()) *)

Definition chk_kernel (k : kcase) : bool :=
  match k with
  | KMean c out => ocmp false out (mean_l (vals c))
  | KQuantile50 c out => ocmp false out (median_l (vals c))
  | KDropNull c out => col_eqb out (map Some (vals c))
  | KValueCounts c out => counts_eqb out (counter (vals c))
  | KMax l out => Nat.eqb out (list_max l)
  | KFillNull t c v out =>
      match v with
      | None => col_eqb out c
      | Some p => if fits t p then col_eqb out (fill_with (Some (py_q p)) c) else true   (* nothing assumed *)
      end
  | KCastF64 c out => col_eqb out c
  | KFilter c mask out => col_eqb out (filter_mask c mask)
  | KNonzero mask out => list_nat_eqb out (nonzero mask)
  | KArray l out => col_eqb out l
  | KSort times out => stable_argsort_b times out
  | KTake c idx out => col_eqb out (take c idx)
  | KAggPa op c out => ocmp (is_root op) out (agg_pop op c)
  | KAggPd op c out => ocmp (is_root op) out (agg_pd_sum0 op c)
  | KRolling op w c out => lcmp (is_root op) out (windows_sorted (WAgg op) w c)
  | KRollingApply first w c out =>
      lcmp false out (rolling_apply_ref (if first then (fun x => hd None x) else (fun x => last x None)) w c)
  | KScatter idx v out => col_eqb out (np_scatter v idx v)
  | KPdFillna c v out => col_eqb out (fill_with v c)
  | KPdFillnaSeries c o out => col_eqb out (fill_from c o)
  | KPdValueCounts c out => counts_eqb out (counter (vals c))
  | KPdIdxmax d out => match most_common1 d with Some v => Qeq_bool out v | None => false end
  | KPdFfill fwd c out => col_eqb out (if fwd then ffill_spec c else bfill_spec c)
  | KPdGroups keys out => groups_ok keys out
  | KPdTransform median keys c out => lcmp false out (group_stat_col (if median then median_l else mean_l) keys c)
  | KPdTransformFill fwd keys c out => col_eqb out (impute_grouped_spec (if fwd then IFfill else IBfill) keys c)
  end.

(* literal helpers *)
Definition pv (k : pykind) (n : Z) (d : positive) : pyv := mk_py k (Qmake n d).
Definition qn (n : Z) (d : positive) (m : nat) : Q * nat := (Qmake n d, m).
