(* Model of the main loop of ExecutionOrchestrator.compute / compute_stream (mloda/core/runtime/run.py) together with
   the three execution back ends at event level (compute_framework_executor.py: sync_execute_step runs the step inline,
   thread_execute_step / multi_execute_step hand it to a worker that later reports done or sets the error flag).

   Mirrors, in the order of the source:
     while to_finish_ids != finished_ids or len(finished_ids) == 0:          -> loop_head
         error = cfw_register.get_error(); if error: raise                   -> loop_head = Raised
         for step in execution_planner:                                      -> scan = fold_left visit
             to_finish_ids.update(step.get_uuids())
             if _is_step_done(step.get_uuids(), finished_ids): continue
             if currently_running_step(...):                                 -> next(iter(uuids)) in running
                 if _process_step_result(step): _mark_step_as_finished(...)
                 continue
             if not _can_run_step(required, uuids, finished, running): continue
             _execute_step(step)
         [compute_stream only]  yield from pop_result_data_collection()      -> drain
   Definitions only; proofs are in Proofs/OrchP.v. *)
From Coq Require Import List Bool Arith.
Import ListNotations.

Inductive kind := KFG | KTFS | KJOIN.

Record step := {
  sid : nat;                 (* step.uuid (renamed) *)
  skind : kind;
  uuids : list nat;          (* step.get_uuids(): feature uuids of a FG step, {uuid} of a TFS, {uuid, link.uuid} of a join *)
  req : list nat;            (* step.required_uuids *)
  requested : bool           (* FG step holds an initially requested feature: its result is collected *)
}.
Definition plan := list step.

Record ost := {
  finished : list nat;
  running  : list nat;
  started  : list (nat * (list nat * list nat));   (* history: (sid, (finished, done) at start), newest first *)
  done     : list nat;                (* sids whose execution completed (step_is_done / result queue) *)
  failed   : list nat;                (* sids whose execution raised: error flag set, newest first *)
  results  : list nat;                (* result_data_collection (keys) *)
  yielded  : list nat;                (* compute_stream: already yielded to the consumer *)
  scans    : nat
}.

Definition init : ost :=
  {| finished := []; running := []; started := []; done := []; failed := []; results := []; yielded := []; scans := 0 |}.

Definition mem (x : nat) (l : list nat) : bool := existsb (Nat.eqb x) l.
Definition subset (a b : list nat) : bool := forallb (fun x => mem x b) a.
Definition disjoint (a b : list nat) : bool := forallb (fun x => negb (mem x b)) a.
Definition remove_all (a l : list nat) : list nat := filter (fun x => negb (mem x a)) l.

(* currently_running_step: next(iter(step_uuids)) in currently_running_steps.  The representative is the head of
   the list; Proofs/OrchP.v shows the choice is irrelevant (a step's uuids enter and leave `running` together). *)
Definition cur_running (s : step) (st : ost) : bool :=
  match uuids s with [] => false | u :: _ => mem u (running st) end.

Definition collects (s : step) : bool :=
  match skind s with KFG => requested s | _ => false end.

(* body of the for loop.  inline = SYNC back end (the step runs to completion inside _execute_step);
   fails sid = the step's execution raises (oracle: calculation, validation, transform, merge, api data ...). *)
Definition visit (inline : bool) (fails : nat -> bool) (st : ost) (s : step) : ost :=
  if subset (uuids s) (finished st) then st
  else if cur_running s st then
    if mem (sid s) (done st) then
      {| finished := uuids s ++ finished st; running := remove_all (uuids s) (running st); started := started st;
         done := done st; failed := failed st;
         results := if collects s then sid s :: results st else results st;
         yielded := yielded st; scans := scans st |}
    else st
  else if subset (req s) (finished st) && disjoint (uuids s) (running st) then
    let d := if inline then (if fails (sid s) then done st else sid s :: done st) else done st in
    let f := if inline then (if fails (sid s) then sid s :: failed st else failed st) else failed st in
    {| finished := finished st; running := uuids s ++ running st; started := (sid s, (finished st, done st)) :: started st;
       done := d; failed := f; results := results st; yielded := yielded st; scans := scans st |}
  else st.

Definition all_uuids (p : plan) : list nat := flat_map uuids p.

Inductive status := Looping | ExitNormal | Raised.

Definition loop_head (p : plan) (st : ost) : status :=
  match failed st with
  | _ :: _ => Raised
  | [] => match finished st with
          | [] => Looping
          | _ :: _ => if subset (all_uuids p) (finished st) then ExitNormal else Looping
          end
  end.

Definition bump (st : ost) : ost :=
  {| finished := finished st; running := running st; started := started st; done := done st; failed := failed st;
     results := results st; yielded := yielded st; scans := S (scans st) |}.

Definition drain (st : ost) : ost :=
  {| finished := finished st; running := running st; started := started st; done := done st; failed := failed st;
     results := []; yielded := results st ++ yielded st; scans := scans st |}.

(* one iteration of the while loop (head test + for loop [+ yield]) *)
Definition scan (stream inline : bool) (fails : nat -> bool) (p : plan) (st : ost) : ost :=
  match loop_head p st with
  | Looping => let st' := bump (fold_left (visit inline fails) p st) in if stream then drain st' else st'
  | _ => st
  end.

Inductive event :=
  | EScan                               (* the main thread performs one loop iteration *)
  | EDone (s : nat) (ok : bool).        (* a worker thread / process finishes step s (ok) or raises (not ok) *)

Definition started_ids (st : ost) : list nat := map fst (started st).

Definition worker_done (st : ost) (s : nat) (ok : bool) : ost :=
  if mem s (started_ids st) && negb (mem s (done st)) && negb (mem s (failed st)) then
    {| finished := finished st; running := running st; started := started st;
       done := if ok then s :: done st else done st;
       failed := if ok then failed st else s :: failed st;
       results := results st; yielded := yielded st; scans := scans st |}
  else st.

Definition apply (stream inline : bool) (fails : nat -> bool) (p : plan) (st : ost) (e : event) : ost :=
  match e with
  | EScan => scan stream inline fails p st
  | EDone s ok => if inline then st else worker_done st s ok
  end.

Definition run (stream inline : bool) (fails : nat -> bool) (p : plan) (es : list event) : ost :=
  fold_left (apply stream inline fails p) es init.

(* ------------------------------------------------------------------------------------------------------------
   Well-formedness of a plan (checked on every plan exported from the real planner, T3):
     - every step has at least one uuid, step ids and produced uuids are pairwise distinct,
     - every required uuid is produced by some step of the plan,
     - the wait-for relation is acyclic: `rank` (given as a list of sids in a topological order) witnesses it. *)
Fixpoint nodupb (l : list nat) : bool :=
  match l with [] => true | x :: t => negb (mem x t) && nodupb t end.

Definition produced (p : plan) (u : nat) : bool := mem u (all_uuids p).

Definition find_producer (p : plan) (u : nat) : option step :=
  find (fun s => mem u (uuids s)) p.

Fixpoint pos (x : nat) (l : list nat) : option nat :=
  match l with [] => None | y :: t => if Nat.eqb x y then Some 0 else option_map S (pos x t) end.

(* order : list of sids; s may wait only for steps that come earlier in `order` *)
Definition respects_order (order : list nat) (p : plan) : bool :=
  forallb (fun s =>
    match pos (sid s) order with
    | None => false
    | Some i => forallb (fun u => match find_producer p u with
                                  | None => false
                                  | Some s' => match pos (sid s') order with Some j => Nat.ltb j i | None => false end
                                  end) (req s)
    end) p.

Definition wf_plan (order : list nat) (p : plan) : bool :=
  forallb (fun s => match uuids s with [] => false | _ => true end) p
  && nodupb (map sid p) && nodupb (all_uuids p)
  && forallb (fun s => forallb (produced p) (req s)) p
  && respects_order order p.

(* a canonical order is computed by repeatedly taking the steps whose requirements are produced by earlier ones *)
Fixpoint topo (fuel : nat) (p : plan) (placed : list nat) (placed_u : list nat) : list nat :=
  match fuel with
  | 0 => placed
  | S f =>
    let ready := filter (fun s => negb (mem (sid s) placed) && subset (req s) placed_u) p in
    match ready with
    | [] => placed
    | _ => topo f p (placed ++ map sid ready) (placed_u ++ flat_map uuids ready)
    end
  end.
Definition topo_order (p : plan) : list nat := topo (S (length p)) p [] [].
Definition wf_plan_auto (p : plan) : bool := wf_plan (topo_order p) p.
