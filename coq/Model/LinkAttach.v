(* Model of the way links reach the planner and of the two places where a contradictory link set is refused (C18).

   Sources (mloda/core):
     core/engine.py
       Engine.__init__                 : LinkValidator.validate_links(links)  -- only the links of the API argument `links=`;
                                         self.links = set(links)
       Engine.add_feature_to_collection / add_feature_link_to_links
                                       : every feature that is added to the collection (requested features and, recursively,
                                         the input features of their feature groups) puts its `link` into self.links
                                         (a Python set; Link.__eq__/__hash__ by value)            -> add_link, eff_links
     prepare/resolve_links.py
       ResolveLinks.go_through_each_child_and_its_parents_and_look_for_links
                                       : for every child, every ordered pair of distinct parents (parent_in, parent_out):
                                         _find_matching_links(class of parent_in, class of parent_out); every matched link
                                         becomes a key (link, left cfw, right cfw) of link_trekker.data
                                                                               -> ordered_pairs, used_links_child, used_links
       ResolveLinks.resolve_links      : ... ; ResolveLinkValidator.validate_no_conflicting_join_types(link_trekker.data)
     prepare/validators/resolve_link_validator.py
       ResolveLinkValidator.validate_no_conflicting_join_types
                                       : seen_pairs : dict (left_fg, right_fg) -> first join type seen; raises when a later
                                         key of the same ordered pair has another join type        -> backstop_loop, backstop

   What is a parameter: the iteration order of the Python sets / dicts involved.  `backstop` takes the keys in the order the
   dict yields them; Proofs/LinkAttachP.v shows that its verdict depends on the SET of links only, so neither the iteration
   order of self.links, nor that of the parents, nor duplicated keys (one link under two framework pairs) matter.
   Definitions only. *)
From Coq Require Import List Bool ZArith String Arith.
Import ListNotations.
Require Import MV.Model.LinkSel.

(* ---------- links that reach the planner ---------- *)
(* self.links.add(feature.link): nothing happens when an equal link is already present *)
Definition add_link (eff : list link) (l : link) : list link :=
  if existsb (link_eqb l) eff then eff else eff ++ [l].

(* self.links after planning: set(links) of the API argument, then the links attached to the features of the request *)
Definition eff_links (globals attached : list link) : list link := fold_left add_link (globals ++ attached) [].

(* ---------- links that reach link_trekker.data ---------- *)
(* every element together with the others (positions, not values: two parents may have the same class) *)
Fixpoint picks {A : Type} (pre l : list A) : list (A * list A) :=
  match l with
  | [] => []
  | x :: t => (x, rev pre ++ t) :: picks (x :: pre) t
  end.

(* for parent_in in parents: for parent_out in parents: if parent_in == parent_out: continue *)
Definition ordered_pairs (parents : list cls) : list (cls * cls) :=
  flat_map (fun p => map (pair (fst p)) (snd p)) (picks [] parents).

Section Used.
  Variable mro : cls -> list cls.
  (* the links matched for ONE child whose (transitive) parents have the classes `parents` *)
  Definition used_links_child (eff : list link) (parents : list cls) : list link :=
    flat_map (fun ab => find_matching mro eff (fst ab) (snd ab)) (ordered_pairs parents).
  (* for child, parents in graph.parent_to_children_mapping.items(): a request is given by the parent classes of each of
     its children (features that have input features) *)
  Definition used_links (eff : list link) (req : list (list cls)) : list link :=
    flat_map (used_links_child eff) req.
End Used.

(* ---------- the resolve-time back-stop (true = raises "Conflicting join types ...") ---------- *)
Fixpoint seen_get (l r : cls) (seen : list ((cls * cls) * jointype)) : option jointype :=
  match seen with
  | [] => None
  | ((l', r'), j) :: t => if Nat.eqb l' l && Nat.eqb r' r then Some j else seen_get l r t
  end.

Fixpoint backstop_loop (seen : list ((cls * cls) * jointype)) (keys : list link) : bool :=
  match keys with
  | [] => false
  | k :: t =>
      match seen_get (lfg k) (rfg k) seen with
      | Some j => if jt_eqb j (jt k) then backstop_loop seen t else true       (* seen_pairs[pair_key] != jointype: raise *)
      | None => backstop_loop (((lfg k, rfg k), jt k) :: seen) t               (* seen_pairs[pair_key] = jointype *)
      end
  end.

Definition backstop (keys : list link) : bool := backstop_loop [] keys.

(* ---------- prepare: where a link set is refused ---------- *)
Inductive verdict := RejValidator | RejBackstop | Passed.
Definition verdict_eqb (a b : verdict) : bool :=
  match a, b with RejValidator, RejValidator | RejBackstop, RejBackstop | Passed, Passed => true | _, _ => false end.

(* `keys` = the links of link_trekker.data in the order the dict yields them *)
Definition verdict_of (globals keys : list link) : verdict :=
  if validate_rejects globals then RejValidator else if backstop keys then RejBackstop else Passed.

Definition link_verdict (mro : cls -> list cls) (globals attached : list link) (req : list (list cls)) : verdict :=
  verdict_of globals (used_links mro (eff_links globals attached) req).

Definition rejected (v : verdict) : bool := negb (verdict_eqb v Passed).

(* ---------- known-finding domain (C18-attached-links-unvalidated) ----------
   the whole link set (API argument + attached) is contradictory by the three documented rules, its API part alone is
   consistent, and no two links that are used for a join of the request have the same ordered pair with different types *)
Definition kf_attached (mro : cls -> list cls) (globals attached : list link) (req : list (list cls)) : bool :=
  validate_rejects (globals ++ attached) && negb (validate_rejects globals)
  && negb (any_pair conflicting_jt (used_links mro (eff_links globals attached) req)).
