(* Faithful model of the hand-written Python GLUE of
   mloda_plugins/feature_group/experimental/data_quality/missing_value/pyarrow.py (PyArrowMissingValueFeatureGroup),
   single source column.  Definitions only.  Library KERNELS of pyarrow are fields of the record `pa_kernels`; what is
   assumed about each of them is one field of `pa_contracts` (below) -- these contracts are part of the TRUSTED BASE and
   are TESTED on every run by harness/c19.py (family `kernel:*`: the real kernel on generated columns vs the contract
   evaluated in Coq; and, through the glue, by the family `imp:pa` of the model tie).

     definition                     source lines (missing_value/pyarrow.py)
     -----------------------------  -----------------------------------------------------------------------------------
     pa_perform                     _perform_imputation 75-130: the early return (81), the dispatch on
                                    `group_by_features` (85), the six plain methods
     pa_early_return                81 `source_column.null_count == 0` (since /repo 505d3c3): the column holds no
                                    missing value -> it is returned as it is (type included)
     pa_early_return_old,           the line BEFORE 505d3c3, `pc.count(pc.is_null(source_column)).as_py() == 0`: pc.is_null
     pa_perform_old                 yields a Boolean array WITHOUT nulls and pc.count counts the non-null entries, so the
                                    test compared the LENGTH of the column with 0.  NOT the code any more: kept only as the
                                    regression witness of the repaired finding C19-pyarrow-early-return-never-fires
                                    (C19fw_pa_early_return_old_only_on_empty, C19fw_pa_string_stat_old_refuted)
     pa_plain                       91-130
     pa_mode                        103-120, 209-223, 265-279: value_counts of the non-null cells, pc.max of the counts,
                                    Python loop collecting the indices whose count is maximal, first index
     pa_fill_null_w                 _fill_null 163-170: widening of an integer column before pc.fill_null
     pa_overall                     202-223 (fall-back value; pc.mean / pc.quantile raise on a string column)
     pa_group_key, pa_mask1,        239-252: key tuple of row i, one mask per group-by column (pc.is_null for a null key
     pa_group_mask                  cell, else fill_null(equal(col, scalar), False)), conjunction with pc.and_
     pa_group_value                 255-292: pc.filter, the statistic of the group, and for ffill / bfill the row numbers
                                    of the valid rows of the group (pc.indices_nonzero), the last one before / first
                                    one after row i
     pa_grouped_loop                229-298: `for i in range(data.num_rows)`: a non-null cell is kept, else group value,
                                    else overall value; `results.append` only (no other state between iterations)
     pa_grouped                     195-301
     py_impute_ffill / _bfill       _perform_fill_direction 316-336 is, statement by statement, the loop of
       (Model/MissingValuePyDict)   python_dict.py: the same definitions are used
     pa_transpose / rows_of         conversion between row keys (spec) and group-by columns (table)

   ELEMENT-WISE kernels modelled by their definition (no contract variable): pc.is_null, pc.is_valid,
   pc.equal + pc.fill_null(.., False) on a key column, pc.and_, `column[i].as_py()`, `len`, `ChunkedArray.null_count`
   (the number of null cells: `null_count`).

   KERNEL CONTRACTS (record pa_contracts; exact arithmetic: a double is the rational it denotes, rounding is NOT modelled;
   int64 -> double is exact on the modelled domain):
     c_mean          pc.mean(col).as_py()            = mean of the non-null cells, None without one
     c_quantile50    pc.quantile(col, q=0.5)[0]      = median (linear interpolation), None without a non-null cell
     c_drop_null     pc.drop_null(col)               = the non-null cells in row order
     c_value_counts  pc.value_counts(values)         = the distinct values IN FIRST-OCCURRENCE ORDER with their counts
                                                       (executable reference: `counter`; its meaning: Proofs/ImputeP
                                                       counter_inv + find_keys)
     c_max           pc.max(counts).as_py()          = the largest count
     c_fill_null_none   pc.fill_null(col, None)      = col
     c_fill_null     pc.fill_null(col, v)            = every null replaced by v, type unchanged -- ONLY when v is
                                                       representable in the column type (`fits`); nothing is assumed
                                                       otherwise (the real kernel truncates 2.5 to 2 in an int64 column)
     c_cast_f64      pc.cast(int column, float64)    = same cells, type double
     c_filter        pc.filter(col, mask)            = the cells whose mask entry is true, in row order
     c_indices_nonzero  pc.indices_nonzero(mask)     = the positions of the true entries, ascending
     c_array         pa.array(python list)           = the same cells (the inferred type is not used)
   LIBRARY FACT modelled directly: pc.mean / pc.quantile have no kernel for a string column (they raise): `numeric`. *)
From Coq Require Import QArith List Bool Arith ZArith.
Import ListNotations.
Require Import MV.Spec.Builtins MV.Model.MissingValuePyDict.
Open Scope Q_scope.

(* ---- typed columns and Python scalars ---- *)
Inductive dtype := TInt | TFloat | TStr.
Record arr := mk_arr { a_ty : dtype; a_cells : col }.
(* a Python value handed to / returned by a kernel: int, float or str (strings are order-preserving integers, as in Spec) *)
Inductive pykind := KInt | KFloat | KStr.
Record pyv := mk_py { py_kind : pykind; py_q : Q }.

Definition q_is_integer (x : Q) : bool := Z.eqb (Z.modulo (Qnum x) (Zpos (Qden x))) 0.
Definition numeric (t : dtype) : bool := match t with TStr => false | _ => true end.
Definition is_int_ty (t : dtype) : bool := match t with TInt => true | _ => false end.
Definition kind_of (t : dtype) : pykind := match t with TInt => KInt | TFloat => KFloat | TStr => KStr end.
(* `cell.as_py()` of a column of type t *)
Definition to_py (t : dtype) (x : Q) : pyv := mk_py (kind_of t) x.
Definition ofloat (x : option Q) : option pyv := option_map (mk_py KFloat) x.

(* v can be stored in a column of type t without loss *)
Definition fits (t : dtype) (v : pyv) : bool :=
  match t, py_kind v with
  | TInt, KInt | TInt, KFloat => q_is_integer (py_q v)
  | TFloat, KInt | TFloat, KFloat => true
  | TStr, KStr => true
  | _, _ => false
  end.
(* an int64 column holds integers *)
Definition wt_arr (a : arr) : Prop := a_ty a = TInt -> forall x, In (Some x) (a_cells a) -> q_is_integer x = true.
(* the `constant_value` option is a value of the kind of the column (numbers for numeric columns; a Python int is integral) *)
Definition const_ok (t : dtype) (v : pyv) : bool :=
  match t, py_kind v with
  | TInt, KInt | TFloat, KInt => q_is_integer (py_q v)
  | TInt, KFloat | TFloat, KFloat => true
  | TStr, KStr => true
  | _, _ => false
  end.

(* ---- kernels ---- *)
Record pa_kernels := {
  pc_mean : col -> option Q;
  pc_quantile50 : col -> option Q;
  pc_drop_null : col -> list Q;
  pc_value_counts : list Q -> list (Q * nat);
  pc_max : list nat -> nat;
  pc_fill_null : arr -> option pyv -> arr;
  pc_cast_f64 : arr -> arr;
  pc_filter : col -> list bool -> col;
  pc_indices_nonzero : list bool -> list nat;
  pa_array : list cell -> arr
}.

Definition filter_mask (c : col) (mask : list bool) : col := map fst (filter snd (combine c mask)).
Definition nonzero (mask : list bool) : list nat :=
  map fst (filter snd (combine (seq 0 (List.length mask)) mask)).

Record pa_contracts (K : pa_kernels) : Prop := {
  c_mean : forall c, pc_mean K c = mean_l (vals c);
  c_quantile50 : forall c, pc_quantile50 K c = median_l (vals c);
  c_drop_null : forall c, pc_drop_null K c = vals c;
  c_value_counts : forall l, pc_value_counts K l = counter l;
  c_max : forall l, pc_max K l = list_max l;
  c_fill_null_none : forall a, pc_fill_null K a None = a;
  c_fill_null : forall a v, fits (a_ty a) v = true ->
                pc_fill_null K a (Some v) = mk_arr (a_ty a) (fill_with (Some (py_q v)) (a_cells a));
  c_cast_f64 : forall a, a_ty a = TInt -> pc_cast_f64 K a = mk_arr TFloat (a_cells a);
  c_filter : forall c mask, List.length mask = List.length c -> pc_filter K c mask = filter_mask c mask;
  c_indices_nonzero : forall mask, pc_indices_nonzero K mask = nonzero mask;
  c_array : forall l, a_cells (pa_array K l) = l
}.

Section Glue.
Variable K : pa_kernels.

(* ---- mode (three copies of the same text in the source) ---- *)
Definition pa_mode (c : col) : option Q :=
  let value_counts := pc_value_counts K (pc_drop_null K c) in
  match value_counts with
  | [] => None                                                       (* len(value_counts) > 0 *)
  | _ => let counts := map snd value_counts in
         let max_count := pc_max K counts in
         let max_indices := filter (fun i => Nat.eqb (nth i counts 0%nat) max_count) (seq 0 (List.length counts)) in
         match max_indices with
         | [] => None
         | i :: _ => Some (nth i (map fst value_counts) 0)           (* value_counts.field("values")[max_indices[0]] *)
         end
  end.

(* ---- _fill_null ---- *)
Definition is_fractional_float (v : option pyv) : bool :=
  match v with
  | Some p => match py_kind p with KFloat => negb (q_is_integer (py_q p)) | _ => false end
  | None => false
  end.
Definition pa_fill_null_w (a : arr) (v : option pyv) : arr :=
  let a' := if is_fractional_float v && is_int_ty (a_ty a) then pc_cast_f64 K a else a in
  pc_fill_null K a' v.

(* ---- plain imputation; None = the call raises ---- *)
Definition pa_plain (m : imethod) (ck : pykind) (a : arr) : option arr :=
  let c := a_cells a in
  match m with
  | IMean => if numeric (a_ty a) then Some (pa_fill_null_w a (ofloat (pc_mean K c))) else None
  | IMedian => if numeric (a_ty a) then Some (pa_fill_null_w a (ofloat (pc_quantile50 K c))) else None
  | IMode => match pa_mode c with
             | Some v => Some (pc_fill_null K a (Some (to_py (a_ty a) v)))
             | None => Some a
             end
  | IConst k => Some (pa_fill_null_w a (Some (mk_py ck k)))
  | IFfill => Some (pa_array K (py_impute_ffill c))
  | IBfill => Some (pa_array K (py_impute_bfill c))
  end.

(* ---- grouped imputation ---- *)
Definition is_none {A} (x : option A) : bool := match x with None => true | Some _ => false end.
Definition is_some {A} (x : option A) : bool := match x with None => false | Some _ => true end.

Definition pa_group_key (gcols : list (list (option Z))) (i : nat) : key := map (fun gc => nth i gc None) gcols.
Definition pa_mask1 (kj : option Z) (gc : list (option Z)) : list bool :=
  match kj with
  | None => map is_none gc                                                           (* pc.is_null *)
  | Some z => map (fun x => match x with Some y => Z.eqb y z | None => false end) gc (* fill_null(equal(..), False) *)
  end.
Definition and_mask (a b : list bool) : list bool := map (fun p => andb (fst p) (snd p)) (combine a b).
Definition pa_group_mask (gcols : list (list (option Z))) (gk : key) : list bool :=
  match map (fun p => pa_mask1 (fst p) (snd p)) (combine gk gcols) with
  | [] => []                                                          (* group_masks[0]: unreachable, see pa_perform *)
  | m0 :: ms => fold_left and_mask ms m0
  end.

Definition pa_group_value (m : imethod) (src : col) (gcols : list (list (option Z))) (i : nat) : option Q :=
  let group_mask := pa_group_mask gcols (pa_group_key gcols i) in
  let group_data := pc_filter K src group_mask in
  match m with
  | IMean => pc_mean K group_data
  | IMedian => pc_quantile50 K group_data
  | IMode => pa_mode group_data
  | IFfill => let group_rows := pc_indices_nonzero K (and_mask group_mask (map is_some src)) in
              match filter (fun row => row <? i)%nat group_rows with
              | [] => None
              | rows_before => nth (last rows_before 0%nat) src None
              end
  | IBfill => let group_rows := pc_indices_nonzero K (and_mask group_mask (map is_some src)) in
              match filter (fun row => i <? row)%nat group_rows with
              | [] => None
              | r :: _ => nth r src None
              end
  | IConst _ => None
  end.

Definition pa_grouped_loop (m : imethod) (src : col) (gcols : list (list (option Z))) (overall_value : option Q)
  : list cell :=
  map (fun i => match nth i src None with
                | Some v => Some v
                | None => match pa_group_value m src gcols i with
                          | None => overall_value
                          | Some g => Some g
                          end
                end) (seq 0 (List.length src)).

(* outer None = raises *)
Definition pa_overall (m : imethod) (a : arr) : option (option Q) :=
  match m with
  | IMean => if numeric (a_ty a) then Some (pc_mean K (a_cells a)) else None
  | IMedian => if numeric (a_ty a) then Some (pc_quantile50 K (a_cells a)) else None
  | IMode => Some (pa_mode (a_cells a))
  | _ => Some None
  end.

Definition pa_grouped (m : imethod) (ck : pykind) (gcols : list (list (option Z))) (a : arr) : option arr :=
  match m with
  | IConst k => Some (pa_fill_null_w a (Some (mk_py ck k)))
  | _ => match pa_overall m a with
         | None => None
         | Some ov => Some (pa_array K (pa_grouped_loop m (a_cells a) gcols ov))
         end
  end.

(* source_column.null_count == 0 *)
Definition null_count (c : col) : nat := List.length (filter (@is_none Q) c).
Definition pa_early_return (c : col) : bool := Nat.eqb (null_count c) 0.

(* lines 81-130 with the test of line 81 as a parameter (the rest of the text is the same before and after 505d3c3) *)
Definition pa_perform_with (early_return : col -> bool) (m : imethod) (ck : pykind)
  (group_by : option (list (list (option Z)))) (a : arr) : option arr :=
  if early_return (a_cells a) then Some a
  else match group_by with
       | Some (g :: gs) => pa_grouped m ck (g :: gs) a              (* `if group_by_features:` a non-empty list *)
       | _ => pa_plain m ck a
       end.
Definition pa_perform := pa_perform_with pa_early_return.

(* BEFORE 505d3c3 (regression witness only, see the header): pc.count(pc.is_null(col)).as_py() == 0 *)
Definition pa_early_return_old (c : col) : bool := Nat.eqb (List.length (map (@is_none Q) c)) 0.
Definition pa_perform_old := pa_perform_with pa_early_return_old.
End Glue.

(* ---- row keys <-> group-by columns ---- *)
Definition rows_of (gcols : list (list (option Z))) (n : nat) : list key := map (pa_group_key gcols) (seq 0 n).
Definition pa_transpose (keys : list key) : list (list (option Z)) :=
  map (fun j => map (fun k => nth j k None) keys) (seq 0 (List.length (hd [] keys))).

(* ---- executable reference kernels (satisfy the contracts: Proofs/MissingValueArrowP.ref_contracts); used by the tie.
   Outside `fits` the reference does what the installed pyarrow does (truncation toward zero into an int64 column). *)
Definition q_trunc (x : Q) : Q := inject_Z (Z.quot (Qnum x) (Zpos (Qden x))).
Definition ref_fill_null (a : arr) (v : option pyv) : arr :=
  match v with
  | None => a
  | Some p => if fits (a_ty a) p then mk_arr (a_ty a) (fill_with (Some (py_q p)) (a_cells a))
              else match a_ty a with
                   | TInt => mk_arr TInt (fill_with (Some (q_trunc (py_q p))) (a_cells a))
                   | _ => a
                   end
  end.
Definition ref_kernels : pa_kernels := {|
  pc_mean := fun c => mean_l (vals c);
  pc_quantile50 := fun c => median_l (vals c);
  pc_drop_null := vals;
  pc_value_counts := counter;
  pc_max := list_max;
  pc_fill_null := ref_fill_null;
  pc_cast_f64 := fun a => mk_arr TFloat (a_cells a);
  pc_filter := filter_mask;
  pc_indices_nonzero := nonzero;
  pa_array := fun l => mk_arr TFloat l
|}.

(* The domain in which the model (and the code) does not return the value of the (untyped) spec: mean / median of a STRING
   column that HOLDS A NULL -- pc.mean / pc.quantile have no kernel for strings, the call raises.  (Until 505d3c3 the
   domain was every string column, null or not: finding C19-pyarrow-early-return-never-fires, repaired.)  What is left is
   the boundary of the spec rather than a defect of this file: Spec/Builtins.v is untyped (a string is an order-preserving
   integer), the "mean of the strings" it denotes is computed by no framework.  The part of it in which the real
   frameworks differ from EACH OTHER is the open finding C19-string-stat-with-null-pydict-computes. *)
Definition is_stat (m : imethod) : bool := match m with IMean | IMedian => true | _ => false end.
Definition string_stat (m : imethod) (t : dtype) : bool := negb (numeric t) && is_stat m.
Definition kf_pa_string_stat (m : imethod) (a : arr) : bool := string_stat m (a_ty a) && has_null (a_cells a).
