(* Model of the PythonDict filter engine and of the engine-independent dispatch (C11).  Definitions only.

   Sources mirrored, statement by statement:
     mloda_plugins/compute_framework/base_implementations/python_dict/python_dict_filter_engine.py
        do_range_filter, do_min_filter, do_max_filter, do_equal_filter, do_regex_filter,
        do_categorical_inclusion_filter                                     -> do_range ... do_in
     mloda/core/filter/filter_engine.py
        BaseFilterEngine.do_filter (string dispatch, do_custom_filter raises NotImplementedError)   -> do_filter
        BaseFilterEngine.apply_single_filters (features.filters is None / name not in get_all_names) -> apply_single_filters
        get_min_max_operator, filter_parameter.py accessors (a missing key and the value None are both None) -> given
     mloda/core/abstract_plugins/compute_framework.py run_final_filter: all three shipped engines return
        final_filters() = True, so the result of calculate_feature goes through apply_filters = apply_single_filters.

   Faithful to the code, including what is not in the property:
     * a list comprehension raises at the first row whose comparison raises: comparing a number with a string is
       TypeError (filter_res keeps the first error in row order); `lo <= x < hi` short-circuits;
     * parameter validation happens before any row is looked at (ValueError even on an empty table);
     * `features.filters` is a Python set: the order in which filters are applied is the list order given here, a
       parameter the theorems quantify over;
     * `max_exclusive is True`: only the literal True makes the bound exclusive (p_excl);
     * regex: re.compile(value) on a non-string is TypeError; patterns outside the family of Spec/Filter.v and the
       text of a float are NOT modelled: the model answers Err Unmodelled there and no theorem speaks about it;
     * categorical: `set(values)` for list/tuple values (a scalar `values` is not modelled: p_values is a list). *)
From Coq Require Import List String ZArith Bool.
Import ListNotations.
Require Import MV.Spec.Filter.
Open Scope Z_scope.

Inductive err := ValueError | TypeError | NotImplementedError | Unmodelled.
Inductive res (A : Type) := Ok (a : A) | Err (e : err).
Arguments Ok {A} a.
Arguments Err {A} e.

Definition err_eqb (a b : err) : bool :=
  match a, b with
  | ValueError, ValueError | TypeError, TypeError | NotImplementedError, NotImplementedError
  | Unmodelled, Unmodelled => true
  | _, _ => false
  end.

(* Python rich comparison of two objects; no order between a number and a string or with None *)
Definition py_le (a b : value) : res bool :=
  match vcmp a b with Some Lt | Some Eq => Ok true | Some Gt => Ok false | None => Err TypeError end.
Definition py_lt (a b : value) : res bool :=
  match vcmp a b with Some Lt => Ok true | Some _ => Ok false | None => Err TypeError end.

(* [row for row in data if cond(row)] where cond may raise *)
Fixpoint filter_res (p : row -> res bool) (t : table) : res table :=
  match t with
  | [] => Ok []
  | r :: t' => match p r with
               | Err e => Err e
               | Ok b => match filter_res p t' with
                         | Err e => Err e
                         | Ok l => Ok (if b then r :: l else l)
                         end
               end
  end.

Definition is_null (v : value) : bool := match v with VNull => true | _ => false end.

(* row.get(col) is not None and <order test> *)
Definition not_none_and (col : string) (test : value -> res bool) (r : row) : res bool :=
  let x := get r col in if is_null x then Ok false else test x.

Definition do_range (t : table) (f : filt) : res table :=
  let p := f_par f in
  match given (p_min p), given (p_max p) with
  | Some lo, Some hi =>
      filter_res (not_none_and (f_col f) (fun x =>
        match py_le lo x with
        | Err e => Err e
        | Ok false => Ok false
        | Ok true => if p_excl p then py_lt x hi else py_le x hi
        end)) t
  | _, _ => Err ValueError
  end.

Definition do_min (t : table) (f : filt) : res table :=
  match given (p_value (f_par f)) with
  | None => Err ValueError
  | Some v => filter_res (not_none_and (f_col f) (fun x => py_le v x)) t       (* x >= value *)
  end.

Definition do_max (t : table) (f : filt) : res table :=
  let p := f_par f in
  match given (p_max p) with
  | Some hi =>                                                      (* has_max *)
      match given (p_min p) with
      | Some _ => Err ValueError
      | None => filter_res (not_none_and (f_col f) (fun x => if p_excl p then py_lt x hi else py_le x hi)) t
      end
  | None =>
      match given (p_value p) with
      | Some v => filter_res (not_none_and (f_col f) (fun x => py_le x v)) t     (* has_value *)
      | None => Err ValueError
      end
  end.

Definition do_equal (t : table) (f : filt) : res table :=
  match given (p_value (f_par f)) with
  | None => Err ValueError
  | Some v => filter_res (fun r => Ok (same (get r (f_col f)) v)) t
  end.

Definition do_regex (t : table) (f : filt) : res table :=
  match given (p_value (f_par f)) with
  | None => Err ValueError
  | Some (VStr s) =>
      match parse_pat s with
      | None => Err Unmodelled
      | Some p => filter_res (not_none_and (f_col f) (fun x =>
                    match text x with Some s' => Ok (matches p s') | None => Err Unmodelled end)) t
      end
  | Some _ => Err TypeError                                          (* re.compile(<number>) *)
  end.

Definition do_in (t : table) (f : filt) : res table :=
  match p_values (f_par f) with
  | None => Err ValueError
  | Some vs => filter_res (fun r => Ok (existsb (same (get r (f_col f))) vs)) t
  end.

Definition do_filter (t : table) (f : filt) : res table :=
  match f_type f with
  | FRange => do_range t f
  | FMin => do_min t f
  | FMax => do_max t f
  | FEqual => do_equal t f
  | FRegex => do_regex t f
  | FIn => do_in t f
  | FCustom => Err NotImplementedError
  end.

(* which do_* method do_filter calls (for the dispatch correspondence) *)
Inductive meth := MRange | MMin | MMax | MEqual | MRegex | MIn | MCustom.
Definition dispatch (ft : ftype) : meth :=
  match ft with
  | FRange => MRange | FMin => MMin | FMax => MMax | FEqual => MEqual | FRegex => MRegex | FIn => MIn
  | FCustom => MCustom
  end.

(* for single_filter in features.filters: if name not in features.get_all_names(): continue; data = do_filter(...) *)
Fixpoint apply_list (names : list string) (fs : list filt) (t : table) : res table :=
  match fs with
  | [] => Ok t
  | f :: fs' => if applicable names f
                then match do_filter t f with Err e => Err e | Ok t' => apply_list names fs' t' end
                else apply_list names fs' t
  end.

Definition apply_single_filters (names : list string) (filters : option (list filt)) (t : table) : res table :=
  match filters with None => Ok t | Some fs => apply_list names fs t end.
