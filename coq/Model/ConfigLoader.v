(* Model of the JSON feature configuration path (C16).  Definitions only.

   Sources (under /repo/mloda/core/api/feature_config):
     parser.py   parse_json                               -> parse_items (after json.loads: `to_pv`)
     models.py   FeatureConfig(item as keywords), __post_init__      -> mk_config
                 feature_config_schema()                   -> Spec/ConfigSchema.v (the published schema)
     loader.py   process_nested_features                   -> pnf / mkfeat
                 load_features_from_config                 -> load_item, load_pv, load

   The JSON text is abstracted to its tree (`json`); json.loads maps it to Python values (`to_pv`: arrays -> list,
   objects -> dict with unique keys in document order).  The result of loading is a list of Python values:
   PStr s for a plain string item, PFeat name group context for a Feature.                                        *)
From Coq Require Import List Bool Ascii String Arith ZArith.
Import ListNotations.
Require Import MV.Model.ChainParser.
Open Scope list_scope.

Inductive json :=
| JNull
| JBool (b : bool)
| JNum (z : Z)
| JStr (s : str)
| JArr (l : list json)
| JObj (kv : list (str * json)).

Fixpoint to_pv (j : json) : pv :=
  match j with
  | JNull => PNone
  | JBool b => PBool b
  | JNum z => PInt z
  | JStr s => PStr s
  | JArr l => PList (map to_pv l)
  | JObj kv => PDict (map (fun p => (fst p, to_pv (snd p))) kv)
  end.

Definition k_name : str := lit "name".
Definition k_options : str := lit "options".
Definition k_group_options : str := lit "group_options".
Definition k_context_options : str := lit "context_options".
Definition k_column_index : str := lit "column_index".
Definition config_keys : list str := [k_name; k_options; k_in_features; k_group_options; k_context_options; k_column_index].

(* d[k] = v on a dict *)
Fixpoint assoc_set (k : str) (v : pv) (d : list (str * pv)) : list (str * pv) :=
  match d with
  | [] => [(k, v)]
  | (k', x) :: t => if str_eqb k k' then (k, v) :: t else (k', x) :: assoc_set k v t
  end.

(* frozenset(v) for a truthy v *)
Definition frozen_of (v : pv) : res pv :=
  match v with
  | PList l => if forallb hashable l then Ok (PSet true (dedup l)) else Err EType
  | PStr s => Ok (PSet true (dedup (map (fun c => PStr [c]) s)))
  | PDict d => Ok (PSet true (map (fun p => PStr (fst p)) d))
  | PSet _ l => Ok (PSet true l)
  | _ => Err EType                                   (* int / bool / Feature: not iterable *)
  end.

(* ---------------------------------------------------------------------------------------------------------- *)
(* process_nested_features(options) and the construction of one nested Feature                                  *)
Fixpoint pnf (v : pv) : res (list (str * pv)) :=
  match v with
  | PDict d =>
      (fix entries (d : list (str * pv)) : res (list (str * pv)) :=
         match d with
         | [] => Ok []
         | (k, x) :: t =>
             let rx : res pv :=
               match x with
               | PDict _ =>
                   if str_eqb k k_in_features then mkfeat x
                   else match pnf x with Ok d' => Ok (PDict d') | Err e => Err e end
               | _ => Ok x
               end in
             match rx with
             | Err e => Err e
             | Ok x' => match entries t with Err e => Err e | Ok t' => Ok ((k, x') :: t') end
             end
         end) d
  | _ => Err EAttr                                    (* options.items() on a non-dict *)
  end
with mkfeat (v : pv) : res pv :=
  match v with
  | PDict vd =>
      let name := match assoc k_name vd with Some n => n | None => PNone end in
      if negb (truthy name) then Err EValue           (* Nested in_features must have a 'name' field *)
      else
        let nested : res (list (str * pv)) :=
          (fix find (m : list (str * pv)) : res (list (str * pv)) :=
             match m with
             | [] => Ok []                            (* value.get("options", {}) *)
             | (k', x') :: m' => if str_eqb k_options k' then pnf x' else find m'
             end) vd in
        match nested with
        | Err e => Err e
        | Ok opts =>
            let inf : res (option pv) :=
              (fix find (m : list (str * pv)) : res (option pv) :=
                 match m with
                 | [] => Ok None
                 | (k', x') :: m' =>
                     if str_eqb k_in_features k' then
                       if negb (truthy x') then Ok None
                       else match x' with
                            | PList l => match l with
                                         | [one] => Ok (Some one)
                                         | _ => Ok (Some x')
                                         end
                            | PDict _ => match mkfeat x' with Ok f => Ok (Some f) | Err e => Err e end
                            | _ => Ok (Some x')
                            end
                     else find m'
                 end) vd in
            match inf with
            | Err e => Err e
            | Ok None => Ok (PFeat name opts [])
            | Ok (Some i) => Ok (PFeat name (assoc_set k_in_features i opts) [])
            end
        end
  | _ => Err EOther
  end.

(* ---------------------------------------------------------------------------------------------------------- *)
(* FeatureConfig(item as keywords)                                                                                       *)
Record config := {
  c_name : pv; c_options : pv; c_in_features : pv; c_group : pv; c_context : pv; c_column : pv
}.

Definition get_or (k : str) (d : list (str * pv)) (dflt : pv) : pv :=
  match assoc k d with Some v => v | None => dflt end.

Definition mk_config (d : list (str * pv)) : res config :=
  if negb (forallb (fun p => existsb (str_eqb (fst p)) config_keys) d) then Err EType     (* unexpected keyword *)
  else match assoc k_name d with
       | None => Err EType                                                                (* missing 'name' *)
       | Some n =>
           let c := {| c_name := n; c_options := get_or k_options d (PDict []);
                       c_in_features := get_or k_in_features d PNone;
                       c_group := get_or k_group_options d PNone;
                       c_context := get_or k_context_options d PNone;
                       c_column := get_or k_column_index d PNone |} in
           if truthy (c_options c) && (truthy (c_group c) || truthy (c_context c)) then Err EValue
           else Ok c
       end.

Definition is_none (v : pv) : bool := match v with PNone => true | _ => false end.

Definition dup_key (a b : list (str * pv)) : bool := existsb (fun p => existsb (fun q => str_eqb (fst p) (fst q)) b) a.

(* Options(group=g, context=c) for already evaluated `g or {}` / context *)
Definition mk_options (g c : pv) : res (list (str * pv) * list (str * pv)) :=
  match g, c with
  | PDict gd, PDict cd => if dup_key gd cd then Err EValue else Ok (gd, cd)
  | _, _ => Err EAttr
  end.

Definition or_empty (v : pv) : pv := if truthy v then v else PDict [].

Definition feature_name (c : config) : res pv :=
  if is_none (c_column c) then Ok (c_name c)
  else match py_str (c_name c), py_str (c_column c) with
       | Some n, Some i => Ok (PStr (n ++ tilde :: i))
       | _, _ => Err EOther                      (* not modelled: repr of arrays / objects in an f-string *)
       end.

Definition load_config (c : config) : res pv :=
  match feature_name c with
  | Err e => Err e
  | Ok name =>
      if negb (is_none (c_group c)) || negb (is_none (c_context c)) then
        (* group/context branch: `options` is not consulted at all *)
        let ctx0 := or_empty (c_context c) in
        let ctx : res pv :=
          if truthy (c_in_features c) then
            match ctx0 with
            | PDict cd => match frozen_of (c_in_features c) with
                          | Ok fs => Ok (PDict (assoc_set k_in_features fs cd))
                          | Err e => Err e
                          end
            | _ => Err EType                     (* item assignment on a non-dict *)
            end
          else Ok ctx0 in
        match ctx with
        | Err e => Err e
        | Ok cx => match mk_options (or_empty (c_group c)) cx with
                   | Err e => Err e
                   | Ok (gd, cd) => Ok (PFeat name gd cd)
                   end
        end
      else if truthy (c_in_features c) then
        match pnf (c_options c) with
        | Err e => Err e
        | Ok gd => match frozen_of (c_in_features c) with
                   | Err e => Err e
                   | Ok fs => match mk_options (PDict gd) (PDict [(k_in_features, fs)]) with
                              | Err e => Err e
                              | Ok (g, cdict) => Ok (PFeat name g cdict)
                              end
                   end
        end
      else
        match pnf (c_options c) with
        | Err e => Err e
        | Ok gd => Ok (PFeat name gd [])
        end
  end.

Definition load_item (v : pv) : res pv :=
  match v with
  | PStr s => Ok (PStr s)
  | PDict d => match mk_config d with Err e => Err e | Ok c => load_config c end
  | _ => Err EValue                                (* Invalid configuration item *)
  end.

Fixpoint load_items (l : list pv) : res (list pv) :=
  match l with
  | [] => Ok []
  | x :: t =>
      match load_item x with
      | Err e => Err e
      | Ok f => match load_items t with Err e => Err e | Ok fs => Ok (f :: fs) end
      end
  end.

Definition load_pv (v : pv) : res (list pv) :=
  match v with
  | PList l => load_items l
  | _ => Err EValue                                (* Configuration must be a JSON array *)
  end.

(* load_features_from_config(json.dumps(j)) *)
Definition load (j : json) : res (list pv) := load_pv (to_pv j).
