(* The Options objects as the source translator (harness/py2coq.py, CLASSES) sees them: data model of the source-text tie for
   the option targets (trusted like Model/PySem.v and Model/PyObj.v).  Definitions only.

     Options                       Options.ostate: .group = og, .context = oc, .propagate_context_keys = opk
     a dictionary key              Options.pykey (None, bool, int, str - a str-Enum member such as DefaultOptionKeys.x is its
                                   str -, hashable opaque object); == is Options.key_eqb.  The annotation `str` of the key
                                   parameters is widened to this domain: nothing in the code checks it.
     a value annotated `Any`       Options.pyval; == is Options.py_eq, bool(v) is Options.truthy,
                                   `for k in v` / set.update(v) is any_iter_keys v (TypeError when v is not iterable or
                                   holds an unhashable element) *)
From Coq Require Import List Bool ZArith String.
Import ListNotations.
Require Import MV.Model.PySem MV.Model.Options.

Definition ost_set_group (s : ostate) (g : dict) : ostate := {| og := g; oc := oc s; opk := opk s |}.
Definition ost_set_context (s : ostate) (c : dict) : ostate := {| og := og s; oc := c; opk := opk s |}.

Definition any_iter_keys (v : pyval) : res (list pykey) :=
  match iter_keys v with Some l => Ok l | None => Raise TypeError end.

(* what an Options operation of the model did, in the shape of a translated function that mutates its first argument and may
   raise: (res unit) * the object left behind *)
Definition of_oerr (r : ostate * option oerr) : res unit * ostate :=
  match snd r with
  | None => (Ok tt, fst r)
  | Some EValue => (Raise ValueError, fst r)
  | Some EType => (Raise TypeError, fst r)
  end.
