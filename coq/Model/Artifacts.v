(* The artifact register of a run and the FIRST statement of the finally block of ExecutionOrchestrator.compute() /
   compute_stream():   self.data_lifecycle_manager.set_artifacts(self.cfw_register.get_artifacts())   (run.py:135 / 193)
   which is evaluated BEFORE self.join().  Model/Worker.v has that statement as the label `OArtifacts ok` with a FREE
   outcome `ok` (crash point CArtifacts when ok = false: join() is never reached).  Here the outcome is COMPUTED from the
   state of the register, by the code of the accessor as it is, and the protocol is run together with the register.

   Definition                  source mirrored
   ------------------------------------------------------------------------------------------------------------------
   areg                        CfwManager (cfw_manager.py:49-56): error, msg, artifact_to_save (a dict name -> artifact;
                               names = feature names (FeatureSet.add_artifact_name, feature_set.py:25-34), here nat ids)
   set_error                   cfw_manager.py:180-184 (overwrites msg; the artifact dict is untouched)
   set_artifact_to_save        cfw_manager.py:206-217: a name that is already present raises ValueError (None), else stored
   get_artifacts               cfw_manager.py:219-221: `return self.artifact_to_save` - a pure read, no test of any field
   set_artifacts / dlm         data_lifecycle_manager.py:159-166: `self.artifacts = artifacts` (pure store)
   finally_artifacts g r d     run.py:135 / 193 with accessor g: None = the statement raised (whatever g raised propagates out
                               of the finally block, nothing after it runs); Some d' = DataLifecycleManager.artifacts afterwards
   art (config)                sid -> the (name, artifact) the step saves: FeatureGroupStep.execute (feature_group_step.py:40-60)
                               = run_calculate_feature; save_artifact (72-87, validate 89-103); THEN upload_finished_data.
                               So a step that raises in the calculation saves nothing (WFail _ CCalc), a step whose UPLOAD
                               raises has already saved its artifact (WFail _ CUpload), a step that completes has saved it
                               (WDone).  THREADING: the same CfwManager object; MULTIPROCESSING: a manager proxy to the one
                               CfwManager object in the manager process (every call is atomic there)
   step_a                      Model/Worker.v `step` on the protocol state, the register updated by the worker labels, and
                               `OArtifacts ok` enabled ONLY with ok = (the accessor returned)

   get_artifacts_guarded       a family of accessors that raise on a decidable set of register states; the instance
   guard_failed_partial        `error and artifact_to_save` = "refuse to return partial artifacts of a failed run" is used by
                               the _refuted example (it is NOT the code of the unchanged tree)

   Not modelled: the multiple-artifact dict case of FeatureGroupStep.save_artifact (feature_group_step.py:80-83: one
   set_artifact_to_save per key - same register operation, several per step), a dead manager process (the proxy call then raises
   a connection error for every accessor), artifact LOADING (artifact_to_load: no register access). *)
From Coq Require Import List Bool Arith.
Import ListNotations.
Require Import MV.Model.Orch MV.Model.Worker.

Definition arts := list (nat * nat).                   (* artifact name -> artifact, in insertion order *)
Record areg := { a_error : bool; a_msg : nat; a_arts : arts }.
Definition areg0 : areg := {| a_error := false; a_msg := 0; a_arts := [] |}.

Definition set_error (r : areg) (m : nat) : areg := {| a_error := true; a_msg := m; a_arts := a_arts r |}.
Definition has_name (n : nat) (l : arts) : bool := existsb (fun kv => Nat.eqb (fst kv) n) l.
Definition set_artifact_to_save (r : areg) (n v : nat) : option areg :=
  if has_name n (a_arts r) then None else Some {| a_error := a_error r; a_msg := a_msg r; a_arts := a_arts r ++ [(n, v)] |}.

Definition getter := areg -> option arts.              (* None = the call raised *)
Definition get_artifacts : getter := fun r => Some (a_arts r).
Definition get_artifacts_guarded (guard : areg -> bool) : getter := fun r => if guard r then None else Some (a_arts r).
Definition guard_failed_partial (r : areg) : bool := a_error r && match a_arts r with [] => false | _ :: _ => true end.

Definition finally_artifacts (g : getter) (r : areg) (d : arts) : option arts := g r.

(* the register after a worker label (st = the protocol state BEFORE the label) *)
Definition save_opt (r : areg) (a : option (nat * nat)) : option areg :=
  match a with None => Some r | Some (n, v) => set_artifact_to_save r n v end.

Definition reg_step (art : nat -> option (nat * nat)) (st : pst) (r : areg) (l : label) : option areg :=
  match l with
  | WDone w => match phase (ws st w) with WRun s => save_opt r (art s) | _ => Some r end
  | WFail w CCalc => match phase (ws st w) with WRun s => Some (set_error r s) | _ => Some r end
  | WFail w CUpload =>
    match phase (ws st w) with
    | WRun s => match save_opt r (art s) with Some r' => Some (set_error r' s) | None => None end
    | _ => Some r
    end
  | _ => Some r
  end.

Record ast := { a_st : pst; a_reg : areg; a_dlm : arts }.
Definition ainit : ast := {| a_st := pinit; a_reg := areg0; a_dlm := [] |}.

Definition step_a (g : getter) (c : cfg) (art : nat -> option (nat * nat)) (s : ast) (l : label) : option ast :=
  match step c (a_st s) l with
  | None => None
  | Some st' =>
    match l with
    | OArtifacts ok =>
      match finally_artifacts g (a_reg s) (a_dlm s), ok with
      | Some d, true => Some {| a_st := st'; a_reg := a_reg s; a_dlm := d |}
      | None, false => Some {| a_st := st'; a_reg := a_reg s; a_dlm := a_dlm s |}
      | _, _ => None
      end
    | _ =>
      match reg_step art (a_st s) (a_reg s) l with
      | Some r' => Some {| a_st := st'; a_reg := r'; a_dlm := a_dlm s |}
      | None => None
      end
    end
  end.

Fixpoint exec_a (g : getter) (c : cfg) (art : nat -> option (nat * nat)) (s : ast) (tr : list label) : option ast :=
  match tr with
  | [] => Some s
  | l :: t => match step_a g c art s l with Some s' => exec_a g c art s' t | None => None end
  end.

(* ---- checker for observed runs (T2): the register history of a real run ----
   ops: manager calls in order: RSave / RDup name artifact = set_artifact_to_save (returned / raised), RErr msg = set_error.
   The observation: did the finally statement return, and which names does the session report afterwards. *)
Inductive rop := RSave (n v : nat) | RDup (n v : nat) | RErr (m : nat).   (* RDup: the real set_artifact_to_save raised ValueError *)
Fixpoint run_ops (r : areg) (ops : list rop) : option areg :=
  match ops with
  | [] => Some r
  | RSave n v :: t => match set_artifact_to_save r n v with Some r' => run_ops r' t | None => None end
  | RDup n v :: t => match set_artifact_to_save r n v with Some _ => None | None => run_ops r t end
  | RErr m :: t => run_ops (set_error r m) t
  end.
Fixpoint arts_eqb (a b : arts) : bool :=
  match a, b with
  | [], [] => true
  | (n, v) :: t, (n', v') :: t' => Nat.eqb n n' && Nat.eqb v v' && arts_eqb t t'
  | _, _ => false
  end.
(* case: (ops, (the finally statement returned?, artifacts of the session after the call)) *)
Definition chk_artifacts (k : list rop * (bool * arts)) : bool :=
  match run_ops areg0 (fst k) with
  | None => false
  | Some r =>
    match finally_artifacts get_artifacts r [], fst (snd k) with
    | Some d, true => arts_eqb d (snd (snd k))
    | None, false => true
    | _, _ => false
    end
  end.
