(* Model of the compute-framework transformer registry and of the loop that applies a transformation chain (C14).
   Definitions only.  Sources (all under /repo/mloda/core):

     tdecl, check_imports        abstract_plugins/components/framework_transformer/base_transformer.py
                                 BaseTransformer.framework / other_framework / check_imports
     identify_orientation        BaseTransformer.identify_orientation
     transform                   BaseTransformer.transform   (dispatch to transform_fw_to_other_fw / transform_other_fw_to_fw)
     lookup, dset, add, build    abstract_plugins/components/framework_transformer/cfw_transformer.py
                                 ComputeFrameworkTransformer.transformer_map (a Python dict: insertion ordered, assignment
                                 to an existing key keeps its position), .add, .initilize_transformer
     get_chain                   ComputeFrameworkTransformer.get_transformation_chain
     find_target, apply_chain,
     tfs_transform               core/step/transform_frame_work_step.py  TransformFrameworkStep.transform / equal_frameworks
     direct_transform            abstract_plugins/compute_framework.py  the `transformer_map.get((from, to))` + transform idiom of
                                 ComputeFramework.apply_compute_framework_transformer / upload_table / convert_flyserver_data_back

   A framework (the value of expected_data_framework(): pa.Table, pd.DataFrame, list, ...) is a natural number; which
   numbers exist is given by whoever builds the declarations (Gen/Registry.v lists the installed ones by name).
   A transformer class is a record; class identity (`==` on classes) is record equality -- the field t_id lets two
   different classes carry identical declarations.  The conversion functions themselves are Section variables: what
   pandas / pyarrow do to the values is not modelled here (see Props/C14.v for how that enters as a hypothesis). *)
From Coq Require Import List Bool Arith.
Import ListNotations.

Definition fw := nat.

Record tdecl := {
  t_id    : nat;            (* which class *)
  t_fw    : option fw;      (* framework();        None = returns NotImplementedError (dependency missing) *)
  t_other : option fw;      (* other_framework();  None = returns NotImplementedError *)
  t_imp   : bool            (* check_fw_import() and check_other_fw_import() *)
}.

Definition ofw_eqb (a b : option fw) : bool :=
  match a, b with Some x, Some y => Nat.eqb x y | None, None => true | _, _ => false end.

Definition tdecl_eqb (a b : tdecl) : bool :=
  Nat.eqb (t_id a) (t_id b) && ofw_eqb (t_fw a) (t_fw b) && ofw_eqb (t_other a) (t_other b) && Bool.eqb (t_imp a) (t_imp b).

(* `framework == cls.framework()` where the right side may be the NotImplementedError class: never equal then *)
Definition is_fw (a : fw) (o : option fw) : bool := match o with Some x => Nat.eqb a x | None => false end.

Definition check_imports (d : tdecl) : bool :=
  match t_fw d, t_other d with Some _, Some _ => t_imp d | _, _ => false end.

(* ---------- registry: an insertion-ordered dict keyed by (from, to) ---------- *)
Definition key := (fw * fw)%type.
Definition key_eqb (a b : key) : bool := Nat.eqb (fst a) (fst b) && Nat.eqb (snd a) (snd b).
Definition registry := list (key * tdecl).

Fixpoint lookup (r : registry) (k : key) : option tdecl :=
  match r with
  | [] => None
  | (k', d) :: r' => if key_eqb k' k then Some d else lookup r' k
  end.

(* d[k] = v *)
Fixpoint dset (r : registry) (k : key) (v : tdecl) : registry :=
  match r with
  | [] => [(k, v)]
  | (k', d) :: r' => if key_eqb k' k then (k', v) :: r' else (k', d) :: dset r' k v
  end.

Inductive add_result :=
| AddSkipped                    (* returns False: not importable / not implemented *)
| AddOk (r : registry)          (* returns True (registry possibly unchanged) *)
| AddConflict.                  (* raises ValueError: another class already registered for the pair *)

Definition add (r : registry) (d : tdecl) : add_result :=
  if negb (check_imports d) then AddSkipped else
  match t_fw d, t_other d with
  | Some l, Some o =>
      match lookup r (l, o) with
      | Some d' => if tdecl_eqb d d' then AddOk r else AddConflict
      | None => AddOk (dset (dset r (l, o) d) (o, l) d)
      end
  | _, _ => AddSkipped
  end.

(* initilize_transformer: add every subclass in the order get_all_subclasses yields them (the list IS that order);
   a ValueError is not caught, the constructor fails: None *)
Fixpoint build_from (r : registry) (ds : list tdecl) : option registry :=
  match ds with
  | [] => Some r
  | d :: ds' => match add r d with
                | AddSkipped => build_from r ds'
                | AddOk r' => build_from r' ds'
                | AddConflict => None
                end
  end.
Definition build (ds : list tdecl) : option registry := build_from [] ds.

(* get_transformation_chain; hub = Some pa when pyarrow is importable (`pa is not None`), pa = the number of pa.Table *)
Definition get_chain (hub : option fw) (r : registry) (from to : fw) : option (list tdecl) :=
  match lookup r (from, to) with
  | Some d => Some [d]
  | None =>
      match hub with
      | Some pa =>
          match lookup r (from, pa), lookup r (pa, to) with
          | Some d1, Some d2 => Some [d1; d2]
          | _, _ => None
          end
      | None => None
      end
  end.

(* ---------- orientation and dispatch ---------- *)
Inductive orient := OLeft | ORight.
Definition flip (o : orient) : orient := match o with OLeft => ORight | ORight => OLeft end.

Inductive ores :=
| OSame                 (* ValueError "How did you get here? Framework .. and .. are the same" *)
| ONotMine              (* returns None: the pair is not the transformer's pair *)
| ODir (o : orient)     (* "left" / "right" *)
| OUnsupported.         (* the inner ValueError "Framework .. or .. not supported by .." *)

Definition identify_orientation (d : tdecl) (a b : fw) : ores :=
  if Nat.eqb a b then OSame else
  let inpair x := is_fw x (t_fw d) || is_fw x (t_other d) in
  if inpair a && inpair b then
    if is_fw a (t_fw d) && is_fw b (t_other d) then ODir OLeft
    else if is_fw a (t_other d) && is_fw b (t_fw d) then ODir ORight
    else OUnsupported
  else ONotMine.

Section Data.
  Variable table : Type.
  (* transform_fw_to_other_fw / transform_other_fw_to_fw of the class *)
  Variable fwd bwd : tdecl -> table -> table.

  (* BaseTransformer.transform; None = one of its ValueErrors *)
  Definition transform (d : tdecl) (a b : fw) (x : table) : option table :=
    match identify_orientation d a b with
    | ODir OLeft => Some (fwd d x)
    | ODir ORight => Some (bwd d x)
    | _ => None
    end.

  (* `for (src, dst), trans in transformer_map.items(): if trans == transformer_cls and src == current_fw: ...; break` *)
  Fixpoint find_target (r : registry) (d : tdecl) (cur : fw) : option fw :=
    match r with
    | [] => None
    | ((s, t), d') :: r' => if tdecl_eqb d' d && Nat.eqb s cur then Some t else find_target r' d cur
    end.

  (* the loop of TransformFrameworkStep.transform.  `tgt` is the Python variable target_fw as left by the previous
     iteration (None = not yet bound): when the search of an intermediate step finds nothing the stale value is used,
     on the first iteration that is an UnboundLocalError (None).  *)
  Fixpoint apply_chain (r : registry) (chain : list tdecl) (cur : fw) (tgt : option fw) (to : fw) (x : table)
    : option table :=
    match chain with
    | [] => Some x
    | d :: rest =>
        let tgt' := match rest with
                    | [] => Some to
                    | _ :: _ => match find_target r d cur with Some t => Some t | None => tgt end
                    end in
        match tgt' with
        | None => None
        | Some t => match transform d cur t x with
                    | Some y => apply_chain r rest t tgt' to y
                    | None => None
                    end
        end
    end.

  Inductive tres := TOk (x : table) | TNoPath (* KeyError "No transformation path found" *) | TRaise.

  Definition tfs_transform (hub : option fw) (r : registry) (from to : fw) (x : table) : tres :=
    if Nat.eqb from to then TOk x else                                     (* equal_frameworks *)
    match get_chain hub r from to with
    | None => TNoPath
    | Some c => match apply_chain r c from None to x with Some y => TOk y | None => TRaise end
    end.

  (* transformer_map.get((from, to)) then transform: upload_table (to = pa.Table), convert_flyserver_data_back
     (from = pa.Table), apply_compute_framework_transformer.  None = no transformer registered (the caller then keeps the
     data / raises, depending on the call site); Some None = the transformer raised *)
  Definition direct_transform (r : registry) (from to : fw) (x : table) : option (option table) :=
    match lookup r (from, to) with
    | Some d => Some (transform d from to x)
    | None => None
    end.
End Data.

(* ---------- instances used by the correspondence: the "table" is the list of conversions applied so far ---------- *)
Definition trace := list (nat * orient).
Definition tr_fwd (d : tdecl) (x : trace) : trace := x ++ [(t_id d, OLeft)].
Definition tr_bwd (d : tdecl) (x : trace) : trace := x ++ [(t_id d, ORight)].
Definition tfs_trace (hub : option fw) (r : registry) (from to : fw) : tres trace :=
  tfs_transform trace tr_fwd tr_bwd hub r from to [].
