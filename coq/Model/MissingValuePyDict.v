(* Faithful model of mloda_plugins/feature_group/experimental/data_quality/missing_value/python_dict.py
   (PythonDictMissingValueFeatureGroup), the plain-Python imputation.  Definitions only.

     py_impute_mean / _median / _mode / _constant / _ffill / _bfill   <->  _impute_mean ... _impute_bfill
     counter, most_common1                                            <->  collections.Counter(values).most_common(1)
                                                                           (dict = insertion ordered; most_common(1) is
                                                                            max(items, key=count): the FIRST maximal item)
     py_perform_imputation                                            <->  _perform_imputation, single source column
     build_groups, py_grouped                                         <->  _perform_grouped_imputation (in-place updates
                                                                           of `result` by row index, groups visited in
                                                                           dict insertion order)
   A column is the list `[row.get(source) for row in data]`; statistics.mean / median are exact on the generated
   inputs (ints and dyadic floats), so they are modelled over Q.  Multi-column sources (`x~0, x~1`) are not modelled. *)
From Coq Require Import QArith List Bool Arith ZArith.
Import ListNotations.
Require Import MV.Spec.Builtins.
Open Scope Q_scope.

Definition fill_none (v : Q) (values : col) : col :=
  map (fun x => match x with None => Some v | Some _ => x end) values.

(* non_null = [v for v in values if v is not None]; if not non_null: return values *)
Definition py_impute_mean (values : col) : col :=
  match vals values with
  | [] => values
  | nn => fill_none (qsum nn / qlen nn) values
  end.

(* statistics.median: data = sorted(data); n = len(data); i = n // 2;
   n % 2 == 1 -> data[i]  else (data[i - 1] + data[i]) / 2 *)
Definition py_median (nn : list Q) : Q :=
  let data := sortq nn in
  let n := List.length data in
  let i := (n / 2)%nat in
  if Nat.eqb (n mod 2) 1 then nth i data 0 else (nth (i - 1) data 0 + nth i data 0) / 2.
Definition py_impute_median (values : col) : col :=
  match vals values with
  | [] => values
  | nn => fill_none (py_median nn) values
  end.

(* Counter: a dict, keys in first-insertion order, `==` on numbers *)
Fixpoint cinc (x : Q) (d : list (Q * nat)) : list (Q * nat) :=
  match d with
  | [] => [(x, 1%nat)]
  | (k, n) :: t => if Qeq_bool k x then (k, S n) :: t else (k, n) :: cinc x t
  end.
Definition counter (l : list Q) : list (Q * nat) := fold_left (fun d x => cinc x d) l [].
(* max(items, key=itemgetter(1)): a later item replaces the best one only when strictly greater *)
Fixpoint max_first (best : Q * nat) (d : list (Q * nat)) : Q * nat :=
  match d with
  | [] => best
  | p :: t => if (snd best <? snd p)%nat then max_first p t else max_first best t
  end.
Definition most_common1 (d : list (Q * nat)) : option Q :=
  match d with [] => None | p :: t => Some (fst (max_first p t)) end.

Definition py_impute_mode (values : col) : col :=
  match vals values with
  | [] => values
  | nn => match most_common1 (counter nn) with Some m => fill_none m values | None => values end
  end.

Definition py_impute_constant (k : Q) (values : col) : col := fill_none k values.

(* result = values.copy(); last_valid = None; for i, val in enumerate(result): ... *)
Fixpoint ffill_loop (last_valid : option Q) (values : col) : col :=
  match values with
  | [] => []
  | Some v :: t => Some v :: ffill_loop (Some v) t
  | None :: t => last_valid :: ffill_loop last_valid t
  end.
Definition py_impute_ffill (values : col) : col := ffill_loop None values.

(* for i in range(len(result) - 1, -1, -1): the same loop from the end; returns (filled, next_valid seen so far) *)
Fixpoint bfill_loop (values : col) : col * option Q :=
  match values with
  | [] => ([], None)
  | x :: t => let (r, next_valid) := bfill_loop t in
              match x with
              | Some v => (Some v :: r, Some v)
              | None => (next_valid :: r, next_valid)
              end
  end.
Definition py_impute_bfill (values : col) : col := fst (bfill_loop values).

Definition py_impute (m : imethod) (values : col) : col :=
  match m with
  | IMean => py_impute_mean values
  | IMedian => py_impute_median values
  | IMode => py_impute_mode values
  | IConst k => py_impute_constant k values
  | IFfill => py_impute_ffill values
  | IBfill => py_impute_bfill values
  end.

(* ---- grouped ---- *)
Definition set_nth (i : nat) (v : cell) (r : col) : col := firstn i r ++ match skipn i r with [] => [] | _ :: t => v :: t end.

(* groups: dict key-tuple -> list of row indices, insertion ordered *)
Fixpoint add_idx (k : key) (i : nat) (g : list (key * list nat)) : list (key * list nat) :=
  match g with
  | [] => [(k, [i])]
  | (k', idxs) :: t => if key_eqb k' k then (k', idxs ++ [i]) :: t else (k', idxs) :: add_idx k i t
  end.
Definition build_groups (keys : list key) : list (key * list nat) :=
  fold_left (fun g p => add_idx (snd p) (fst p) g) (combine (seq 0 (List.length keys)) keys) [].

(* for i in group_indices: if result[i] is None: result[i] = v *)
Definition fill_indices (v : option Q) (idxs : list nat) (result : col) : col :=
  fold_left (fun r i => match nth i r None with None => set_nth i v r | Some _ => r end) idxs result.

Definition group_stat (stat : list Q -> option Q) (overall : option Q) (idxs : list nat) (result : col) : col :=
  let group_non_null := vals (map (fun i => nth i result None) idxs) in
  match stat group_non_null with
  | Some v => fill_indices (Some v) idxs result
  | None => fill_indices overall idxs result
  end.

(* last_valid = None; for i in group_indices: if result[i] is not None: last_valid = result[i]
                                              elif last_valid is not None: result[i] = last_valid *)
Fixpoint group_ffill (last_valid : option Q) (idxs : list nat) (result : col) : col :=
  match idxs with
  | [] => result
  | i :: t => match nth i result None with
              | Some v => group_ffill (Some v) t result
              | None => match last_valid with
                        | Some v => group_ffill last_valid t (set_nth i (Some v) result)
                        | None => group_ffill last_valid t result
                        end
              end
  end.

Definition py_mean (l : list Q) : option Q := match l with [] => None | _ => Some (qsum l / qlen l) end.
Definition py_median_o (l : list Q) : option Q := match l with [] => None | _ => Some (py_median l) end.
Definition py_mode_o (l : list Q) : option Q := most_common1 (counter l).

Definition py_grouped (m : imethod) (keys : list key) (values : col) : col :=
  let groups := map snd (build_groups keys) in
  let non_null := vals values in
  match m with
  | IConst k => py_impute_constant k values
  (* overall_mean / overall_median / overall_mode are each computed only for the method that uses them
     (`... if non_null_values and imputation_method == "mean" else None`) *)
  | IMean => fold_left (fun r idxs => group_stat py_mean (py_mean non_null) idxs r) groups values
  | IMedian => fold_left (fun r idxs => group_stat py_median_o (py_median_o non_null) idxs r) groups values
  | IMode => fold_left (fun r idxs => group_stat py_mode_o (py_mode_o non_null) idxs r) groups values
  | IFfill => fold_left (fun r idxs => group_ffill None idxs r) groups values
  | IBfill => fold_left (fun r idxs => group_ffill None (rev idxs) r) groups values
  end.

(* _perform_imputation, one source column: `grouped` = Some keys when group_by_features is a non-empty list / tuple.
   (mean / median of a column of strings raise in `statistics`; such requests are not modelled.) *)
Definition has_null (values : col) : bool := existsb (fun x => match x with None => true | Some _ => false end) values.
Definition py_perform_imputation (m : imethod) (grouped : option (list key)) (values : col) : col :=
  if negb (has_null values) then values
  else match grouped with
       | Some keys => py_grouped m keys values
       | None => py_impute m values
       end.
