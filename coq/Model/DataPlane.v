(* Data plane of merge-free plans (C02): what the steps of an execution plan do to the tables held by the
   compute-framework objects.  Mirrors ComputeFramework.run_calculation (read self.data / calculate / write self.data) for
   feature-group steps whose calculation returns the incoming table extended by the new columns, and
   TransformFrameworkStep.execute (read the source object's data, convert, store in a new object).  Conversion between
   frameworks is the identity on abstract tables (C14's subject).  Which object a step works on (the registry lookup of
   prepare_execute_step / CfwManager.get_cfw_uuid) is NOT decided here: it is a field of the action, observed on the real run.
   Definitions only. *)
From Coq Require Import List Bool ZArith Arith.
Import ListNotations.
Require Import MV.Spec.RefEval.
Open Scope Z_scope.

Definition table := env.                                  (* columns of one object *)
Definition store := list (nat * table).                   (* object id -> table *)

Fixpoint get_obj (s : store) (o : nat) : option table :=
  match s with [] => None | (k, t) :: r => if Nat.eqb k o then Some t else get_obj r o end.
Definition set_obj (s : store) (o : nat) (t : table) : store := (o, t) :: s.

Inductive action :=
  | ARoot (obj : nat) (cols : env)                        (* root step: the object's table becomes the source table *)
  | ACalc (obj : nat) (ds : list fdef)                    (* derived step on object obj computing the features ds *)
  | ACopy (src dst : nat).                                (* transform step: new object dst holding a copy of src *)

Inductive outcome := Ok (s : store) | MissingColumn (f : nat) | MissingObject (o : nat).

Fixpoint calc_cols (n : nat) (t : table) (ds : list fdef) : table + nat :=
  match ds with
  | [] => inl []
  | d :: r =>
    match all_some (map (lookup t) (inputs d)) with
    | None => inr (fname d)
    | Some cols => match calc_cols n t r with
                   | inl rest => inl ((fname d, compute n d cols) :: rest)
                   | inr f => inr f
                   end
    end
  end.

Definition step (n : nat) (s : store) (a : action) : outcome :=
  match a with
  | ARoot o cols => Ok (set_obj s o cols)
  | ACalc o ds =>
    match get_obj s o with
    | None => MissingObject o
    | Some t => match calc_cols n t ds with
                | inl new => Ok (set_obj s o (new ++ t))      (* existing table extended by the new columns *)
                | inr f => MissingColumn f
                end
    end
  | ACopy a b => match get_obj s a with None => MissingObject a | Some t => Ok (set_obj s b t) end
  end.

Fixpoint exec (n : nat) (s : store) (acts : list action) : outcome :=
  match acts with
  | [] => Ok s
  | a :: r => match step n s a with Ok s' => exec n s' r | e => e end
  end.

(* every column of every object agrees with the environment e *)
Definition agrees (e : env) (s : store) : Prop :=
  forall o t f c, In (o, t) s -> lookup t f = Some c -> exists c', lookup e f = Some c' /\ col_eqb c c' = true.

(* side conditions of exec_sound, as executable checks: root tables carry source columns; every computed feature is one of
   the request's definitions (same inputs, constant and coefficients) and is defined by e *)
Definition fdef_eqb (a b : fdef) : bool :=
  Nat.eqb (fname a) (fname b)
  && (Nat.eqb (length (inputs a)) (length (inputs b)) && forallb (fun xy => Nat.eqb (fst xy) (snd xy)) (combine (inputs a) (inputs b)))
  && Z.eqb (c0 a) (c0 b)
  && (Nat.eqb (length (coefs a)) (length (coefs b)) && forallb (fun xy => Z.eqb (fst xy) (snd xy)) (combine (coefs a) (coefs b))).

Definition action_ok (src : env) (defs : list fdef) (e : env) (a : action) : bool :=
  match a with
  | ARoot _ cols => forallb (fun kv => match lookup src (fst kv) with Some c => col_eqb (snd kv) c | None => false end) cols
  | ACalc _ ds => forallb (fun d => existsb (fdef_eqb d) defs && match lookup e (fname d) with Some _ => true | None => false end) ds
  | ACopy _ _ => true
  end.
