(* Executable REFERENCE models of what the two library-backed merge engines were observed to do:
     /repo/mloda_plugins/compute_framework/base_implementations/pandas/pandas_merge_engine.py   (pd.merge / pd.concat)
     /repo/mloda_plugins/compute_framework/base_implementations/pyarrow/pyarrow_merge_engine.py (Table.join / concat_tables)
   The mloda-side glue (choice of `left_on/right_on`, the `mloda_right_index` copy, the append schema test, the
   missing union) is modelled from the source; the library call itself (pandas merge, Acero hash join) is a
   reference description validated ONLY by the correspondence check (T2) -- nothing is proved about pandas or
   pyarrow.  These functions make the known-finding domains of the harness tight: inside a domain the observed
   result must be this reference (defect present) or Rel.rel_join (defect gone).  Definitions only.

   Columnar tables have a schema even when they have no rows: `lcols`/`rcols` are the column lists of the inputs. *)
From Coq Require Import List String ZArith Bool.
Import ListNotations.
Require Import MV.Spec.Rel MV.Model.MergePyDict.
Open Scope string_scope.
Open Scope list_scope.

(* joins parameterised by the row-matching predicate (Rel.rel_join is the instance m = Rel.matches lk rk) *)
Section JoinBy.
  Variable m : row -> row -> bool.
  Variable pair_row : row -> row -> row.          (* row built from a matched pair *)
  Variable lonly ronly : row -> row.              (* rows built from unmatched left / right rows *)
  Definition inner_by (L R : table) : table := flat_map (fun l => map (fun r => pair_row l r) (filter (m l) R)) L.
  Definition left_only_by (L R : table) : table := filter (fun l => negb (existsb (m l) R)) L.
  Definition right_only_by (L R : table) : table := filter (fun r => negb (existsb (fun l => m l r) L)) R.
  Definition join_by (jt : jointype) (L R : table) : table :=
    match jt with
    | JInner => inner_by L R
    | JLeft => inner_by L R ++ map lonly (left_only_by L R)
    | JRight => inner_by L R ++ map ronly (right_only_by L R)
    | JOuter => inner_by L R ++ map lonly (left_only_by L R) ++ map ronly (right_only_by L R)
    | JAppend => L ++ R
    | JUnion => distinct (L ++ R)
    end.
End JoinBy.

(* ---------------------------------------------------------------------------------------------------- *)
(* pandas: pd.merge(left, right, left_on=lk, right_on=rk, how=...)
     - NaN/None keys are equal to each other (Python-style key equality, Model.MergePyDict.key_eqb);
     - a column name present in both frames that is not a same-named key pair gets the suffixes _x / _y;
     - append = concat (columns aligned by name), union = concat + drop_duplicates. *)
Definition pandas_overlap (lk rk lcols rcols : list col) : list col :=
  filter (fun c => mem c rcols && negb (shared_key lk rk c)) lcols.

Definition rename_col (sfx : string) (ov : list col) (c : col) : col := if mem c ov then String.append c sfx else c.
Definition rename_row (sfx : string) (ov : list col) (r : row) : row :=
  map (fun cv => (rename_col sfx ov (fst cv), snd cv)) r.

Definition pandas_ref (jt : jointype) (lk rk lcols rcols : list col) (L R : table) : table :=
  match jt with
  | JAppend => L ++ R
  | JUnion => distinct (L ++ R)
  | _ =>
    let ov := pandas_overlap lk rk lcols rcols in
    let L' := map (rename_row "_x" ov) L in
    let R' := map (rename_row "_y" ov) R in
    let lk' := map (rename_col "_x" ov) lk in
    let rk' := map (rename_col "_y" ov) rk in
    join_by (fun l r => key_eqb (key_of lk' l) (key_of rk' r)) row_union (fun r => r) (fun r => r) jt L' R'
  end.

(* ---------------------------------------------------------------------------------------------------- *)
(* pyarrow: PyArrowMergeEngine.join_logic + Table.join (Acero):
     - keys match with SQL semantics (null matches nothing);
     - Acero keeps ONE set of key columns: the left keys for inner / left outer / full outer (coalesced with
       the right keys for right-only rows in a full outer join), the right keys for right outer;
     - mloda glue: for single keys with different names the right key is copied into `mloda_right_index` and
       the copy is used as the join key (so the original right column survives as a payload column);
     - append requires identical schemas, union is not implemented (both raise ValueError -> None). *)
Definition drop_cols (cs : list col) (r : row) : row := filter (fun cv => negb (mem (fst cv) cs)) r.
Definition mri : col := "mloda_right_index".

Definition arrow_native (jt : jointype) (lk rk : list col) (L R : table) : table :=
  let m := matches lk rk in
  match jt with
  | JRight => join_by m (fun l r => row_union (drop_cols lk l) r) (fun r => r) (fun r => r) JRight L R
  | _ => join_by m (fun l r => row_union l (drop_cols rk r)) (fun r => r)
                 (fun r => row_union (combine lk (key_of rk r)) (drop_cols rk r)) jt L R
  end.

Definition cols_eqb (a b : list col) : bool := list_col_eqb a b.

Definition arrow_ref (jt : jointype) (lk rk lcols rcols : list col) (L R : table) : option table :=
  match jt with
  | JUnion => None
  | JAppend => if cols_eqb lcols rcols then Some (L ++ R) else None
  | _ =>
    match lk, rk with
    | [a], [b] =>
        if String.eqb a b then Some (arrow_native jt lk rk L R)
        else if mem mri rcols then None
        else Some (arrow_native jt lk [mri] L (map (fun r => r ++ [(mri, get b r)]) R))
    | _, _ => Some (arrow_native jt lk rk L R)
    end
  end.

(* the domain in which the pyarrow engine is known to deviate from the relational operator:
   union, append with different schemas, or some key pair with different names *)
Definition arrow_dom (jt : jointype) (lk rk lcols rcols : list col) : bool :=
  match jt with
  | JUnion => true
  | JAppend => negb (cols_eqb lcols rcols)
  | _ => negb (list_col_eqb lk rk)
  end.
