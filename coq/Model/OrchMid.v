(* A pass of the orchestrator's for loop that is INTERRUPTED by a worker event (mloda/core/runtime/run.py: the main thread is
   somewhere inside `for step in self.execution_planner` when a worker thread sets step_is_done / the error register,
   thread_worker.py:14-20).  Model/Orch.v's EScan is a whole pass; here the pass is split after k visits.
   Model/Worker.v has the same granularity for the whole protocol (queues, polls, finally block); this file is the small
   Orch-level statement of it that the gated THREADING histories with a mid-pass failure are replayed against.
   Definitions only; proofs in Proofs/OrchMidP.v, statements in Props/C01.v. *)
From Coq Require Import List Bool Arith.
Import ListNotations.
Require Import MV.Model.Orch MV.Model.OrchCheck.

(* one iteration of the while loop during which, after k visits of the for loop, worker step s completes (ok) or raises *)
Definition scan_mid (stream : bool) (fails : nat -> bool) (p : plan) (k s : nat) (ok : bool) (st : ost) : ost :=
  match loop_head p st with
  | Looping =>
      let st1 := fold_left (visit false fails) (firstn k p) st in
      let st' := bump (fold_left (visit false fails) (skipn k p) (worker_done st1 s ok)) in
      if stream then drain st' else st'
  | _ => worker_done st s ok
  end.

(* state in which the event lands *)
Definition mid_state (fails : nat -> bool) (p : plan) (k : nat) (st : ost) : ost :=
  match loop_head p st with
  | Looping => fold_left (visit false fails) (firstn k p) st
  | _ => st
  end.

(* traces with mid-pass FAILURES (worker back ends: inline = false) *)
Inductive fevent :=
  | FScan
  | FDone (s : nat) (ok : bool)
  | FMidFail (k s : nat).          (* a pass; after k visits step s raises *)

Definition fapply (stream : bool) (fails : nat -> bool) (p : plan) (st : ost) (e : fevent) : ost :=
  match e with
  | FScan => scan stream false fails p st
  | FDone s ok => worker_done st s ok
  | FMidFail k s => scan_mid stream fails p k s false st
  end.
Definition frun (stream : bool) (fails : nat -> bool) (p : plan) (es : list fevent) (st : ost) : ost :=
  fold_left (fapply stream fails p) es st.

(* a worker can only fail after it was started: checked along the trace *)
Fixpoint fvalid (stream : bool) (fails : nat -> bool) (p : plan) (es : list fevent) (st : ost) : bool :=
  match es with
  | [] => true
  | e :: t =>
    (match e with FMidFail k s => mem s (started_ids (mid_state fails p k st)) | _ => true end)
    && fvalid stream fails p t (fapply stream fails p st e)
  end.

Definition coarsen1 (e : fevent) : list event :=
  match e with FScan => [EScan] | FDone s ok => [EDone s ok] | FMidFail _ s => [EScan; EDone s false] end.
Definition coarsen (es : list fevent) : list event := flat_map coarsen1 es.

(* ---- gated THREADING history in which ONE release happens in the middle of a pass (harness/orch.py run_gated midpass_sid) ----
   round = (blocked set observed, released step, ok, Some k = released by the plan iterator after k visits of a pass) *)
Fixpoint replay_rounds_m (p : plan) (st : ost) (rounds : list (list nat * nat * bool * option nat)) : option ost :=
  match rounds with
  | [] => Some st
  | (blocked, rel, ok, mk) :: t =>
    let st1 := scan false false (fun _ => false) p (scan false false (fun _ => false) p st) in
    if set_eqb (executing st1) blocked && mem rel blocked
    then replay_rounds_m p (match mk with
                            | None => worker_done st1 rel ok
                            | Some k => scan_mid false (fun _ => false) p k rel ok st1
                            end) t
    else None
  end.

Definition rounds_events (rounds : list (list nat * nat * bool * option nat)) : list fevent :=
  flat_map (fun r : list nat * nat * bool * option nat =>
              match r with
              | (_, rel, ok, None) => [FScan; FScan; FDone rel ok]
              | (_, rel, ok, Some k) => [FScan; FScan; (if ok then FDone rel true else FMidFail k rel)]
              end) rounds.

Definition mid_fail_only (rounds : list (list nat * nat * bool * option nat)) : bool :=
  forallb (fun r : list nat * nat * bool * option nat => match r with (_, _, true, Some _) => false | _ => true end) rounds.

(* the mid-pass release is a FAILURE of a step that was started by then; the history is a history of the model, ends with the observed outcome, and the steps whose execution was OBSERVED to begin
   are exactly the steps the model started (each once) *)
Definition chk_gated_m (c : plan * (list (list nat * nat * bool * option nat) * ostatus * list nat)) : bool :=
  match c with
  | (p, (rounds, o, begins)) =>
    mid_fail_only rounds && fvalid false (fun _ => false) p (rounds_events rounds) init &&
    match replay_rounds_m p init rounds with
    | None => false
    | Some st =>
      let st' := scan false false (fun _ => false) p (scan false false (fun _ => false) p st) in
      status_matches o (loop_head p st') && set_eqb (started_ids st') begins && nodupb begins &&
      match o with
      | ORaised => true                 (* a failing run may end while other steps are still executing *)
      | _ => match executing st' with [] => true | _ => false end
      end
    end
  end.
