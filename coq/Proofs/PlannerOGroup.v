(* group_features_by_compute_framework_and_options (Model/Grouping.v group_items) computes a PARTITION of its input, for
   every input order; consequences for the splits of a feature group in Model/PlannerO.v. *)
From Coq Require Import List Bool Arith Lia Permutation.
Import ListNotations.
Require Import MV.Model.Orch MV.Model.OrchCheck MV.Model.Options MV.Model.Identity MV.Model.Grouping MV.Model.PlannerA MV.Model.PlannerO.
Require Import MV.Spec.GroupingSpec MV.Spec.PlannerASpec.
Require Import MV.Proofs.GroupingP MV.Proofs.PlannerASets.

Definition cmembers (c : coll) : list item := concat (map snd c).

Lemma coll_add_concat : forall k x c, Permutation (cmembers (coll_add k x c)) (x :: cmembers c).
Proof.
  intros k x c. induction c as [|[k' ms] t IH]; unfold cmembers in *; cbn [coll_add map snd concat].
  - cbn. apply Permutation_refl.
  - destruct (gkey_eqb k k'); cbn [map snd concat].
    + rewrite <- app_assoc. cbn [app]. apply Permutation_sym. apply Permutation_middle.
    + apply (Permutation_trans (Permutation_app_head ms IH)). apply Permutation_sym. apply Permutation_middle.
Qed.

Lemma pass1_concat : forall l c u,
  Permutation (cmembers (fst (fold_left pass1_step l (c, u))) ++ snd (fold_left pass1_step l (c, u))) (cmembers c ++ u ++ l).
Proof.
  intros l. induction l as [|x l IH]; intros c u; cbn [fold_left].
  - rewrite app_nil_r. apply Permutation_refl.
  - unfold pass1_step at 2 4. cbn [fst snd]. destruct (it_ty x) as [t|].
    + apply (Permutation_trans (IH _ _)).
      apply (Permutation_trans (Permutation_app_tail (u ++ l) (coll_add_concat (it_kb x, Some t) x c))).
      cbn [app]. apply (Permutation_trans (Permutation_middle (cmembers c) (u ++ l) x)).
      apply Permutation_app_head. apply Permutation_middle.
    + apply (Permutation_trans (IH _ _)). rewrite <- app_assoc. apply Permutation_refl.
Qed.

Lemma add_untyped_concat : forall us c, Permutation (cmembers (fold_left add_untyped us c)) (cmembers c ++ us).
Proof.
  intros us. induction us as [|u us IH]; intros c; cbn [fold_left].
  - rewrite app_nil_r. apply Permutation_refl.
  - apply (Permutation_trans (IH _)). rewrite add_untyped_eq.
    apply (Permutation_trans (Permutation_app_tail us (coll_add_concat _ u c))). cbn [app]. apply Permutation_middle.
Qed.

(* every feature is in exactly one group *)
Theorem group_items_perm : forall its, Permutation (concat (group_items its)) its.
Proof.
  intros its. unfold group_items, group_coll, pass1. fold (cmembers (fold_left add_untyped (snd (fold_left pass1_step its ([], []))) (fst (fold_left pass1_step its ([], []))))).
  apply (Permutation_trans (add_untyped_concat _ _)).
  apply (Permutation_trans (pass1_concat its [] [])). cbn. apply Permutation_refl.
Qed.

Theorem group_items_nonempty : forall its g, In g (group_items its) -> g <> [].
Proof.
  intros its g Hg. destruct (group_coll_inv its) as ([_ _ Hne] & _).
  unfold group_items in Hg. apply in_map_iff in Hg. destruct Hg as [[k ms] [E Hin]]. subst g. exact (Hne _ Hin).
Qed.

Lemma NoDup_app_both : forall (a b : list nat), NoDup (a ++ b) -> NoDup a /\ NoDup b.
Proof.
  intros a. induction a as [|x a IH]; intros b H; cbn in H; [split; [constructor | exact H]|].
  apply NoDup_cons_iff in H. destruct H as [Hx H]. destruct (IH b H) as [Ha Hb]. split; [|exact Hb].
  constructor; [intros Hin; apply Hx; apply in_or_app; left; exact Hin | exact Ha].
Qed.

(* ---------- the splits of one feature group ---------- *)
Section Splits.
  Variables (ord : oparam) (itm : nat -> item).
  Hypothesis Hord : ord_ok ord.
  Hypothesis Hid : forall u, it_id (itm u) = u.

  Lemma map_id_itm : forall l, map it_id (map itm l) = l.
  Proof. intros l. rewrite map_map. rewrite (map_ext _ (fun u => u) Hid). apply map_id. Qed.

  Lemma splits_perm : forall ms, Permutation (concat (splits_of ord itm ms)) ms.
  Proof.
    intros ms. unfold splits_of. rewrite <- concat_map.
    apply (Permutation_trans (Permutation_map it_id (group_items_perm _))). rewrite map_id_itm. apply Hord.
  Qed.

  Lemma splits_nonempty : forall ms sp, In sp (splits_of ord itm ms) -> sp <> [].
  Proof.
    intros ms sp H. unfold splits_of in H. apply in_map_iff in H. destruct H as [g [E Hg]]. subst sp.
    intros E. apply map_eq_nil in E. exact (group_items_nonempty _ _ Hg E).
  Qed.

  Lemma splits_incl : forall ms sp u, In sp (splits_of ord itm ms) -> In u sp -> In u ms.
  Proof.
    intros ms sp u Hsp Hu. apply (Permutation_in _ (splits_perm ms)). apply in_concat. exists sp. split; assumption.
  Qed.

  Lemma splits_nodup : forall ms, NoDup ms -> NoDup (concat (splits_of ord itm ms)).
  Proof. intros ms H. exact (Permutation_NoDup (Permutation_sym (splits_perm ms)) H). Qed.

  Lemma split_nodup : forall ms sp, NoDup ms -> In sp (splits_of ord itm ms) -> NoDup sp.
  Proof.
    intros ms sp Hnd Hsp. pose proof (splits_nodup ms Hnd) as H. revert Hsp H. generalize (splits_of ord itm ms). intros L.
    induction L as [|l L IH]; intros Hsp H; [destruct Hsp|]. cbn [concat] in H. destruct (NoDup_app_both _ _ H) as [H1 H2].
    destruct Hsp as [E|Hsp]; [subst l; exact H1 | exact (IH Hsp H2)].
  Qed.

  (* the split a feature is in *)
  Lemma split_of_feature : forall ms u, In u ms -> exists sp, In sp (splits_of ord itm ms) /\ In u sp.
  Proof.
    intros ms u Hu. apply (Permutation_in _ (Permutation_sym (splits_perm ms))) in Hu. apply in_concat in Hu.
    destruct Hu as [sp [H1 H2]]. exists sp. split; assumption.
  Qed.

  (* two features of one split: same_group of the items *)
  Lemma split_same_group : forall ms sp u v, In sp (splits_of ord itm ms) -> In u sp -> In v sp ->
    same_group (group_items (map itm (ord 0 ms))) (itm u) (itm v).
  Proof.
    intros ms sp u v Hsp Hu Hv. unfold splits_of in Hsp. apply in_map_iff in Hsp. destruct Hsp as [g [E Hg]]. subst sp.
    assert (Hmem : forall x, In x g -> In x (map itm (ord 0 ms))).
    { intros x Hx. apply (Permutation_in _ (group_items_perm _)). apply in_concat. exists g. split; assumption. }
    assert (Hback : forall w, In w (map it_id g) -> In (itm w) g).
    { intros w Hw. apply in_map_iff in Hw. destruct Hw as [x [E Hx]]. destruct (proj1 (in_map_iff _ _ _) (Hmem x Hx)) as [w' [E' _]].
      subst x. rewrite Hid in E. subst w'. exact Hx. }
    exists g. split; [exact Hg|]. split; apply Hback; assumption.
  Qed.

  Lemma same_group_split : forall ms u v, NoDup ms -> In u ms -> In v ms ->
    same_group (group_items (map itm (ord 0 ms))) (itm u) (itm v) ->
    exists sp, In sp (splits_of ord itm ms) /\ In u sp /\ In v sp.
  Proof.
    intros ms u v Hnd Hu Hv [g [Hg [Hug Hvg]]]. exists (map it_id g). split; [|split].
    - unfold splits_of. apply in_map. exact Hg.
    - rewrite <- (Hid u). apply in_map. exact Hug.
    - rewrite <- (Hid v). apply in_map. exact Hvg.
  Qed.
End Splits.
