(* The repaired poll_result_queues (10693fe): a late DROP_COMPLETE acknowledgement taken by a poll is harmless.
   (a) a trace without any failure label never reaches a raising exit;  (b) a poll never leaves the loop and changes the
   orchestrator state only by the step results it took;  (c) a poll that takes a stale acknowledgement - at whatever position
   of the iteration over the result queues - is the poll without it, except that the acknowledgement has left its queue.
   No hypothesis about the plan. *)
From Coq Require Import List Bool Arith Lia.
Import ListNotations.
Require Import MV.Model.Orch MV.Proofs.OrchP MV.Proofs.OrchTermP MV.Model.Worker MV.Spec.WorkerSpec MV.Proofs.WorkerP.

Lemma poll_failed : forall taken f a f' a', poll f a taken = Some (f', a') -> failed a' = failed a.
Proof.
  induction taken as [|[w m] t IH]; intros f a f' a' P; cbn in P.
  - inversion P; subst. reflexivity.
  - destruct (spawned (phase (f w))); [|discriminate]. destruct (take_msg (f w) m) as [x|]; [|discriminate].
    rewrite (IH _ _ _ _ P). destruct m; reflexivity.
Qed.

Lemma head_src_no_failure : forall p a, failed a = [] -> head_src p a <> Raised.
Proof.
  intros p a E. unfold head_src. rewrite E. destruct (finished a); [discriminate|]. destruct (subset _ _); discriminate.
Qed.

Lemma NoDup_nodupb : forall l, NoDup l -> nodupb l = true.
Proof. induction 1 as [|x l Hn Hd IH]; cbn; [reflexivity|]. apply mem_false in Hn. rewrite Hn, IH. reflexivity. Qed.

Lemma NoDup_remove_mid : forall (a : list nat) x b, NoDup (a ++ x :: b) -> NoDup (a ++ b) /\ ~ In x (a ++ b).
Proof. intros a x b H. split; [eapply NoDup_remove_1; eauto | eapply NoDup_remove_2; eauto]. Qed.

Section Stale.
  Variable c : cfg.
  Notation p := (cplan c).

  Ltac des S := repeat (dm S; try discriminate S).

  (* ---------------------------------------------------------------------------------------------------------------- *)
  (* (a) *)
  Definition NF (st : pst) : Prop :=
    failed (o st) = [] /\ (forall s, ~ In (s, false) (replies st)) /\
    forall x, xk (pc st) = Some x -> x = XNormal \/ x = XAbandon.

  Ltac nfsolve H :=
    destruct H as (N1 & N2 & N3); unfold NF; cbn;
    repeat match goal with E : pc _ = _ |- _ => rewrite E in N3; clear E end; cbn in N3;
    rewrite ?ovisit_failed;
    (split; [assumption | split; [assumption | first [ exact N3 | intros x X; first [discriminate X | inversion X; subst; auto] ] ] ]).

  Lemma step_NF : forall st l st', NF st -> crash_label l = false -> step c st l = Some st' -> NF st'.
  Proof.
    intros st l st' H Hl S. destruct l; cbn in Hl; try discriminate Hl; cbn in S.
    - (* OHead *)
      destruct (pc st) eqn:Epc; try discriminate S. pose proof (head_src_no_failure p (o st) (proj1 H)) as Hh.
      destruct (head_src p (o st)); [| |congruence]; inv_some S; nfsolve H.
    - (* OVisit *) des S; inv_some S; nfsolve H.
    - (* OPoll *)
      destruct (pc st) eqn:Epc; try discriminate S. destruct (nth_error p i); [|discriminate S].
      destruct (_ && _ && _ && _); [|discriminate S]. destruct (poll (ws st) (o st) taken) as [[f a']|] eqn:P; [|discriminate S].
      inv_some S. pose proof (poll_failed _ _ _ _ _ P) as Ef. destruct H as (N1 & N2 & N3). unfold NF; cbn. rewrite Ef.
      split; [assumption | split; [assumption | intros x X; discriminate X]].
    - (* OCollect *) destruct ok; [|discriminate Hl]. des S; inv_some S; nfsolve H.
    - (* ORequeue *) des S; inv_some S; nfsolve H.
    - (* OGot *) des S; inv_some S; nfsolve H.
    - (* OTimeout *) des S; inv_some S; nfsolve H.
    - (* OExec *) destruct ok; [|discriminate Hl]. unfold submit in S. des S; inv_some S; nfsolve H.
    - (* OEndScan *) des S; inv_some S; nfsolve H.
    - (* OResume *) des S; inv_some S; nfsolve H.
    - (* OAbandon *) des S; inv_some S; nfsolve H.
    - (* OArtifacts *) destruct ok; [|discriminate Hl]. des S; inv_some S; nfsolve H.
    - (* OTerminate *) des S; inv_some S; nfsolve H.
    - (* OJoin *) des S; inv_some S; nfsolve H.
    - (* OClose *) des S; inv_some S; nfsolve H.
    - (* ODropAll *) des S; inv_some S; nfsolve H.
    - (* WTake *) des S; inv_some S; nfsolve H.
    - (* WUpload *) des S; inv_some S; nfsolve H.
    - (* WDone *)
      destruct (phase (ws st w)); try discriminate S. destruct (wfail c s); [discriminate S|].
      destruct H as (N1 & N2 & N3). destruct (mp c); inv_some S; unfold NF; cbn;
        (split; [assumption | split; [intros s' [X|X]; [discriminate X | exact (N2 s' X)] | exact N3]]).
    - (* WDropAck *) des S; inv_some S; nfsolve H.
    - (* WDropCrash *) des S; inv_some S; nfsolve H.
    - (* ONext *) des S; inv_some S; nfsolve H.
  Qed.

  Lemma NF_init : NF pinit.
  Proof. unfold NF, pinit; cbn. split; [reflexivity | split; [intros s [] | intros x X; discriminate X]]. Qed.

  Lemma exec_NF : forall tr st st', NF st -> fault_free tr -> exec c st tr = Some st' -> NF st'.
  Proof.
    induction tr as [|l tr IH]; intros st st' H F E; cbn in E; [inversion E; subst; exact H|].
    destruct (step c st l) as [st1|] eqn:S; [|discriminate].
    apply (IH st1 st'); [eapply step_NF; [exact H | apply F; left; reflexivity | exact S] | intros l' X; apply F; right; exact X | exact E].
  Qed.

  Lemma stale_ack_harmless_l : forall tr st, exec c pinit tr = Some st -> fault_free tr ->
    failed (o st) = [] /\ (forall s, ~ In (s, false) (replies st)) /\
    forall x, xk (pc st) = Some x -> x = XNormal \/ x = XAbandon.
  Proof. intros tr st E F. exact (exec_NF tr pinit st NF_init F E). Qed.

  (* ---------------------------------------------------------------------------------------------------------------- *)
  (* (b) *)
  Lemma take_msg_same : forall x m y, take_msg x m = Some y -> same_but_resq y x.
  Proof.
    intros x m y T. unfold take_msg in T.
    assert (R : match m with RDone s => if mem s (requeued x) then Some (set_resq x (resq x) (remove1 s (requeued x))) else None
                           | RDropComplete => None end = Some y -> same_but_resq y x).
    { destruct m as [s|]; [|discriminate]. destruct (mem s (requeued x)); [|discriminate]. intros E. inv_some E. repeat split. }
    destruct (resq x) as [|h r]; [apply R, T|]. destruct (rmsg_eqb h m); [inv_some T; repeat split | apply R, T].
  Qed.

  Lemma same_but_resq_trans : forall x y z, same_but_resq x y -> same_but_resq y z -> same_but_resq x z.
  Proof. intros x y z (A1&A2&A3&A4&A5) (B1&B2&B3&B4&B5). repeat split; congruence. Qed.

  Lemma poll_shape : forall taken f a f' a', poll f a taken = Some (f', a') ->
    a' = fold_left (fun a s => add_done s a) (polled_dones taken) a /\ forall k, same_but_resq (f' k) (f k).
  Proof.
    induction taken as [|[w m] t IH]; intros f a f' a' P; cbn in P.
    - inversion P; subst. split; [reflexivity | intros k; repeat split].
    - destruct (spawned (phase (f w))); [|discriminate]. destruct (take_msg (f w) m) as [x|] eqn:T; [|discriminate].
      destruct (IH _ _ _ _ P) as [Ea Ew]. split.
      + destruct m; exact Ea.
      + intros k. eapply same_but_resq_trans; [apply Ew|]. unfold upd. destruct (Nat.eqb k w) eqn:E; [|repeat split].
        apply Nat.eqb_eq in E. subst k. eapply take_msg_same; eauto.
  Qed.

  Lemma poll_never_raises_l : forall st taken st', step c st (OPoll taken) = Some st' ->
    (exists i, pc st = PVisit i /\ pc st' = PPolled i) /\
    o st' = fold_left (fun a s => add_done s a) (polled_dones taken) (o st) /\
    (forall w, same_but_resq (ws st' w) (ws st w)) /\
    sc st' = sc st /\ tasks st' = tasks st /\ flight st' = flight st /\ sent st' = sent st /\ replies st' = replies st /\
    dropfail st' = dropfail st /\ undelivered st' = undelivered st.
  Proof.
    intros st taken st' S. cbn in S. destruct (pc st) eqn:Epc; try discriminate S. destruct (nth_error p i); [|discriminate S].
    destruct (_ && _ && _ && _); [|discriminate S]. destruct (poll (ws st) (o st) taken) as [[f a']|] eqn:P; [|discriminate S].
    inv_some S. destruct (poll_shape _ _ _ _ _ P) as [Ea Ew]. cbn. split; [exists i; split; reflexivity|]. repeat split; auto; apply Ew.
  Qed.

  (* ---------------------------------------------------------------------------------------------------------------- *)
  (* (c) *)
  (* poll only looks at the workers it names *)
  Lemma poll_frame : forall taken f g a f' a', poll f a taken = Some (f', a') -> (forall k, In k (map fst taken) -> g k = f k) ->
    exists g', poll g a taken = Some (g', a') /\ (forall k, In k (map fst taken) -> g' k = f' k) /\
               (forall k, ~ In k (map fst taken) -> g' k = g k /\ f' k = f k).
  Proof.
    induction taken as [|[w m] t IH]; intros f g a f' a' P Hfg; cbn in P.
    - inversion P; subst. exists g. cbn. split; [reflexivity | split; [intros k [] | intros k _; split; reflexivity]].
    - cbn. rewrite (Hfg w (or_introl eq_refl)). destruct (spawned (phase (f w))); [|discriminate].
      destruct (take_msg (f w) m) as [x|] eqn:T; [|discriminate].
      destruct (IH (upd f w x) (upd g w x) _ f' a' P) as (g' & Pg & In' & Out').
      { intros k X. unfold upd. destruct (Nat.eqb k w); [reflexivity | apply Hfg; right; exact X]. }
      exists g'. split; [exact Pg|]. split.
      + intros k [X|X]; [cbn in X; subst k|apply In', X].
        destruct (in_dec Nat.eq_dec w (map fst t)) as [Y|Y]; [apply In', Y|].
        destruct (Out' w Y) as [A B]. rewrite A, B, !upd_same. reflexivity.
      + intros k X. assert (Xt : ~ In k (map fst t)) by (intros Y; apply X; right; exact Y).
        assert (Ne : k <> w) by (intros ->; apply X; left; reflexivity).
        destruct (Out' k Xt) as [A B]. rewrite A, B, !upd_other by exact Ne. split; reflexivity.
  Qed.

  Lemma poll_app : forall pre post f a f' a', poll f a (pre ++ post) = Some (f', a') <->
    exists f1 a1, poll f a pre = Some (f1, a1) /\ poll f1 a1 post = Some (f', a').
  Proof.
    induction pre as [|[w m] t IH]; intros post f a f' a'; cbn.
    - split; [intros P; exists f, a; split; [reflexivity | exact P] | intros (f1 & a1 & E & P); inversion E; subst; exact P].
    - destruct (spawned (phase (f w))); [|split; [discriminate | intros (f1 & a1 & E & _); discriminate]].
      destruct (take_msg (f w) m) as [x|]; [apply IH | split; [discriminate | intros (f1 & a1 & E & _); discriminate]].
  Qed.

  Lemma stale_ack_only_queue_l : forall st pre w post st', step c st (OPoll (pre ++ (w, RDropComplete) :: post)) = Some st' ->
    exists st'', step c st (OPoll (pre ++ post)) = Some st'' /\ differ_by_ack st' st'' w.
  Proof.
    intros st pre w post st' S. cbn in S |- *. destruct (pc st) eqn:Epc; try discriminate S. destruct (nth_error p i) as [s|]; [|discriminate S].
    destruct (negb (is_fin s (o st)) && cur_running s (o st)) eqn:G0; [|discriminate S]. cbn [andb] in S |- *.
    destruct (nodupb (map fst (pre ++ (w, RDropComplete) :: post))) eqn:Nd; [|discriminate S]. cbn [andb] in S |- *.
    apply nodupb_NoDup in Nd. rewrite map_app in Nd. cbn in Nd. destruct (NoDup_remove_mid _ _ _ Nd) as [Nd' Hw]. rewrite <- map_app in Nd', Hw.
    rewrite (NoDup_nodupb _ Nd'). cbn [andb].
    assert (Em : mp c = true).
    { destruct (mp c); [reflexivity|]. destruct pre; discriminate S. }
    rewrite Em in *. cbn [orb] in S |- *.
    destruct (poll (ws st) (o st) (pre ++ (w, RDropComplete) :: post)) as [[f' a']|] eqn:P; [|discriminate S]. inv_some S.
    apply poll_app in P. destruct P as (f1 & a1 & P1 & P2). cbn in P2.
    destruct (spawned (phase (f1 w))); [|discriminate P2]. destruct (take_msg (f1 w) RDropComplete) as [x|] eqn:T; [|discriminate P2].
    (* the acknowledgement is at the head of w's lane *)
    assert (Tx : exists r, resq (f1 w) = RDropComplete :: r /\ x = set_resq (f1 w) r (requeued (f1 w))).
    { unfold take_msg in T. destruct (resq (f1 w)) as [|h r]; [discriminate T|]. destruct (rmsg_eqb h RDropComplete) eqn:Eh; [|discriminate T].
      apply rmsg_eqb_eq in Eh. subst h. inv_some T. exists r. split; reflexivity. }
    destruct Tx as (r & Er & Ex).
    assert (Hwp : ~ In w (map fst post)) by (intros X; apply Hw; rewrite map_app; apply in_or_app; right; exact X).
    destruct (poll_frame post (upd f1 w x) f1 a1 f' a' P2) as (g' & Pg & In' & Out').
    { intros k X. unfold upd. destruct (Nat.eqb k w) eqn:E; [apply Nat.eqb_eq in E; subst k; contradiction | reflexivity]. }
    assert (P' : poll (ws st) (o st) (pre ++ post) = Some (g', a')) by (apply poll_app; exists f1, a1; split; assumption).
    rewrite P'. eexists. split; [reflexivity|]. unfold differ_by_ack; cbn.
    destruct (Out' w Hwp) as [Gw Fw]. rewrite upd_same in Fw.
    repeat split; auto.
    - intros k Ne. destruct (in_dec Nat.eq_dec k (map fst post)) as [X|X]; [symmetry; apply In', X|].
      destruct (Out' k X) as [A B]. rewrite A, B. apply upd_other. exact Ne.
    - rewrite Fw, Gw, Ex. reflexivity.
    - rewrite Fw, Gw, Ex. reflexivity.
    - rewrite Fw, Gw, Ex. reflexivity.
    - rewrite Fw, Gw, Ex. reflexivity.
    - rewrite Fw, Gw, Ex. reflexivity.
    - rewrite Fw, Gw, Ex. reflexivity.
    - rewrite Fw, Gw, Ex. cbn. exact Er.
  Qed.
End Stale.
