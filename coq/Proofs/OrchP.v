From Coq Require Import List Bool Arith Lia Permutation.
Import ListNotations.
Require Import MV.Model.Orch.

(* ---------- small set lemmas ---------- *)
Lemma mem_In : forall x l, mem x l = true <-> In x l.
Proof.
  intros x l. unfold mem. rewrite existsb_exists. split.
  - intros [y [Hy E]]. apply Nat.eqb_eq in E. subst; exact Hy.
  - intros H. exists x. split; [exact H | apply Nat.eqb_refl].
Qed.
Lemma mem_false : forall x l, mem x l = false <-> ~ In x l.
Proof. intros. rewrite <- mem_In. destruct (mem x l); split; congruence. Qed.
Lemma subset_incl : forall a b, subset a b = true <-> incl a b.
Proof.
  intros a b. unfold subset. rewrite forallb_forall. unfold incl. split; intros H x Hx; specialize (H x Hx); apply mem_In; exact H.
Qed.
Lemma disjoint_spec : forall a b, disjoint a b = true <-> forall x, In x a -> ~ In x b.
Proof.
  intros a b. unfold disjoint. rewrite forallb_forall. split; intros H x Hx; specialize (H x Hx).
  - apply negb_true_iff in H. apply mem_false; exact H.
  - apply negb_true_iff. apply mem_false; exact H.
Qed.
Lemma remove_all_In : forall a l x, In x (remove_all a l) <-> In x l /\ ~ In x a.
Proof.
  intros a l x. unfold remove_all. rewrite filter_In, negb_true_iff, mem_false. tauto.
Qed.

Section Orch.
  Variables (stream inline : bool) (fails : nat -> bool) (p : plan).
  Notation visit := (visit inline fails).
  Notation apply := (apply stream inline fails p).
  Notation run := (run stream inline fails p).

  (* ---------- shape of visit ---------- *)
  Inductive vcase (st : ost) (s : step) : ost -> Prop :=
  | v_skip : vcase st s st
  | v_finish : mem (sid s) (done st) = true -> cur_running s st = true -> subset (uuids s) (finished st) = false ->
      vcase st s {| finished := uuids s ++ finished st; running := remove_all (uuids s) (running st); started := started st;
                    done := done st; failed := failed st;
                    results := if collects s then sid s :: results st else results st;
                    yielded := yielded st; scans := scans st |}
  | v_start : forall d f, subset (req s) (finished st) = true -> disjoint (uuids s) (running st) = true ->
      cur_running s st = false -> subset (uuids s) (finished st) = false ->
      (d = done st \/ d = sid s :: done st) -> (f = failed st \/ (f = sid s :: failed st /\ d = done st)) ->
      (inline = false -> d = done st /\ f = failed st) ->
      (inline = true -> (fails (sid s) = true /\ d = done st /\ f = sid s :: failed st) \/
                        (fails (sid s) = false /\ d = sid s :: done st /\ f = failed st)) ->
      vcase st s {| finished := finished st; running := uuids s ++ running st;
                    started := (sid s, (finished st, done st)) :: started st;
                    done := d; failed := f; results := results st; yielded := yielded st; scans := scans st |}.

  Lemma visit_cases : forall st s, vcase st s (visit st s).
  Proof.
    intros st s. unfold Orch.visit.
    destruct (subset (uuids s) (finished st)) eqn:E1; [constructor|].
    destruct (cur_running s st) eqn:E2.
    - destruct (mem (sid s) (done st)) eqn:E3; [apply v_finish; assumption | constructor].
    - destruct (subset (req s) (finished st) && disjoint (uuids s) (running st)) eqn:E3; [|constructor].
      apply andb_true_iff in E3. destruct E3 as [E3 E4].
      apply v_start; try assumption.
      + destruct inline; [destruct (fails (sid s))|]; auto.
      + destruct inline; [destruct (fails (sid s))|]; auto.
      + intros ->. auto.
      + intros ->. destruct (fails (sid s)); auto.
  Qed.

  (* ---------- generic lifting of invariants ---------- *)
  Definition stable (I : ost -> Prop) : Prop :=
    (forall st s, In s p -> I st -> I (visit st s)) /\
    (forall st, I st -> I (bump st)) /\ (forall st, I st -> I (drain st)) /\
    (forall st s ok, I st -> I (worker_done st s ok)).

  Lemma fold_visit_inv : forall (I : ost -> Prop), (forall st s, In s p -> I st -> I (visit st s)) ->
    forall l st, incl l p -> I st -> I (fold_left visit l st).
  Proof.
    intros I H l. induction l as [|s l IH]; intros st Hl Hi; [exact Hi|]. cbn.
    apply IH; [intros x Hx; apply Hl; right; exact Hx | apply H; [apply Hl; left; reflexivity | exact Hi]].
  Qed.

  Lemma apply_inv : forall (I : ost -> Prop), stable I -> forall st e, I st -> I (apply st e).
  Proof.
    intros I (Hv & Hb & Hd & Hw) st e Hi. destruct e as [|s ok]; cbn.
    - unfold scan. destruct (loop_head p st); try exact Hi.
      assert (I (bump (fold_left visit p st))) by (apply Hb, fold_visit_inv; auto using incl_refl).
      destruct stream; [apply Hd|]; assumption.
    - destruct inline; [exact Hi | apply Hw; exact Hi].
  Qed.

  Lemma run_inv : forall (I : ost -> Prop), stable I -> I init -> forall es, I (run es).
  Proof.
    intros I Hs H0 es. unfold Orch.run. revert H0. generalize init. induction es as [|e es IH]; intros st H0; [exact H0|].
    cbn. apply IH. apply apply_inv; assumption.
  Qed.

  (* ---------- monotonicity ---------- *)
  Lemma visit_mono : forall st s,
    incl (finished st) (finished (visit st s)) /\ incl (done st) (done (visit st s)) /\
    incl (failed st) (failed (visit st s)) /\ incl (started st) (started (visit st s)).
  Proof.
    intros st s. destruct (visit_cases st s) as [| |d f ? ? ? ? Hd Hf _ _]; cbn; repeat split; try apply incl_refl;
      try (apply incl_appr, incl_refl); try (apply incl_tl, incl_refl).
    - destruct Hd as [->| ->]; [apply incl_refl | apply incl_tl, incl_refl].
    - destruct Hf as [->| [-> _]]; [apply incl_refl | apply incl_tl, incl_refl].
  Qed.

  (* ---------- I1: every recorded start satisfied its requirements, from completed producers ---------- *)
  Definition start_ok (e : nat * (list nat * list nat)) : Prop :=
    let '(i, (fs, ds)) := e in
    exists s, In s p /\ sid s = i /\ incl (req s) fs /\
              forall u, In u fs -> exists s', In s' p /\ In u (uuids s') /\ In (sid s') ds.

  Definition I1 (st : ost) : Prop :=
    (forall e, In e (started st) -> start_ok e) /\
    (forall u, In u (finished st) -> exists s', In s' p /\ In u (uuids s') /\ In (sid s') (done st)).

  Lemma I1_stable : stable I1.
  Proof.
    repeat split.
    - destruct H0 as [Hs Hf]. intros e He.
      destruct (visit_cases st s) as [| |d f Hreq ? ? ? Hd Hfl _ _]; cbn in He; auto.
      destruct He as [<-|He]; auto. cbn. exists s. repeat split; auto. apply subset_incl; exact Hreq.
    - destruct H0 as [Hs Hf]. intros u Hu.
      destruct (visit_cases st s) as [|Hdone ? ?|d f Hreq ? ? ? Hd Hfl _ _]; cbn in Hu |- *; auto.
      + apply in_app_or in Hu. destruct Hu as [Hu|Hu]; auto. exists s. repeat split; auto. apply mem_In; exact Hdone.
      + destruct (Hf u Hu) as (s' & ? & ? & Hd'). exists s'. repeat split; auto.
        destruct Hd as [->| ->]; [exact Hd' | right; exact Hd'].
    - exact (proj1 H).
    - exact (proj2 H).
    - exact (proj1 H).
    - exact (proj2 H).
    - destruct H as [Hs Hf]. intros e He. unfold worker_done in He.
      destruct (mem s (started_ids st) && negb (mem s (done st)) && negb (mem s (failed st))); cbn in He; auto.
    - destruct H as [Hs Hf]. intros u Hu. unfold worker_done in *.
      destruct (mem s (started_ids st) && negb (mem s (done st)) && negb (mem s (failed st))); cbn in *; auto.
      destruct (Hf u Hu) as (s' & ? & ? & Hd'). exists s'. repeat split; auto. destruct ok; [right|]; exact Hd'.
  Qed.

  Lemma start_requires_l : forall es e, In e (started (run es)) -> start_ok e.
  Proof. intros es. apply (run_inv I1 I1_stable). split; intros ? []. Qed.

  Lemma finished_sound_l : forall es u, In u (finished (run es)) ->
    exists s', In s' p /\ In u (uuids s') /\ In (sid s') (done (run es)).
  Proof. intros es. apply (run_inv I1 I1_stable). split; intros ? []. Qed.

  (* ---------- I2: completion / failure is reported only for started steps, never both ---------- *)
  Definition I2 (st : ost) : Prop :=
    incl (done st) (started_ids st) /\ incl (failed st) (started_ids st) /\
    (forall x, In x (done st) -> ~ In x (failed st)) /\
    (inline = true -> forall x, In x (failed st) -> fails x = true) /\
    (inline = true -> forall x, In x (started_ids st) -> In x (done st) \/ In x (failed st)).

  Lemma started_ids_visit : forall st s, incl (started_ids st) (started_ids (visit st s)).
  Proof. intros st s. unfold started_ids. apply incl_map. apply (visit_mono st s). Qed.

  Hypothesis sid_inj : forall s s', In s p -> In s' p -> sid s = sid s' -> s = s'.
  Hypothesis uuids_nonempty : forall s, In s p -> uuids s <> [].
  Hypothesis uuids_disjoint : forall s s' u, In s p -> In s' p -> In u (uuids s) -> In u (uuids s') -> s = s'.

  (* ---------- I3: a step's uuids enter `running` when it starts and move to `finished` together ---------- *)
  Definition I3 (st : ost) : Prop :=
    NoDup (started_ids st) /\
    forall s, In s p ->
      (In (sid s) (started_ids st) -> incl (uuids s) (running st) \/ incl (uuids s) (finished st)) /\
      (~ In (sid s) (started_ids st) -> forall u, In u (uuids s) -> ~ In u (running st) /\ ~ In u (finished st)).

  Lemma cur_running_In : forall s st, cur_running s st = true -> exists u, In u (uuids s) /\ In u (running st).
  Proof.
    intros s st H. unfold cur_running in H. destruct (uuids s) as [|u t]; [discriminate|].
    exists u. split; [left; reflexivity | apply mem_In; exact H].
  Qed.
  Lemma cur_running_false : forall s st, In s p -> cur_running s st = false -> exists u, In u (uuids s) /\ ~ In u (running st).
  Proof.
    intros s st Hs H. unfold cur_running in H. pose proof (uuids_nonempty s Hs). destruct (uuids s) as [|u t]; [congruence|].
    exists u. split; [left; reflexivity | apply mem_false; exact H].
  Qed.
  Lemma not_subset : forall a b, subset a b = false -> exists u, In u a /\ ~ In u b.
  Proof.
    intros a b H. unfold subset in H. induction a as [|x a IH]; [discriminate|]. cbn in H.
    destruct (mem x b) eqn:E; cbn in H.
    - destruct (IH H) as [u [Hu Hn]]. exists u. split; [right|]; assumption.
    - exists x. split; [left; reflexivity | apply mem_false; exact E].
  Qed.

  Lemma not_started_when_startable : forall st s, I3 st -> In s p -> cur_running s st = false ->
    subset (uuids s) (finished st) = false -> ~ In (sid s) (started_ids st).
  Proof.
    intros st s [_ H3] Hs Hc Hf Hin. destruct (H3 s Hs) as [Ha _]. destruct (Ha Hin) as [Hr|Hfin].
    - destruct (cur_running_false s st Hs Hc) as [u [Hu Hn]]. apply Hn, Hr, Hu.
    - destruct (not_subset _ _ Hf) as [u [Hu Hn]]. apply Hn, Hfin, Hu.
  Qed.

  Lemma I3_visit : forall st s, In s p -> I3 st -> I3 (visit st s).
  Proof.
    intros st s Hs HI. pose proof HI as [Hnd H3].
    destruct (visit_cases st s) as [|Hdone Hc Hf|d f Hrq Hdj Hc Hf _ _ _ _].
    - exact HI.
    - (* finish *)
      split; [exact Hnd|]. intros t Ht. cbn. split.
      + intros Hin. destruct (Nat.eq_dec (sid t) (sid s)) as [E|E].
        * assert (t = s) by (apply sid_inj; auto). subst t. right. apply incl_appl, incl_refl.
        * destruct (proj1 (H3 t Ht) Hin) as [Hr|Hfin]; [left | right; apply incl_appr; exact Hfin].
          intros u Hu. apply remove_all_In. split; [apply Hr, Hu|]. intros Hus.
          apply E. f_equal. apply (uuids_disjoint t s u); auto.
      + intros Hnin u Hu. destruct (proj2 (H3 t Ht) Hnin u Hu) as [Hr Hfin]. split.
        * intros Hx. apply remove_all_In in Hx. tauto.
        * intros Hx. apply in_app_or in Hx. destruct Hx as [Hx|Hx]; [|tauto].
          assert (t = s) by (apply (uuids_disjoint t s u); auto). subst t.
          destruct (cur_running_In s st Hc) as [v [Hv Hvr]]. exact (proj1 (proj2 (H3 s Hs) Hnin v Hv) Hvr).
    - (* start *)
      pose proof (not_started_when_startable st s HI Hs Hc Hf) as Hnew.
      split; [unfold started_ids; cbn; constructor; assumption|]. intros t Ht. unfold started_ids; cbn. split.
      + intros [E|Hin].
        * assert (t = s) by (apply sid_inj; auto). subst t. left. apply incl_appl, incl_refl.
        * destruct (proj1 (H3 t Ht) Hin) as [Hr|Hfin]; [left; apply incl_appr; exact Hr | right; exact Hfin].
      + intros Hnin u Hu. assert (Hne : sid s <> sid t) by tauto.
        assert (Hnin' : ~ In (sid t) (started_ids st)) by (unfold started_ids; tauto).
        destruct (proj2 (H3 t Ht) Hnin' u Hu) as [Hr Hfin]. split; [|exact Hfin].
        intros Hx. apply in_app_or in Hx. destruct Hx as [Hx|Hx]; [|tauto].
        apply Hne. f_equal. apply (uuids_disjoint s t u); auto.
  Qed.

  Lemma I3_stable : stable I3.
  Proof.
    split; [exact I3_visit|]. split; [intros st H; exact H|]. split; [intros st H; exact H|].
    intros st s ok H. unfold worker_done.
    destruct (mem s (started_ids st) && negb (mem s (done st)) && negb (mem s (failed st))); exact H.
  Qed.

  Lemma I3_init : I3 init.
  Proof. split; [constructor|]. intros s Hs. split; [intros [] | intros _ u _; split; intros []]. Qed.

  Lemma start_once_l : forall es, NoDup (started_ids (run es)).
  Proof. intros es. apply (run_inv I3 I3_stable I3_init). Qed.

  (* ---------- I2 ---------- *)
  Lemma I2_visit : forall st s, In s p -> I3 st -> I2 st -> I2 (visit st s).
  Proof.
    intros st s Hs HI3 (H1 & H2 & H3 & H4 & H5).
    destruct (visit_cases st s) as [|Hdone Hc Hf|d f Hrq Hdj Hc Hf Hd Hfl Hni Hi].
    - repeat split; assumption.
    - repeat split; assumption.
    - pose proof (not_started_when_startable st s HI3 Hs Hc Hf) as Hnew.
      assert (Hnd : ~ In (sid s) (done st)) by (intros X; apply Hnew, H1, X).
      assert (Hnf : ~ In (sid s) (failed st)) by (intros X; apply Hnew, H2, X).
      unfold I2, started_ids; cbn. repeat split.
      + destruct Hd as [->| ->]; [apply incl_tl; exact H1 | apply incl_cons; [left; reflexivity | apply incl_tl; exact H1]].
      + destruct Hfl as [->| [-> _]]; [apply incl_tl; exact H2 | apply incl_cons; [left; reflexivity | apply incl_tl; exact H2]].
      + intros x Hx Hy. destruct Hfl as [->| [-> ->]].
        * destruct Hd as [->| ->]; [exact (H3 x Hx Hy)|]. destruct Hx as [<-|Hx]; [exact (Hnf Hy) | exact (H3 x Hx Hy)].
        * destruct Hy as [<-|Hy]; [exact (Hnd Hx) | exact (H3 x Hx Hy)].
      + intros Ei x Hx. destruct (Hi Ei) as [(Hfa & -> & ->)|(Hfa & -> & ->)].
        * destruct Hx as [<-|Hx]; [exact Hfa | exact (H4 Ei x Hx)].
        * exact (H4 Ei x Hx).
      + intros Ei x Hx. destruct (Hi Ei) as [(Hfa & -> & ->)|(Hfa & -> & ->)].
        * destruct Hx as [<-|Hx]; [right; left; reflexivity|]. destruct (H5 Ei x Hx); [left | right; right]; assumption.
        * destruct Hx as [<-|Hx]; [left; left; reflexivity|]. destruct (H5 Ei x Hx); [left; right | right]; assumption.
  Qed.

  Definition I23 (st : ost) : Prop := I3 st /\ I2 st.

  Lemma I23_stable : stable I23.
  Proof.
    split; [intros st s Hs [H3 H2]; split; [apply I3_visit | apply I2_visit]; assumption|].
    split; [intros st H; exact H|]. split; [intros st H; exact H|].
    intros st s ok [H3 (H1 & H2 & H3' & H4 & H5)]. split; [apply I3_stable; exact H3|].
    unfold worker_done. destruct (mem s (started_ids st) && negb (mem s (done st)) && negb (mem s (failed st))) eqn:E.
    - apply andb_true_iff in E. destruct E as [E Ef]. apply andb_true_iff in E. destruct E as [Es Ed].
      apply mem_In in Es. apply negb_true_iff in Ed, Ef. apply mem_false in Ed, Ef.
      unfold I2, started_ids; cbn. repeat split.
      + destruct ok; [apply incl_cons; assumption | assumption].
      + destruct ok; [assumption | apply incl_cons; assumption].
      + intros x Hx Hy. destruct ok.
        * destruct Hx as [<-|Hx]; [exact (Ef Hy) | exact (H3' x Hx Hy)].
        * destruct Hy as [<-|Hy]; [exact (Ed Hx) | exact (H3' x Hx Hy)].
      + intros Ei x Hx. destruct ok; [exact (H4 Ei x Hx)|]. destruct Hx as [<-|Hx]; [|exact (H4 Ei x Hx)].
        destruct (H5 Ei s Es); contradiction.
      + intros Ei x Hx. destruct (H5 Ei x Hx); destruct ok; cbn; auto.
    - repeat split; assumption.
  Qed.

  Lemma I23_init : I23 init.
  Proof.
    split; [exact I3_init|]. unfold I2, init, started_ids; cbn.
    split; [intros x []|]. split; [intros x []|]. split; [intros x []|]. split; intros _ x [].
  Qed.

  Lemma I23_run : forall es, I23 (run es).
  Proof. intros es. apply (run_inv I23 I23_stable I23_init). Qed.

  (* ---------- errors ---------- *)
  Lemma failed_mono_apply : forall st e, incl (failed st) (failed (apply st e)).
  Proof.
    intros st e. destruct e as [|s ok]; cbn.
    - unfold scan. destruct (loop_head p st); try apply incl_refl.
      assert (H : incl (failed st) (failed (fold_left visit p st))).
      { generalize p st. intros l. induction l as [|x l IH]; intros st0; [apply incl_refl|]. cbn.
        eapply incl_tran; [|apply IH]. apply (visit_mono st0 x). }
      destruct stream; exact H.
    - destruct inline; [apply incl_refl|]. unfold worker_done.
      destruct (mem s (started_ids st) && negb (mem s (done st)) && negb (mem s (failed st))); cbn; [|apply incl_refl].
      destruct ok; [apply incl_refl | apply incl_tl, incl_refl].
  Qed.

  Lemma failed_mono_run : forall es es', incl (failed (run es)) (failed (run (es ++ es'))).
  Proof.
    intros es es'. unfold Orch.run. rewrite fold_left_app. generalize (fold_left apply es init).
    induction es' as [|e es' IH]; intros st; [apply incl_refl|]. cbn. eapply incl_tran; [apply failed_mono_apply | apply IH].
  Qed.

  (* once a failure is recorded, every later loop head raises: no normal exit, no further iteration *)
  Lemma error_no_normal_exit_l : forall es es' x, In x (failed (run es)) -> loop_head p (run (es ++ es')) = Raised.
  Proof.
    intros es es' x Hx. pose proof (failed_mono_run es es' x Hx) as H. unfold loop_head.
    destruct (failed (run (es ++ es'))); [destruct H | reflexivity].
  Qed.

  Lemma raised_scan_id : forall st, loop_head p st = Raised -> scan stream inline fails p st = st.
  Proof. intros st H. unfold scan. rewrite H. reflexivity. Qed.

  Lemma worker_done_started : forall st s ok, started (worker_done st s ok) = started st.
  Proof.
    intros st s ok. unfold worker_done.
    destruct (mem s (started_ids st) && negb (mem s (done st)) && negb (mem s (failed st))); reflexivity.
  Qed.

  (* after a failure no step is started any more *)
  Lemma error_stops_starts_l : forall es es' x, In x (failed (run es)) -> started (run (es ++ es')) = started (run es).
  Proof.
    intros es es' x Hx. induction es' as [|e es' IH] using rev_ind; [rewrite app_nil_r; reflexivity|].
    rewrite app_assoc. unfold Orch.run at 1. rewrite fold_left_app. cbn. fold (run (es ++ es')).
    rewrite <- IH. destruct e as [|s ok]; cbn.
    - rewrite raised_scan_id; [reflexivity|]. eapply error_no_normal_exit_l; exact Hx.
    - destruct inline; [reflexivity|]. apply worker_done_started.
  Qed.

  (* the reported failure belongs to a step that was started (and, in SYNC, whose execution did raise) *)
  Lemma error_origin_l : forall es x, In x (failed (run es)) ->
    In x (started_ids (run es)) /\ ~ In x (done (run es)) /\ (inline = true -> fails x = true).
  Proof.
    intros es x Hx. destruct (I23_run es) as [_ (H1 & H2 & H3 & H4 & H5)]. repeat split.
    - apply H2, Hx.
    - intros Hd. exact (H3 x Hd Hx).
    - intros Ei. apply H4; assumption.
  Qed.

  (* a failing step's uuids never become finished, so its dependants never start *)
  Lemma failed_never_finished_l : forall es s, In s p -> In (sid s) (failed (run es)) ->
    forall u, In u (uuids s) -> ~ In u (finished (run es)).
  Proof.
    intros es s Hs Hf u Hu Hfin. destruct (finished_sound_l es u Hfin) as (s' & Hs' & Hu' & Hd).
    assert (s' = s) by (apply (uuids_disjoint s' s u); auto). subst s'.
    destruct (I23_run es) as [_ (_ & _ & H3 & _)]. exact (H3 _ Hd Hf).
  Qed.

  (* ---------- normal exit: every step ran exactly once and completed ---------- *)
  Lemma exit_all_done_l : forall es, loop_head p (run es) = ExitNormal ->
    forall s, In s p -> In (sid s) (started_ids (run es)) /\ In (sid s) (done (run es)) /\ failed (run es) = [].
  Proof.
    intros es Hex s Hs. unfold loop_head in Hex.
    destruct (failed (run es)) eqn:Ef; [|discriminate]. destruct (finished (run es)) eqn:Efin; [discriminate|].
    destruct (subset (all_uuids p) (n :: l)) eqn:Esub; [|discriminate]. rewrite <- Efin in Esub.
    apply subset_incl in Esub.
    assert (Hall : forall u, In u (uuids s) -> In u (finished (run es))).
    { intros u Hu. apply Esub. unfold all_uuids. apply in_flat_map. exists s; auto. }
    assert (Hex1 : exists u, In u (uuids s)).
    { pose proof (uuids_nonempty s Hs) as Hne. destruct (uuids s) as [|u t]; [congruence | exists u; left; reflexivity]. }
    destruct (I23_run es) as [[_ H3] _]. repeat split.
    - destruct (in_dec Nat.eq_dec (sid s) (started_ids (run es))) as [Hin|Hnin]; [exact Hin|].
      destruct Hex1 as [u Hu]. exfalso. apply (proj2 (proj2 (H3 s Hs) Hnin u Hu)). apply Hall. exact Hu.
    - destruct Hex1 as [u Hu]. destruct (finished_sound_l es u (Hall u Hu)) as (s' & Hs' & Hu' & Hd).
      assert (s' = s) by (apply (uuids_disjoint s' s u); auto). subst s'. exact Hd.
  Qed.

  (* ---------- results: collected once, only for completed requested FG steps ---------- *)
  Definition I5 (st : ost) : Prop :=
    NoDup (results st ++ yielded st) /\
    forall x, In x (results st ++ yielded st) ->
      exists s, In s p /\ sid s = x /\ collects s = true /\ In x (done st) /\ incl (uuids s) (finished st).

  Lemma I5_visit : forall st s, In s p -> I5 st -> I5 (visit st s).
  Proof.
    intros st s Hs [Hnd H5]. destruct (visit_cases st s) as [|Hdone Hc Hf|d f Hrq Hdj Hc Hf Hd _ _ _].
    - split; assumption.
    - cbn. destruct (collects s) eqn:Ec.
      + split.
        * cbn. constructor; [|exact Hnd]. intros Hin. destruct (H5 _ Hin) as (s' & Hs' & E & _ & _ & Hfin).
          assert (s' = s) by (apply sid_inj; auto). subst s'. apply subset_incl in Hfin. congruence.
        * intros x [<-|Hx].
          -- exists s. repeat split; auto. apply mem_In; exact Hdone. apply incl_appl, incl_refl.
          -- destruct (H5 x Hx) as (s' & ? & ? & ? & ? & Hfin). exists s'. repeat split; auto. apply incl_appr; exact Hfin.
      + split; [exact Hnd|]. intros x Hx. destruct (H5 x Hx) as (s' & ? & ? & ? & ? & Hfin). exists s'. repeat split; auto.
        apply incl_appr; exact Hfin.
    - cbn. split; [exact Hnd|]. intros x Hx. destruct (H5 x Hx) as (s' & ? & ? & ? & Hdn & Hfin). exists s'. repeat split; auto.
      destruct Hd as [->| ->]; [exact Hdn | right; exact Hdn].
  Qed.

  Lemma I5_stable : stable I5.
  Proof.
    split; [exact I5_visit|]. split; [intros st H; exact H|]. split.
    - intros st [Hnd H5]. unfold I5, drain; cbn. split; [exact Hnd | exact H5].
    - intros st s ok [Hnd H5]. unfold worker_done.
      destruct (mem s (started_ids st) && negb (mem s (done st)) && negb (mem s (failed st))); [|split; assumption].
      cbn. split; [exact Hnd|]. intros x Hx. destruct (H5 x Hx) as (s' & ? & ? & ? & Hdn & Hfin). exists s'. repeat split; auto.
      destruct ok; [right|]; exact Hdn.
  Qed.

  Lemma results_sound_l : forall es, I5 (run es).
  Proof. intros es. apply (run_inv I5 I5_stable). split; [constructor | intros ? []]. Qed.
  (* ---------- completeness of result collection ---------- *)
  Definition I6 (st : ost) : Prop :=
    forall s, In s p -> collects s = true -> incl (uuids s) (finished st) -> In (sid s) (results st ++ yielded st).

  Lemma I6_visit : forall st s, In s p -> I3 st -> I6 st -> I6 (visit st s).
  Proof.
    intros st s Hs HI3 H6 t Ht Hct Hfin. pose proof HI3 as [_ H3].
    destruct (visit_cases st s) as [|Hdone Hc Hf|d f Hrq Hdj Hc Hf _ _ _ _]; cbn in *.
    - apply H6; assumption.
    - destruct (Nat.eq_dec (sid t) (sid s)) as [E|E].
      + assert (t = s) by (apply sid_inj; auto). subst t. rewrite Hct. left; reflexivity.
      + assert (Hfin' : incl (uuids t) (finished st)).
        { intros u Hu. specialize (Hfin u Hu). apply in_app_or in Hfin. destruct Hfin as [Hx|Hx]; [|exact Hx].
          exfalso. apply E. f_equal. apply (uuids_disjoint t s u); auto. }
        specialize (H6 t Ht Hct Hfin'). destruct (collects s); [right|]; exact H6.
    - apply H6; assumption.
  Qed.

  Definition I36 (st : ost) : Prop := I3 st /\ I6 st.
  Lemma I36_stable : stable I36.
  Proof.
    split; [intros st s Hs [H3 H6]; split; [apply I3_visit | apply I6_visit]; assumption|].
    split; [intros st H; exact H|]. split.
    - intros st [H3 H6]. split; [exact H3|]. intros s Hs Hc Hf. cbn. specialize (H6 s Hs Hc Hf). cbn in H6. exact H6.
    - intros st s ok [H3 H6]. split; [apply I3_stable; exact H3|]. unfold worker_done.
      destruct (mem s (started_ids st) && negb (mem s (done st)) && negb (mem s (failed st))); exact H6.
  Qed.

  (* at normal exit the collected results are exactly the requested feature-group steps, each once:
     the set of result tables (by step) does not depend on the back end or on the schedule *)
  Lemma exit_results_l : forall es, loop_head p (run es) = ExitNormal ->
    NoDup (results (run es) ++ yielded (run es)) /\
    forall x, In x (results (run es) ++ yielded (run es)) <-> exists s, In s p /\ sid s = x /\ collects s = true.
  Proof.
    intros es Hex. destruct (results_sound_l es) as [Hnd H5]. split; [exact Hnd|]. intros x. split.
    - intros Hx. destruct (H5 x Hx) as (s & Hs & E & Hc & _). exists s; auto.
    - intros (s & Hs & <- & Hc).
      assert (H36 : I36 (run es)).
      { apply (run_inv I36 I36_stable). split; [exact I3_init|]. intros t Ht _ Hf. exfalso.
        pose proof (uuids_nonempty t Ht). destruct (uuids t) as [|u r]; [congruence|]. exact (Hf u (or_introl eq_refl)). }
      apply (proj2 H36 s Hs Hc).
      unfold loop_head in Hex. destruct (failed (run es)); [|discriminate]. destruct (finished (run es)) eqn:Ef; [discriminate|].
      destruct (subset (all_uuids p) (n :: l)) eqn:Esub; [|discriminate]. apply subset_incl in Esub.
      intros u Hu. apply Esub. unfold all_uuids. apply in_flat_map. exists s; auto.
  Qed.
End Orch.

(* ---------- streaming vs batch: the same event trace in both variants ---------- *)
Definition sim (b s : ost) : Prop :=
  finished b = finished s /\ running b = running s /\ started b = started s /\ done b = done s /\
  failed b = failed s /\ scans b = scans s /\ results b = results s ++ yielded s /\ yielded b = [].

Lemma sim_visit : forall inline fails b s x, sim b s -> sim (visit inline fails b x) (visit inline fails s x).
Proof.
  intros inline fails b s x (H1 & H2 & H3 & H4 & H5 & H6 & H7 & H8). unfold visit, cur_running.
  rewrite H1, H2, H4. destruct (subset (uuids x) (finished s)); [repeat split; assumption|].
  destruct (match uuids x with [] => false | u :: _ => mem u (running s) end).
  - destruct (mem (sid x) (done s)); [|repeat split; assumption]. unfold sim; cbn.
    rewrite ?H1, ?H2, ?H3, ?H4, ?H5, ?H6, ?H7, ?H8. destruct (collects x); repeat split; reflexivity.
  - destruct (subset (req x) (finished s) && disjoint (uuids x) (running s)); [|repeat split; assumption].
    unfold sim; cbn. rewrite ?H1, ?H2, ?H3, ?H4, ?H5, ?H6, ?H7, ?H8. repeat split; reflexivity.
Qed.

Lemma sim_fold : forall inline fails l b s, sim b s ->
  sim (fold_left (visit inline fails) l b) (fold_left (visit inline fails) l s).
Proof. intros inline fails l. induction l as [|x l IH]; intros b s H; [exact H|]. cbn. apply IH, sim_visit, H. Qed.

Lemma sim_loop_head : forall p b s, sim b s -> loop_head p b = loop_head p s.
Proof. intros p b s (H1 & _ & _ & _ & H5 & _). unfold loop_head. rewrite H1, H5. reflexivity. Qed.

Lemma sim_apply : forall inline fails p b s e, sim b s -> sim (apply false inline fails p b e) (apply true inline fails p s e).
Proof.
  intros inline fails p b s e H. destruct e as [|x ok]; cbn.
  - unfold scan. rewrite (sim_loop_head p b s H). destruct (loop_head p s); try exact H.
    pose proof (sim_fold inline fails p b s H) as (H1 & H2 & H3 & H4 & H5 & H6 & H7 & H8).
    unfold sim, drain, bump; cbn. rewrite ?H1, ?H2, ?H3, ?H4, ?H5, ?H6, ?H7, ?H8. repeat split; rewrite ?app_nil_r; reflexivity.
  - destruct inline; [exact H|]. destruct H as (H1 & H2 & H3 & H4 & H5 & H6 & H7 & H8).
    unfold worker_done, started_ids. rewrite H3, H4, H5.
    destruct (mem x (map fst (started s)) && negb (mem x (done s)) && negb (mem x (failed s)));
      unfold sim; cbn; rewrite ?H1, ?H2, ?H3, ?H4, ?H5, ?H6, ?H7, ?H8; repeat split; reflexivity.
Qed.

(* For every plan, back end, failure oracle and event trace: what the batch run has collected equals what the
   streamed run has yielded so far plus what it still holds; everything else (starts, completions, errors, exit
   status) is identical. *)
Lemma stream_batch_sim_l : forall inline fails p es, sim (run false inline fails p es) (run true inline fails p es).
Proof.
  intros inline fails p es. unfold run.
  assert (H0 : sim init init) by (unfold sim, init; cbn; repeat split; reflexivity).
  revert H0. generalize init at 1 3. generalize init. induction es as [|e es IH]; intros s b H; [exact H|].
  cbn. apply IH, sim_apply, H.
Qed.

(* at every loop-iteration boundary the streamed run holds nothing back: everything collected has been yielded *)
Lemma apply_results_empty : forall inline fails p st e,
  results st = [] -> results (apply true inline fails p st e) = [].
Proof.
  intros inline fails p st e H. destruct e as [|x ok]; cbn.
  - unfold scan. destruct (loop_head p st); [reflexivity | exact H | exact H].
  - destruct inline; [exact H|]. unfold worker_done.
    destruct (mem x (started_ids st) && negb (mem x (done st)) && negb (mem x (failed st))); exact H.
Qed.

Lemma stream_results_empty_l : forall inline fails p es, results (run true inline fails p es) = [].
Proof.
  intros inline fails p es. unfold run. assert (H0 : results init = []) by reflexivity. revert H0. generalize init.
  induction es as [|e es IH]; intros st H; [exact H|]. cbn. apply IH, apply_results_empty, H.
Qed.

Lemma stream_equals_batch_l : forall inline fails p es,
  yielded (run true inline fails p es) = results (run false inline fails p es) /\
  loop_head p (run true inline fails p es) = loop_head p (run false inline fails p es).
Proof.
  intros inline fails p es. pose proof (stream_batch_sim_l inline fails p es) as H.
  split; [|symmetry; apply sim_loop_head; exact H].
  destruct H as (_ & _ & _ & _ & _ & _ & H7 & _). rewrite H7, stream_results_empty_l. reflexivity.
Qed.

(* the batch loop on an empty plan never exits (outside C04's quantifier; shows why `p <> []` is a premise) *)
Lemma empty_plan_spins_l : forall n, loop_head [] (run false true (fun _ => false) [] (repeat EScan n)) = Looping.
Proof.
  intros n. unfold run.
  assert (H : forall st, finished st = [] -> failed st = [] ->
              loop_head [] (fold_left (apply false true (fun _ => false) []) (repeat EScan n) st) = Looping).
  { induction n as [|n IH]; intros st Hf Hfl.
    - cbn. unfold loop_head. rewrite Hfl, Hf. reflexivity.
    - cbn [repeat fold_left]. apply IH.
      + cbn. unfold scan, loop_head. rewrite Hfl, Hf. cbn. exact Hf.
      + cbn. unfold scan, loop_head. rewrite Hfl, Hf. cbn. exact Hfl. }
  apply H; reflexivity.
Qed.
