(* The reference evaluation of Spec/RefEval.v IS a solution of the defining equations, defines every feature of an acyclic
   request, and the solution is unique on the features it defines (C02).

   Structure:
     - `rstep` = body of the fold in `round`; the environment only grows, by bindings of fresh names  (monotonicity)
     - `justified`: every binding of the environment is a source binding or was computed by a definition of the request
       from inputs looked up in the same environment - an invariant of rstep/round/ref_eval_fuel for EVERY request and
       EVERY number of rounds
     - justified + distinct names  =>  solution  (no order or acyclicity needed)
     - progress: a round defines every definition whose inputs are defined; along a dependency order `ord` (any permutation
       of defs accepted by wf_request) the k-th definition is defined after k rounds; |defs| (+1) rounds suffice
     - uniqueness by induction along the dependency order *)
From Coq Require Import List Bool ZArith Arith Lia Permutation.
Import ListNotations.
Require Import MV.Spec.RefEval MV.Spec.RefEvalWf MV.Model.DataPlane MV.Proofs.DataPlaneP.
Local Open Scope nat_scope.

(* ------------------------------------------------------------------ lists *)
Lemma memn_In : forall x l, memn x l = true <-> In x l.
Proof.
  intros x l. unfold memn. rewrite existsb_exists. split.
  - intros [y [Hy E]]. apply Nat.eqb_eq in E. subst. exact Hy.
  - intros H. exists x. split; [exact H | apply Nat.eqb_refl].
Qed.

Lemma nodupn_NoDup : forall l, nodupn l = true -> NoDup l.
Proof.
  induction l as [|x l IH]; intros H; [constructor|]. cbn in H. apply andb_true_iff in H. destruct H as [H1 H2].
  constructor; [|apply IH; exact H2]. intros X. apply memn_In in X. rewrite X in H1. discriminate H1.
Qed.

Lemma NoDup_app_parts : forall (A : Type) (l1 l2 : list A), NoDup (l1 ++ l2) ->
  NoDup l1 /\ NoDup l2 /\ forall x, In x l1 -> In x l2 -> False.
Proof.
  intros A l1. induction l1 as [|y l1 IH]; intros l2 H; cbn in H.
  - split; [constructor|]. split; [exact H|]. intros x [].
  - apply NoDup_cons_iff in H. destruct H as [N1 N2]. destruct (IH l2 N2) as (A1 & A2 & A3). split; [|split].
    + constructor; [|exact A1]. intros X. apply N1. apply in_or_app. left. exact X.
    + exact A2.
    + intros x [<-|Hx] Hx2; [apply N1; apply in_or_app; right; exact Hx2 | exact (A3 x Hx Hx2)].
Qed.

Lemma NoDup_map_inj : forall (A B : Type) (f : A -> B) l, NoDup (map f l) ->
  forall x y, In x l -> In y l -> f x = f y -> x = y.
Proof.
  intros A B f. induction l as [|a l IH]; intros ND x y Hx Hy E; [destruct Hx|].
  cbn in ND. apply NoDup_cons_iff in ND. destruct ND as [N1 N2].
  destruct Hx as [<-|Hx], Hy as [<-|Hy].
  - reflexivity.
  - exfalso. apply N1. rewrite E. apply in_map. exact Hy.
  - exfalso. apply N1. rewrite <- E. apply in_map. exact Hx.
  - exact (IH N2 x y Hx Hy E).
Qed.

(* ------------------------------------------------------------------ lookup *)
Lemma In_lookup : forall (e : env) k v, NoDup (map fst e) -> In (k, v) e -> lookup e k = Some v.
Proof.
  induction e as [|[k' v'] e IH]; intros k v ND H; [destruct H|]. cbn in *.
  apply NoDup_cons_iff in ND. destruct ND as [N1 N2]. destruct H as [H|H].
  - injection H as -> ->. rewrite Nat.eqb_refl. reflexivity.
  - destruct (Nat.eqb k' k) eqn:E.
    + apply Nat.eqb_eq in E. subst. exfalso. apply N1. apply (in_map fst) in H. exact H.
    + apply IH; assumption.
Qed.

Lemma lookup_In_fst : forall (e : env) f c, lookup e f = Some c -> In f (map fst e).
Proof. intros e f c H. apply lookup_In in H. apply (in_map fst) in H. exact H. Qed.

Lemma In_fst_defined : forall (e : env) f, In f (map fst e) -> lookup e f <> None.
Proof.
  induction e as [|[k v] e IH]; intros f H; [destruct H|]. cbn in *.
  destruct (Nat.eqb k f) eqn:E; [discriminate|]. destruct H as [H|H]; [apply Nat.eqb_neq in E; contradiction | apply IH; exact H].
Qed.

Lemma defined_mono : forall (e e' : env), (forall f c, lookup e f = Some c -> lookup e' f = Some c) ->
  forall f, lookup e f <> None -> lookup e' f <> None.
Proof.
  intros e e' H f D. destruct (lookup e f) as [c|] eqn:E; [|contradiction]. rewrite (H f c E). discriminate.
Qed.

Lemma cons_mono : forall (e : env) k v, lookup e k = None ->
  forall f c, lookup e f = Some c -> lookup ((k, v) :: e) f = Some c.
Proof.
  intros e k v Hk f c H. cbn. destruct (Nat.eqb k f) eqn:E; [|exact H]. apply Nat.eqb_eq in E. subst. congruence.
Qed.

Lemma all_some_mono : forall (e e' : env), (forall f c, lookup e f = Some c -> lookup e' f = Some c) ->
  forall ins cols, all_some (map (lookup e) ins) = Some cols -> all_some (map (lookup e') ins) = Some cols.
Proof.
  intros e e' H. induction ins as [|i ins IH]; intros cols A; cbn in *; [exact A|].
  destruct (lookup e i) as [c|] eqn:Ei; [|discriminate]. rewrite (H i c Ei).
  destruct (all_some (map (lookup e) ins)) as [r|]; [|discriminate]. rewrite (IH r eq_refl). exact A.
Qed.

Lemma all_some_defined : forall (e : env) ins, (forall i, In i ins -> lookup e i <> None) ->
  exists cols, all_some (map (lookup e) ins) = Some cols.
Proof.
  intros e. induction ins as [|i ins IH]; intros H; cbn; [exists []; reflexivity|].
  destruct (lookup e i) as [c|] eqn:Ei; [|exfalso; apply (H i); [left; reflexivity | exact Ei]].
  destruct IH as [r Hr]; [intros j Hj; apply H; right; exact Hj|]. rewrite Hr. exists (c :: r). reflexivity.
Qed.

Lemma all_some_inputs : forall (e : env) ins cols, all_some (map (lookup e) ins) = Some cols ->
  forall i, In i ins -> lookup e i <> None.
Proof.
  intros e. induction ins as [|j ins IH]; intros cols A i Hi; [destruct Hi|]. cbn in A.
  destruct (lookup e j) as [c|] eqn:Ej; [|discriminate].
  destruct (all_some (map (lookup e) ins)) as [r|] eqn:Er; [|discriminate].
  destruct Hi as [<-|Hi]; [rewrite Ej; discriminate | exact (IH r eq_refl i Hi)].
Qed.

(* ------------------------------------------------------------------ one fold step; monotonicity *)
Definition rstep (n : nat) (e : env) (d : fdef) : env :=
  match lookup e (fname d) with
  | Some _ => e
  | None => match all_some (map (lookup e) (inputs d)) with
            | Some cols => (fname d, compute n d cols) :: e
            | None => e
            end
  end.

Lemma round_fold : forall n defs e, round n defs e = fold_left (rstep n) defs e.
Proof. reflexivity. Qed.

Lemma rstep_mono : forall n e d f c, lookup e f = Some c -> lookup (rstep n e d) f = Some c.
Proof.
  intros n e d f c H. unfold rstep. destruct (lookup e (fname d)) eqn:E; [exact H|].
  destruct (all_some (map (lookup e) (inputs d))); [|exact H]. apply cons_mono; assumption.
Qed.

Lemma fold_mono : forall n l e f c, lookup e f = Some c -> lookup (fold_left (rstep n) l e) f = Some c.
Proof. intros n. induction l as [|d l IH]; intros e f c H; cbn; [exact H|]. apply IH. apply rstep_mono. exact H. Qed.

Lemma round_mono : forall n defs e f c, lookup e f = Some c -> lookup (round n defs e) f = Some c.
Proof. intros n defs e f c H. rewrite round_fold. apply fold_mono. exact H. Qed.

Lemma fuel_mono : forall n defs fuel e f c, lookup e f = Some c -> lookup (ref_eval_fuel fuel n defs e) f = Some c.
Proof.
  intros n defs. induction fuel as [|fuel IH]; intros e f c H; cbn; [exact H|]. apply IH. apply round_mono. exact H.
Qed.

(* ------------------------------------------------------------------ the invariant *)
Definition justified (n : nat) (src : env) (defs : list fdef) (e : env) : Prop :=
  forall f c, lookup e f = Some c ->
    lookup src f = Some c \/
    exists d cols, In d defs /\ fname d = f /\ all_some (map (lookup e) (inputs d)) = Some cols /\ c = compute n d cols.

Lemma justified_src : forall n src defs, justified n src defs src.
Proof. intros n src defs f c H. left. exact H. Qed.

Lemma rstep_justified : forall n src defs e d, In d defs -> justified n src defs e -> justified n src defs (rstep n e d).
Proof.
  intros n src defs e d Hd J. unfold rstep. destruct (lookup e (fname d)) eqn:E; [exact J|].
  destruct (all_some (map (lookup e) (inputs d))) as [cols|] eqn:A; [|exact J].
  pose proof (cons_mono e (fname d) (compute n d cols) E) as M.
  intros f c H. cbn in H. destruct (Nat.eqb (fname d) f) eqn:Q.
  - apply Nat.eqb_eq in Q. injection H as <-. right. exists d, cols. repeat split; try assumption.
    apply (all_some_mono e _ M). exact A.
  - destruct (J f c H) as [L|(d' & cols' & H1 & H2 & H3 & H4)]; [left; exact L|].
    right. exists d', cols'. repeat split; try assumption. apply (all_some_mono e _ M). exact H3.
Qed.

Lemma fold_justified : forall n src defs l e, (forall d, In d l -> In d defs) ->
  justified n src defs e -> justified n src defs (fold_left (rstep n) l e).
Proof.
  intros n src defs. induction l as [|d l IH]; intros e Hl J; cbn; [exact J|].
  apply IH; [intros d' Hd'; apply Hl; right; exact Hd'|]. apply rstep_justified; [apply Hl; left; reflexivity | exact J].
Qed.

Lemma fuel_justified : forall n src defs fuel e, justified n src defs e -> justified n src defs (ref_eval_fuel fuel n defs e).
Proof.
  intros n src defs. induction fuel as [|fuel IH]; intros e J; cbn; [exact J|]. apply IH. rewrite round_fold.
  apply fold_justified; [auto | exact J].
Qed.

(* justified + distinct names => solution *)
Lemma justified_solution : forall n src defs e, NoDup (map fst src ++ map fname defs) ->
  (forall f c, lookup src f = Some c -> lookup e f = Some c) -> justified n src defs e -> solution n src defs e = true.
Proof.
  intros n src defs e ND M J. apply NoDup_app_parts in ND. destruct ND as (N1 & N2 & N3).
  unfold solution. apply andb_true_iff. split; apply forallb_forall.
  - intros [k v] Hin. cbn. rewrite (M k v (In_lookup src k v N1 Hin)). apply col_eqb_refl.
  - intros d Hd. destruct (lookup e (fname d)) as [c|] eqn:E; [|reflexivity].
    destruct (J _ _ E) as [L|(d' & cols & Hd' & Hf & A & ->)].
    + exfalso. apply (N3 (fname d)); [exact (lookup_In_fst src _ _ L) | apply in_map; exact Hd].
    + assert (d' = d) by (apply (NoDup_map_inj _ _ fname defs N2); assumption). subst d'.
      rewrite A. apply col_eqb_refl.
Qed.

(* for every request with distinct names and every number of rounds the iteration is a solution *)
Lemma ref_eval_fuel_solution_l : forall n src defs fuel, NoDup (map fst src ++ map fname defs) ->
  solution n src defs (ref_eval_fuel fuel n defs src) = true.
Proof.
  intros n src defs fuel ND. apply justified_solution; [exact ND | |].
  - intros f c H. apply fuel_mono. exact H.
  - apply fuel_justified. apply justified_src.
Qed.

(* ------------------------------------------------------------------ progress *)
Lemma rstep_defines : forall n e d, (forall i, In i (inputs d) -> lookup e i <> None) -> lookup (rstep n e d) (fname d) <> None.
Proof.
  intros n e d H. unfold rstep. destruct (lookup e (fname d)) eqn:E; [rewrite E; discriminate|].
  destruct (all_some_defined e (inputs d) H) as [cols A]. rewrite A. cbn. rewrite Nat.eqb_refl. discriminate.
Qed.

(* a round defines every definition all of whose inputs are defined *)
Lemma fold_progress : forall n d l e, In d l -> (forall i, In i (inputs d) -> lookup e i <> None) ->
  lookup (fold_left (rstep n) l e) (fname d) <> None.
Proof.
  intros n d. induction l as [|a l IH]; intros e Hin H; [destruct Hin|]. cbn. destruct Hin as [->|Hin].
  - apply (defined_mono (rstep n e d)); [intros f c; apply fold_mono|]. apply rstep_defines. exact H.
  - apply IH; [exact Hin|]. intros i Hi. apply (defined_mono e); [intros f c; apply rstep_mono | apply H; exact Hi].
Qed.

Lemma round_progress_l : forall n defs e d, In d defs -> (forall i, In i (inputs d) -> lookup e i <> None) ->
  lookup (round n defs e) (fname d) <> None.
Proof. intros n defs e d Hd H. rewrite round_fold. apply fold_progress; assumption. Qed.

(* along a dependency order, |l| rounds define all of l *)
Lemma fuel_complete : forall n defs l known e fuel,
  ordered known l = true -> (forall i, In i known -> lookup e i <> None) -> (forall d, In d l -> In d defs) ->
  length l <= fuel -> forall d, In d l -> lookup (ref_eval_fuel fuel n defs e) (fname d) <> None.
Proof.
  intros n defs. induction l as [|a l IH]; intros known e fuel HO HK HD HL d Hin; [destruct Hin|].
  destruct fuel as [|fuel]; [cbn in HL; lia|]. cbn [ref_eval_fuel].
  cbn in HO. apply andb_true_iff in HO. destruct HO as [HO1 HO2]. rewrite forallb_forall in HO1.
  assert (D : lookup (round n defs e) (fname a) <> None).
  { apply round_progress_l; [apply HD; left; reflexivity|]. intros i Hi. apply HK. apply memn_In. exact (HO1 i Hi). }
  destruct Hin as [<-|Hin].
  - apply (defined_mono (round n defs e)); [intros f c; apply fuel_mono | exact D].
  - apply (IH (fname a :: known) (round n defs e) fuel HO2); try assumption.
    + intros i [<-|Hi]; [exact D|]. apply (defined_mono e); [intros f c; apply round_mono | apply HK; exact Hi].
    + intros d' Hd'. apply HD. right. exact Hd'.
    + cbn in HL. lia.
Qed.

(* ------------------------------------------------------------------ [2] acyclic requests, definitions in any order *)
Lemma wf_request_parts : forall src defs ord, Permutation defs ord -> wf_request src ord = true ->
  NoDup (map fst src ++ map fname defs) /\ ordered (map fst src) ord = true.
Proof.
  intros src defs ord HP H. unfold wf_request in H. apply andb_true_iff in H. destruct H as [H1 H2]. split; [|exact H2].
  apply nodupn_NoDup in H1. apply (Permutation_NoDup (l := map fst src ++ map fname ord)); [|exact H1].
  apply Permutation_app_head. apply Permutation_map. apply Permutation_sym. exact HP.
Qed.

Lemma ref_eval_solution_acyclic_l : forall n src defs ord, Permutation defs ord -> wf_request src ord = true ->
  solution n src defs (ref_eval n src defs) = true
  /\ (forall d, In d defs -> lookup (ref_eval n src defs) (fname d) <> None)
  /\ (forall f c, lookup src f = Some c -> lookup (ref_eval n src defs) f = Some c).
Proof.
  intros n src defs ord HP H. destruct (wf_request_parts src defs ord HP H) as [ND HO]. unfold ref_eval. split; [|split].
  - apply ref_eval_fuel_solution_l. exact ND.
  - intros d Hd. apply (fuel_complete n defs ord (map fst src) src (S (length defs)) HO).
    + intros i Hi. apply In_fst_defined. exact Hi.
    + intros d' Hd'. exact (Permutation_in d' (Permutation_sym HP) Hd').
    + rewrite (Permutation_length HP). lia.
    + exact (Permutation_in d HP Hd).
  - intros f c Hs. apply fuel_mono. exact Hs.
Qed.

(* [1] definitions given in dependency order *)
Lemma ref_eval_solution_topo_l : forall n src defs, wf_request src defs = true ->
  solution n src defs (ref_eval n src defs) = true
  /\ (forall d, In d defs -> lookup (ref_eval n src defs) (fname d) <> None)
  /\ (forall f c, lookup src f = Some c -> lookup (ref_eval n src defs) f = Some c).
Proof. intros n src defs H. apply (ref_eval_solution_acyclic_l n src defs defs (Permutation_refl defs) H). Qed.

(* in dependency order ONE round suffices (the remaining rounds change nothing that is defined) *)
Lemma one_round_complete_l : forall n src defs, wf_request src defs = true ->
  forall d, In d defs -> lookup (round n defs src) (fname d) <> None.
Proof.
  intros n src defs H. unfold wf_request in H. apply andb_true_iff in H. destruct H as [_ HO].
  assert (G : forall l known e, ordered known l = true -> (forall i, In i known -> lookup e i <> None) ->
              forall d, In d l -> lookup (fold_left (rstep n) l e) (fname d) <> None).
  { induction l as [|a l IH]; intros known e HO' HK d Hin; [destruct Hin|]. cbn.
    cbn in HO'. apply andb_true_iff in HO'. destruct HO' as [HO1 HO2]. rewrite forallb_forall in HO1.
    assert (D : lookup (rstep n e a) (fname a) <> None).
    { apply rstep_defines. intros i Hi. apply HK. apply memn_In. exact (HO1 i Hi). }
    destruct Hin as [<-|Hin].
    - apply (defined_mono (rstep n e a)); [intros f c; apply fold_mono | exact D].
    - apply (IH (fname a :: known) (rstep n e a) HO2); [|exact Hin].
      intros i [<-|Hi]; [exact D|]. apply (defined_mono e); [intros f c; apply rstep_mono | apply HK; exact Hi]. }
  intros d Hd. rewrite round_fold. apply (G defs (map fst src) src HO); [|exact Hd].
  intros i Hi. apply In_fst_defined. exact Hi.
Qed.

(* exactly the source names and the definition names are bound *)
Lemma ref_eval_domain_l : forall n src defs ord, Permutation defs ord -> wf_request src ord = true ->
  forall f, lookup (ref_eval n src defs) f <> None <-> In f (map fst src) \/ In f (map fname defs).
Proof.
  intros n src defs ord HP H f. destruct (ref_eval_solution_acyclic_l n src defs ord HP H) as (_ & HC & HS). split.
  - intros D. destruct (lookup (ref_eval n src defs) f) as [c|] eqn:E; [|contradiction].
    assert (J : justified n src defs (ref_eval n src defs)) by (apply fuel_justified, justified_src).
    destruct (J f c E) as [L|(d & cols & Hd & <- & _)]; [left; exact (lookup_In_fst src f c L) | right; apply in_map; exact Hd].
  - intros [Hf|Hf].
    + destruct (lookup src f) as [c|] eqn:E; [rewrite (HS f c E); discriminate | exfalso; exact (In_fst_defined src f Hf E)].
    + apply in_map_iff in Hf. destruct Hf as [d [<- Hd]]. apply HC. exact Hd.
Qed.

(* ------------------------------------------------------------------ [3] uniqueness *)
Definition agree (e1 e2 : env) (f : nat) : Prop :=
  forall c1 c2, lookup e1 f = Some c1 -> lookup e2 f = Some c2 -> c1 = c2.

Lemma all_some_agree : forall e1 e2 ins cols1 cols2, (forall i, In i ins -> agree e1 e2 i) ->
  all_some (map (lookup e1) ins) = Some cols1 -> all_some (map (lookup e2) ins) = Some cols2 -> cols1 = cols2.
Proof.
  intros e1 e2. induction ins as [|i ins IH]; intros cols1 cols2 HA A1 A2; cbn in *; [congruence|].
  destruct (lookup e1 i) as [x1|] eqn:E1; [|discriminate]. destruct (lookup e2 i) as [x2|] eqn:E2; [|discriminate].
  destruct (all_some (map (lookup e1) ins)) as [r1|]; [|discriminate].
  destruct (all_some (map (lookup e2) ins)) as [r2|]; [|discriminate].
  injection A1 as <-. injection A2 as <-. f_equal.
  - apply (HA i (or_introl eq_refl)); assumption.
  - apply IH; [intros j Hj; apply HA; right; exact Hj | reflexivity | reflexivity].
Qed.

Lemma solution_src : forall n src defs e, solution n src defs e = true ->
  forall k, In k (map fst src) -> exists v, In (k, v) src /\ lookup e k = Some v.
Proof.
  intros n src defs e H k Hk. unfold solution in H. apply andb_true_iff in H. destruct H as [H _].
  rewrite forallb_forall in H. apply in_map_iff in Hk. destruct Hk as [[k' v] [E Hin]]. cbn in E. subst k'.
  specialize (H (k, v) Hin). cbn in H. destruct (lookup e k) as [c|]; [|discriminate]. apply col_eqb_eq in H. subst c.
  exists v. auto.
Qed.

Lemma solution_def : forall n src defs e, solution n src defs e = true ->
  forall d c, In d defs -> lookup e (fname d) = Some c ->
  exists cols, all_some (map (lookup e) (inputs d)) = Some cols /\ c = compute n d cols.
Proof.
  intros n src defs e H d c Hd E. unfold solution in H. apply andb_true_iff in H. destruct H as [_ H].
  rewrite forallb_forall in H. specialize (H d Hd). rewrite E in H.
  destruct (all_some (map (lookup e) (inputs d))) as [cols|]; [|discriminate]. apply col_eqb_eq in H. exists cols. auto.
Qed.

Lemma unique_along : forall n src defs e1 e2, solution n src defs e1 = true -> solution n src defs e2 = true ->
  forall l known, ordered known l = true -> (forall i, In i known -> agree e1 e2 i) -> (forall d, In d l -> In d defs) ->
  forall d, In d l -> agree e1 e2 (fname d).
Proof.
  intros n src defs e1 e2 S1 S2. induction l as [|a l IH]; intros known HO HK HD d Hin; [destruct Hin|].
  cbn in HO. apply andb_true_iff in HO. destruct HO as [HO1 HO2]. rewrite forallb_forall in HO1.
  assert (Ha : agree e1 e2 (fname a)).
  { intros c1 c2 E1 E2.
    destruct (solution_def n src defs e1 S1 a c1 (HD a (or_introl eq_refl)) E1) as [cols1 [A1 ->]].
    destruct (solution_def n src defs e2 S2 a c2 (HD a (or_introl eq_refl)) E2) as [cols2 [A2 ->]].
    f_equal. apply (all_some_agree e1 e2 (inputs a)); try assumption.
    intros i Hi. apply HK. apply memn_In. exact (HO1 i Hi). }
  destruct Hin as [<-|Hin]; [exact Ha|].
  apply (IH (fname a :: known) HO2); [| |exact Hin].
  - intros i [<-|Hi]; [exact Ha | apply HK; exact Hi].
  - intros d' Hd'. apply HD. right. exact Hd'.
Qed.

Lemma solution_unique_acyclic_l : forall n src defs ord e1 e2, Permutation defs ord -> wf_request src ord = true ->
  solution n src defs e1 = true -> solution n src defs e2 = true ->
  forall d, In d defs -> lookup e1 (fname d) <> None -> lookup e2 (fname d) <> None ->
  lookup e1 (fname d) = lookup e2 (fname d).
Proof.
  intros n src defs ord e1 e2 HP H S1 S2 d Hd D1 D2. destruct (wf_request_parts src defs ord HP H) as [_ HO].
  destruct (lookup e1 (fname d)) as [c1|] eqn:E1; [|contradiction].
  destruct (lookup e2 (fname d)) as [c2|] eqn:E2; [|contradiction]. f_equal.
  apply (unique_along n src defs e1 e2 S1 S2 ord (map fst src) HO) with (d := d); try assumption.
  - intros k Hk c1' c2' E1' E2'.
    destruct (solution_src n src defs e1 S1 k Hk) as [v1 [_ L1]].
    assert (L2 : lookup e2 k = Some v1).
    { unfold solution in S2. apply andb_true_iff in S2. destruct S2 as [S2 _]. rewrite forallb_forall in S2.
      destruct (solution_src n src defs e1 S1 k Hk) as [v [Hin L]]. assert (v = v1) by congruence. subst v.
      specialize (S2 (k, v1) Hin). cbn in S2. destruct (lookup e2 k) as [c|]; [|discriminate].
      apply col_eqb_eq in S2. subst. reflexivity. }
    congruence.
  - intros d' Hd'. exact (Permutation_in d' (Permutation_sym HP) Hd').
  - exact (Permutation_in d HP Hd).
Qed.

Lemma solution_unique_l : forall n src defs e1 e2,
  solution n src defs e1 = true -> solution n src defs e2 = true -> wf_request src defs = true ->
  forall d, In d defs -> lookup e1 (fname d) <> None -> lookup e2 (fname d) <> None ->
  lookup e1 (fname d) = lookup e2 (fname d).
Proof.
  intros n src defs e1 e2 S1 S2 H. apply (solution_unique_acyclic_l n src defs defs e1 e2 (Permutation_refl defs) H S1 S2).
Qed.

(* every solution that defines a feature gives it ref_eval's column *)
Lemma solution_equals_ref_eval_l : forall n src defs ord e, Permutation defs ord -> wf_request src ord = true ->
  solution n src defs e = true ->
  forall d c, In d defs -> lookup e (fname d) = Some c -> lookup (ref_eval n src defs) (fname d) = Some c.
Proof.
  intros n src defs ord e HP H S d c Hd E. destruct (ref_eval_solution_acyclic_l n src defs ord HP H) as (SR & HC & _).
  rewrite <- E. symmetry. apply (solution_unique_acyclic_l n src defs ord e (ref_eval n src defs) HP H S SR d Hd).
  - rewrite E. discriminate.
  - apply HC. exact Hd.
Qed.

(* ------------------------------------------------------------------ [4] the data plane computes ref_eval's columns *)
Lemma exec_equals_ref_eval_l : forall n src defs ord acts s', Permutation defs ord -> wf_request src ord = true ->
  forallb (action_ok src defs (ref_eval n src defs)) acts = true -> exec n [] acts = Ok s' ->
  forall o t f c, In (o, t) s' -> lookup t f = Some c -> lookup (ref_eval n src defs) f = Some c.
Proof.
  intros n src defs ord acts s' HP H Hok Hex. destruct (ref_eval_solution_acyclic_l n src defs ord HP H) as (SR & _ & _).
  exact (exec_from_empty_l n src defs (ref_eval n src defs) acts s' SR Hok Hex).
Qed.
