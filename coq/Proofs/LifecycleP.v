From Coq Require Import List Bool Arith Lia.
Import ListNotations.
Require Import MV.Model.Orch MV.Model.Lifecycle MV.Proofs.OrchP.

Lemma add_children_tracker : forall o fs, tracker (fst (add_children o fs)) = fs ++ tracker o.
Proof.
  intros o fs. unfold add_children. destruct (subset (children o) (fs ++ tracker o)); [reflexivity|].
  destruct (Nat.ltb 0 (uploads o)); reflexivity.
Qed.
Lemma add_children_children : forall o fs, children (fst (add_children o fs)) = children o.
Proof.
  intros o fs. unfold add_children. destruct (subset (children o) (fs ++ tracker o)); [reflexivity|].
  destruct (Nat.ltb 0 (uploads o)); reflexivity.
Qed.
Lemma add_children_dropped : forall o fs,
  dropped (fst (add_children o fs)) = dropped o || subset (children o) (fs ++ tracker o).
Proof.
  intros o fs. unfold add_children. destruct (subset (children o) (fs ++ tracker o)); [cbn; rewrite orb_true_r; reflexivity|].
  destruct (Nat.ltb 0 (uploads o)); cbn [fst dropped]; rewrite orb_false_r; reflexivity.
Qed.

(* invariant: dropped -> every child is in the tracker; the tracker only contains processed features *)
Lemma process_all_inv : forall fss o,
  (dropped o = true -> incl (children o) (tracker o)) ->
  let o' := process_all o fss in
  children o' = children o /\
  (dropped o' = true -> incl (children o') (tracker o')) /\
  (forall x, In x (tracker o') -> In x (tracker o) \/ exists fs, In fs fss /\ In x fs).
Proof.
  induction fss as [|fs fss IH]; intros o Hinv; cbn.
  - repeat split; auto.
  - assert (Hinv' : dropped (fst (add_children o fs)) = true ->
                    incl (children (fst (add_children o fs))) (tracker (fst (add_children o fs)))).
    { rewrite add_children_dropped, add_children_children, add_children_tracker. intros H.
      apply orb_true_iff in H. destruct H as [H|H].
      - intros x Hx. apply in_or_app. right. apply Hinv; assumption.
      - apply subset_incl; exact H. }
    destruct (IH (fst (add_children o fs)) Hinv') as (Hc & Hd & Ht). unfold process_all in *. cbn.
    rewrite add_children_children in Hc. split; [exact Hc|]. split; [exact Hd|].
    intros x Hx. destruct (Ht x Hx) as [H|[fs' [Hin Hx']]].
    + rewrite add_children_tracker in H. apply in_app_or in H. destruct H as [H|H]; [right; exists fs; split; [left; reflexivity|exact H] | left; exact H].
    + right. exists fs'. split; [right; exact Hin | exact Hx'].
Qed.

(* no premature drop: if the object's data has been dropped, every child (every feature whose step looks this object
   up) belongs to a feature-group step whose result had already been processed, i.e. which had finished *)
Lemma no_premature_drop_l : forall ch fss, dropped (process_all (new_obj ch) fss) = true ->
  forall c, In c ch -> exists fs, In fs fss /\ In c fs.
Proof.
  intros ch fss Hd c Hc.
  destruct (process_all_inv fss (new_obj ch)) as (Hch & Hdr & Ht); [cbn; discriminate|].
  cbn in Hch. rewrite Hch in Hdr. specialize (Hdr Hd c Hc). destruct (Ht c Hdr) as [H|H]; [destruct H | exact H].
Qed.

(* and the data IS dropped once every child has been processed *)
Lemma dropped_mono : forall fss o, dropped o = true -> dropped (process_all o fss) = true.
Proof.
  induction fss as [|fs fss IH]; intros o H; [exact H|]. cbn. apply IH. rewrite add_children_dropped, H. reflexivity.
Qed.
Lemma tracker_mono : forall fss o x, In x (tracker o) -> In x (tracker (process_all o fss)).
Proof.
  induction fss as [|fs fss IH]; intros o x H; [exact H|]. cbn. apply IH. rewrite add_children_tracker. apply in_or_app; right; exact H.
Qed.
Lemma drop_when_all_processed_l : forall ch fss,
  (forall c, In c ch -> exists fs, In fs fss /\ In c fs) -> fss <> [] -> dropped (process_all (new_obj ch) fss) = true.
Proof.
  intros ch fss Hall Hne.
  (* consider the last processed step: after it every child is in the tracker *)
  assert (Hgen : forall fss o, (forall c, In c (children o) -> In c (tracker o) \/ exists fs, In fs fss /\ In c fs) ->
                               fss <> [] -> dropped (process_all o fss) = true).
  { clear. induction fss as [|fs fss IH]; intros o Hall Hne; [congruence|]. cbn.
    destruct fss as [|fs2 fss2].
    - cbn. rewrite add_children_dropped. apply orb_true_iff. right. apply subset_incl. intros c Hc.
      destruct (Hall c Hc) as [H|[fs' [[<-|[]] Hx]]]; apply in_or_app; [right|left]; assumption.
    - apply IH; [|discriminate]. intros c Hc. rewrite add_children_children in Hc. rewrite add_children_tracker.
      destruct (Hall c Hc) as [H|[fs' [[<-|Hin] Hx]]].
      + left. apply in_or_app; right; exact H.
      + left. apply in_or_app; left; exact Hx.
      + right. exists fs'. split; assumption. }
  apply Hgen; [|exact Hne]. intros c Hc. right. apply Hall. exact Hc.
Qed.

(* deferred drops: a tracked dataset is dropped exactly when all the ids it waits for are finished, never before *)
Lemma drop_finished_sound_l : forall t fin c, In c (snd (drop_finished t fin)) ->
  exists ids, In (c, ids) t /\ incl ids fin.
Proof.
  intros t fin c H. unfold drop_finished in H. cbn in H. apply in_map_iff in H. destruct H as [[c' ids] [<- H]].
  apply filter_In in H. destruct H as [Hin Hs]. exists ids. split; [exact Hin | apply subset_incl; exact Hs].
Qed.
Lemma drop_finished_keeps_l : forall t fin c ids, In (c, ids) t -> ~ incl ids fin -> In (c, ids) (fst (drop_finished t fin)).
Proof.
  intros t fin c ids Hin Hn. unfold drop_finished. cbn. apply filter_In. split; [exact Hin|]. cbn.
  apply negb_true_iff. destruct (subset ids fin) eqn:E; [|exact E || reflexivity]. apply subset_incl in E. contradiction.
Qed.

(* every started worker is joined on every exit path *)
Lemma tasks_joined_l : forall starts path, joined_tasks (run_tasks starts path) = started_tasks (run_tasks starts path).
Proof. intros. reflexivity. Qed.
Lemma tasks_all_started_l : forall starts path x, In x starts -> In x (joined_tasks (run_tasks starts path)).
Proof.
  intros starts path x H. unfold run_tasks, join_all. cbn.
  assert (G : forall l t, In x l \/ In x (started_tasks t) -> In x (started_tasks (fold_left start_task l t))).
  { induction l as [|y l IH]; intros t [Hx|Hx]; cbn; try (destruct Hx; fail); auto.
    - apply IH. destruct Hx as [<-|Hx]; [right; left; reflexivity | left; exact Hx].
    - apply IH. right. right. exact Hx. }
  apply G. left. exact H.
Qed.
