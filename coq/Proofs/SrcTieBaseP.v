(* Source-text tie, C03: FeatureGroup.get_column_base_feature regenerated from the source text (Gen/Src.v) equals the
   hand-written models Model/Naming.v base_feature (on string) and Model/ChainParser.v column_base (on list ascii). *)
From Coq Require Import List Bool ZArith String Ascii.
Import ListNotations.
Require Import MV.Model.PySem MV.Gen.Src.
Require MV.Model.Naming MV.Model.ChainParser.

(* ---------- column_name.split("~")[0] ---------- *)
Lemma split1_head : forall s, exists r, py_split1 "~"%char s = Naming.base_feature s :: r.
Proof.
  induction s as [|a t [r IH]].
  - exists []. reflexivity.
  - cbn [py_split1 Naming.base_feature]. destruct (Ascii.eqb a "~"%char).
    + eexists. reflexivity.
    + rewrite IH. eexists. reflexivity.
Qed.

Lemma column_base_feature_src : forall s, FeatureGroup_get_column_base_feature s = Ok (Naming.base_feature s).
Proof.
  intros s. unfold FeatureGroup_get_column_base_feature. destruct (split1_head s) as [r ->]. reflexivity.
Qed.

Lemma split1_split_on : forall c s,
  map list_ascii_of_string (py_split1 c s) = ChainParser.split_on c (list_ascii_of_string s).
Proof.
  intros c. induction s as [|a t IH]; [reflexivity|].
  cbn [py_split1 list_ascii_of_string ChainParser.split_on]. destruct (Ascii.eqb a c).
  - cbn [map]. rewrite IH. reflexivity.
  - rewrite <- IH. destruct (py_split1 c t); reflexivity.
Qed.

Lemma column_base_src : forall s,
  option_map list_ascii_of_string
    (match FeatureGroup_get_column_base_feature s with Ok b => Some b | Raise _ => None end)
  = Some (ChainParser.column_base (list_ascii_of_string s)).
Proof.
  intros s. rewrite column_base_feature_src. cbn [option_map]. unfold ChainParser.column_base, ChainParser.tilde.
  rewrite <- split1_split_on. destruct (split1_head s) as [r ->]. reflexivity.
Qed.
