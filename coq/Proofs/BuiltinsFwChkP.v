(* C19 lemmas: the decidable tests used by the kernel-contract tests of harness/c19.py (Model/BuiltinsFwChk.v) imply the
   contract clauses they stand for, where the clause is not an equation with an executable right-hand side. *)
From Coq Require Import QArith List Bool Arith ZArith Lia.
Import ListNotations.
Require Import MV.Spec.Builtins MV.Model.MissingValuePyDict MV.Model.MissingValuePandas MV.Model.TimeWindowFw MV.Model.BuiltinsFwChk.
Require Import MV.Proofs.ImputeP MV.Proofs.ImputeGroupedP MV.Proofs.TimeWindowFwP MV.Proofs.MissingValuePandasP.

Lemma nodup_keys_NoDup : forall ks, nodup_keys ks = true -> NoDup ks.
Proof.
  induction ks as [|k t IH]; cbn [nodup_keys]; intros H. constructor.
  apply andb_true_iff in H. destruct H as [H1 H2]. constructor; auto.
  intro Hin. apply negb_true_iff in H1. assert (existsb (key_eqb k) t = true).
  { apply existsb_exists. exists k. split. exact Hin. apply key_eqb_refl. }
  congruence.
Qed.

(* groups_ok (what is checked on the recorded output of the groupby iteration) implies contract clause p_groups *)
Lemma groups_ok_sound : forall keys gs, groups_ok keys gs = true ->
  exists ks, NoDup ks /\ (forall k, In k ks <-> In k keys) /\ gs = map (rows_with keys) ks.
Proof.
  intros keys gs H. unfold groups_ok in H. apply andb_true_iff in H. destruct H as [H H3].
  apply andb_true_iff in H. destruct H as [H1 H2]. rewrite forallb_forall in H1, H3.
  set (kf := fun g : list nat => nth (hd 0%nat g) keys []).
  assert (G : forall g, In g gs -> g <> [] /\ g = rows_with keys (kf g)).
  { intros g Hg. specialize (H1 g Hg). destruct g as [|i t]. discriminate. split. discriminate.
    apply list_nat_eqb_eq in H1. exact H1. }
  exists (map kf gs). split; [|split].
  - apply nodup_keys_NoDup. exact H2.
  - intros k. split.
    + intros Hk. apply in_map_iff in Hk. destruct Hk as [g [<- Hg]]. destruct (G g Hg) as [NE E].
      destruct g as [|i t]. contradiction. unfold kf. cbn [hd].
      assert (Hi : In i (rows_with keys (kf (i :: t)))) by (rewrite <- E; left; reflexivity).
      rewrite rows_with_idx_of in Hi. apply in_idx_of in Hi. apply nth_In. apply Hi.
    + intros Hk. apply In_nth with (d := []) in Hk. destruct Hk as [i [Hi E]].
      assert (Hs : In i (seq 0 (List.length keys))) by (apply in_seq; lia).
      specialize (H3 i Hs). apply existsb_exists in H3. destruct H3 as [g [Hg Hm]].
      apply existsb_exists in Hm. destruct Hm as [i' [Hi' Ei]]. apply Nat.eqb_eq in Ei. subst i'.
      destruct (G g Hg) as [_ Eg]. rewrite Eg in Hi'. rewrite rows_with_idx_of in Hi'. apply in_idx_of in Hi'.
      destruct Hi' as [_ Ek]. apply in_map_iff. exists g. split; auto. rewrite <- E, Ek. reflexivity.
  - rewrite map_map. rewrite <- (map_id gs) at 1. apply map_ext_in. intros g Hg. apply G. exact Hg.
Qed.
