(* Source-text tie, C04 (planner, round 2): ResolveComputeFrameworks.order_queue_by_trekker_order, regenerated from
   resolve_compute_frameworks.py (Gen/SrcPlan.v: five nested loops with the `breaker` flags), is PlannerL.order_queue for
   every queue, every LinkTrekker.order and every order oracle. *)
From Coq Require Import List Bool ZArith Arith Lia.
Import ListNotations.
Require Import MV.Model.PySem MV.Gen.SrcPlan.
Require Import MV.Model.Orch MV.Model.PlannerA MV.Model.PyObj MV.Proofs.SrcTieLemP.
Require Import MV.Model.PlannerL.
Open Scope nat_scope.

Local Notation loop1 := ResolveComputeFrameworks_order_queue_by_trekker_order_loop1.
Local Notation loop2 := ResolveComputeFrameworks_order_queue_by_trekker_order_loop2.
Local Notation loop3 := ResolveComputeFrameworks_order_queue_by_trekker_order_loop3.
Local Notation loop4 := ResolveComputeFrameworks_order_queue_by_trekker_order_loop4.
Local Notation loop5 := ResolveComputeFrameworks_order_queue_by_trekker_order_loop5.

Ltac to_mem := repeat match goal with |- context [py_in Nat.eqb ?a ?b] => change (py_in Nat.eqb a b) with (mem a b) end.

(* issue_collector[k].add(p) on the defaultdict(set) *)
Lemma py_dd_add_iadd : forall iss b k, py_dd_add Nat.eqb key_eqb iss b k = iadd b k iss.
Proof.
  induction iss as [|[b' ks] iss IH]; intros b k; [reflexivity|].
  cbn [py_dd_add iadd]. destruct (Nat.eqb b b'); [|rewrite IH; reflexivity].
  f_equal. f_equal. unfold py_union, py_diff, py_in. cbn [filter].
  destruct (existsb (key_eqb k) ks); cbn [negb]; [apply app_nil_r|reflexivity].
Qed.

(* the first loop over orders.items(): the first link this one still waits for *)
Lemma queue_loop2_src : forall orders added p ic b0,
  loop2 added p (k_uid p) orders ic b0
  = match blocked orders added (k_uid p) with
    | Some b => Fall (iadd b p ic, true)
    | None => Fall (ic, b0)
    end.
Proof.
  intros orders added p ic b0. unfold blocked.
  induction orders as [|[k v] orders IH]; [reflexivity|].
  cbn [loop2 find fst snd]. to_mem.
  destruct (mem (k_uid p) v); cbn [andb]; [|exact IH].
  destruct (mem k added); cbn [negb]; [exact IH|].
  rewrite py_dd_add_iadd. reflexivity.
Qed.

(* the innermost loop over orders.items(): the same test for a postponed link (its `k` shadows the key of the issue) *)
Lemma queue_loop5_src : forall orders added du b0 k0,
  exists k1, loop5 added du orders b0 k0
             = Fall (match blocked orders added du with Some _ => true | None => b0 end, k1).
Proof.
  intros orders added du b0. unfold blocked.
  induction orders as [|[k v] orders IH]; intros k0; [exists k0; reflexivity|].
  cbn [loop5 find fst snd]. to_mem.
  destruct (mem du v); cbn [andb]; [|apply IH].
  destruct (mem k added); cbn [negb]; [apply IH|].
  exists k. reflexivity.
Qed.

Definition dep_step (orders : amap) (s' : list pitem * list nat) (dk : lkey) : list pitem * list nat :=
  match blocked orders (snd s') (k_uid dk) with
  | Some _ => s'
  | None => (fst s' ++ [PL dk], set_add (k_uid dk) (snd s'))
  end.

Lemma queue_loop4_src : forall orders l npq added b k,
  exists b' k', loop4 orders l npq added b k
                = Fall (fst (fold_left (dep_step orders) l (npq, added)), snd (fold_left (dep_step orders) l (npq, added)), b', k').
Proof.
  intros orders l. induction l as [|dk l IH]; intros npq added b k; [exists b, k; reflexivity|].
  cbn [loop4 fold_left]. unfold py_dict_items.
  destruct (queue_loop5_src orders added (k_uid dk) false k) as [k1 H5]. rewrite H5.
  unfold dep_step at 2 4. cbn [fst snd].
  destruct (blocked orders added (k_uid dk)); cbn [negb].
  - apply IH.
  - rewrite py_union_add1. apply IH.
Qed.

Definition issue_step (ord : oparam) (orders : amap) (p : lkey) (s : list pitem * list nat) (e : nat * list lkey)
  : list pitem * list nat :=
  if Nat.eqb (k_uid p) (fst e) then fold_left (dep_step orders) (ordk ord (site_issue (fst e)) (snd e)) s else s.

Lemma queue_loop3_src : forall ord orders p iss npq added b,
  exists b', loop3 ord orders p iss npq added b
             = Fall (fst (fold_left (issue_step ord orders p) iss (npq, added)),
                     snd (fold_left (issue_step ord orders p) iss (npq, added)), b').
Proof.
  intros ord orders p iss. induction iss as [|[k deps] iss IH]; intros npq added b; [exists b; reflexivity|].
  cbn [loop3 fold_left]. unfold issue_step at 2 4. cbn [fst snd].
  destruct (Nat.eqb (k_uid p) k); [|apply IH].
  destruct (queue_loop4_src orders (ordk ord (site_issue k) deps) npq added b k) as [b1 [k1 H4]]. rewrite H4.
  destruct (fold_left (dep_step orders) (ordk ord (site_issue k) deps) (npq, added)) as [n1 a1]. cbn [fst snd].
  apply IH.
Qed.

Lemma oq_step_unfold : forall ord orders new added iss p,
  oq_step ord orders (new, added, iss) p
  = match p with
    | PG _ _ => (new ++ [p], added, iss)
    | PL k =>
      match blocked orders added (k_uid k) with
      | Some b => (new, added, iadd b k iss)
      | None => let r := fold_left (issue_step ord orders k) iss (new ++ [p], set_add (k_uid k) added) in (fst r, snd r, iss)
      end
    end.
Proof. reflexivity. Qed.

Lemma queue_loop1_src : forall ord orders l pos new added iss,
  loop1 ord orders l pos new added iss = Fall (fold_left (oq_step ord orders) l (new, added, iss)).
Proof.
  intros ord orders l. induction l as [|p l IH]; intros pos new added iss; [reflexivity|].
  cbn [loop1 fold_left]. rewrite oq_step_unfold. destruct p as [grp ms|k].
  - apply IH.
  - unfold py_dict_items. rewrite queue_loop2_src.
    destruct (blocked orders added (k_uid k)) as [b|]; [apply IH|].
    rewrite py_union_add1.
    destruct (queue_loop3_src ord orders k iss (new ++ [PL k]) (set_add (k_uid k) added) false) as [b1 H3]. rewrite H3.
    cbv zeta. apply IH.
Qed.

Lemma order_queue_by_trekker_order_src : forall ord planned_queue link_trekker,
  ResolveComputeFrameworks_order_queue_by_trekker_order ord planned_queue link_trekker
  = order_queue ord (t_order link_trekker) planned_queue.
Proof.
  intros. unfold ResolveComputeFrameworks_order_queue_by_trekker_order, order_queue. cbv zeta.
  rewrite queue_loop1_src.
  destruct (fold_left (oq_step ord (t_order link_trekker)) planned_queue ([], [], [])) as [[n a] i]. reflexivity.
Qed.
