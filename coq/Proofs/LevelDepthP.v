(* Characterisation of the dependency levels of one split (Model/PlannerA.v split_levels) by the DEPTH of a feature
   (Model/LevelDepth.v): level = longest chain of in-group ancestors; same step iff same depth; number of steps =
   1 + maximal depth, and no valid split has fewer.  For every acyclic ancestor relation and every list order. *)
From Coq Require Import List Bool Arith Lia Permutation.
Import ListNotations.
Require Import MV.Model.Orch MV.Model.OrchCheck MV.Model.PlannerA MV.Model.LevelDepth MV.Spec.PlannerASpec.
Require Import MV.Proofs.OrchP MV.Proofs.OrchTermP MV.Proofs.PlannerASets MV.Proofs.PlannerALevels.

Lemma list_max_cons : forall x l, list_max (x :: l) = Nat.max x (list_max l).
Proof. reflexivity. Qed.

Lemma list_max_In : forall l, l <> [] -> In (list_max l) l.
Proof.
  induction l as [|x t IH]; intros H; [congruence|]. rewrite list_max_cons. destruct t as [|y t'].
  - cbn. left. lia.
  - destruct (Nat.max_dec x (list_max (y :: t'))) as [E|E]; rewrite E; [left; reflexivity|].
    right. apply IH. discriminate.
Qed.

Lemma list_max_ge : forall l x, In x l -> x <= list_max l.
Proof.
  intros l x Hx. assert (H : Forall (fun k => k <= list_max l) l) by (apply list_max_le; apply le_n).
  rewrite Forall_forall in H. exact (H x Hx).
Qed.

Lemma level_of_lidx : forall levels f, level_of levels f = lidx levels f.
Proof. intros levels f. induction levels as [|l t IH]; cbn; [reflexivity|]. rewrite IH. reflexivity. Qed.

Lemma level_of_lt : forall levels f, In f (concat levels) -> level_of levels f < List.length levels.
Proof.
  intros levels f. induction levels as [|l t IH]; intros H; [destruct H|]. cbn [level_of List.length concat] in *.
  destruct (mem f l) eqn:E; [lia|]. apply mem_false in E. apply in_app_iff in H. destruct H as [H|H]; [contradiction|].
  specialize (IH H). lia.
Qed.

Lemma same_level_spec : forall levels f g, same_level levels f g = true <-> exists l, In l levels /\ In f l /\ In g l.
Proof.
  intros levels f g. unfold same_level. rewrite existsb_exists. split; intros [l [Hl H]]; exists l; split; try exact Hl.
  - apply andb_true_iff in H. destruct H as [H1 H2]. split; apply mem_In; assumption.
  - destruct H as [H1 H2]. apply andb_true_iff. split; apply mem_In; assumption.
Qed.

Lemma length_concat_ge : forall (L : list (list nat)), (forall l, In l L -> l <> []) -> List.length L <= List.length (concat L).
Proof.
  induction L as [|l t IH]; intros H; cbn; [lia|]. rewrite app_length.
  assert (Hl : l <> []) by (apply H; left; reflexivity). destruct l as [|x l']; [congruence|]. cbn.
  assert (List.length t <= List.length (concat t)) by (apply IH; intros l0 H0; apply H; right; exact H0). lia.
Qed.

(* what it means to be "the depth": strictly above every in-group ancestor, and attained by one of them *)
Definition is_depth (intra : nat -> list nat) (F : list nat) (dp : nat -> nat) : Prop :=
  forall u, In u F ->
    (forall a, In a (intra u) -> dp a < dp u) /\ (dp u = 0 \/ exists a, In a (intra u) /\ dp u = S (dp a)).

Section Depth.
  Variables (intra : nat -> list nat) (F : list nat).
  Hypothesis intra_in : forall u a, In a (intra u) -> In a F.

  Lemma is_depth_ext : forall dp dp', (forall u, In u F -> dp u = dp' u) -> is_depth intra F dp -> is_depth intra F dp'.
  Proof.
    intros dp dp' E H u Hu. destruct (H u Hu) as [H1 H2]. split.
    - intros a Ha. rewrite <- (E u Hu), <- (E a (intra_in u a Ha)). exact (H1 a Ha).
    - destruct H2 as [H2|[a [Ha H2]]]; [left; rewrite <- (E u Hu); exact H2|].
      right. exists a. split; [exact Ha|]. rewrite <- (E u Hu), <- (E a (intra_in u a Ha)). exact H2.
  Qed.

  Section WithDp.
    Variable dp : nat -> nat.
    Hypothesis Hdp : is_depth intra F dp.

    Lemma dp_rk : forall u a, In u F -> In a (intra u) -> dp a < dp u.
    Proof. intros u a Hu Ha. exact (proj1 (Hdp u Hu) a Ha). Qed.

    (* the depth is the LEAST valid rank *)
    Lemma dp_least : forall r : nat -> nat, (forall u a, In u F -> In a (intra u) -> r a < r u) ->
      forall n u, In u F -> dp u <= n -> dp u <= r u.
    Proof.
      intros r Hr n. induction n as [|n IH]; intros u Hu Hn; [lia|].
      destruct (Hdp u Hu) as [_ [H0|[a [Ha E]]]]; [lia|].
      pose proof (Hr u a Hu Ha) as H1. assert (H2 : dp a <= r a) by (apply IH; [exact (intra_in u a Ha) | lia]). lia.
    Qed.

    (* the depth is the length of the longest chain *)
    Lemma dp_chain_le : forall l u, In u F -> chain intra u l -> List.length l <= dp u.
    Proof.
      induction l as [|a t IH]; intros u Hu Hc; cbn; [lia|]. destruct Hc as [Ha Hc].
      pose proof (dp_rk u a Hu Ha) as H1. specialize (IH a (intra_in u a Ha) Hc). lia.
    Qed.

    Lemma dp_chain_ex : forall n u, In u F -> dp u = n -> exists l, chain intra u l /\ List.length l = n.
    Proof.
      induction n as [|n IH]; intros u Hu E.
      - exists []. split; [exact I | reflexivity].
      - destruct (Hdp u Hu) as [_ [H0|[a [Ha E']]]]; [lia|].
        destruct (IH a (intra_in u a Ha)) as [l [Hc Hl]]; [lia|].
        exists (a :: l). split; [split; assumption | cbn; lia].
    Qed.

    (* ---- the while loop: level k is exactly the set of features of depth k ---- *)
    Lemma lv_loop_depth : forall fuel remaining placed levels fb, List.length remaining <= fuel ->
      (forall x, In x placed <-> In x F /\ dp x < List.length levels) ->
      (forall x, In x remaining <-> In x F /\ List.length levels <= dp x) ->
      (forall i l, nth_error levels i = Some l -> forall x, In x l <-> In x F /\ dp x = i) ->
      forall i l, nth_error (fst (lv_loop fuel intra remaining placed levels fb)) i = Some l ->
      forall x, In x l <-> In x F /\ dp x = i.
    Proof.
      intros fuel. induction fuel as [|f IH]; intros remaining placed levels fb Hlen Hpl Hrem Hlv.
      - cbn. exact Hlv.
      - destruct remaining as [|r0 rt0] eqn:Erem; [rewrite lv_loop_nil; cbn; exact Hlv|].
        rewrite <- Erem in *. assert (Hrne : remaining <> []) by (rewrite Erem; discriminate).
        rewrite lv_loop_S by exact Hrne.
        assert (Hsub : incl remaining F) by (intros x Hx; apply Hrem in Hx; apply Hx).
        assert (Hcov : forall x, In x F -> In x placed \/ In x remaining).
        { intros x Hx. destruct (le_lt_dec (List.length levels) (dp x)) as [H|H];
            [right; apply Hrem | left; apply Hpl]; split; assumption. }
        pose proof (ready_nonempty intra F dp intra_in dp_rk remaining placed Hrne Hsub Hcov) as Hready.
        assert (Hspec : forall x, In x (filter (fun u => subset (intra u) placed) remaining) <->
                                  In x F /\ dp x = List.length levels).
        { intros x. rewrite filter_In. split.
          - intros [Hx Hs]. apply Hrem in Hx. destruct Hx as [HxF Hle]. split; [exact HxF|].
            apply subset_incl in Hs. destruct (Hdp x HxF) as [_ [H0|[a [Ha E]]]]; [lia|].
            apply Hs, Hpl in Ha. lia.
          - intros [HxF E]. split; [apply Hrem; split; [exact HxF | lia]|].
            apply subset_incl. intros a Ha. apply Hpl. split; [exact (intra_in x a Ha)|].
            pose proof (dp_rk x a HxF Ha). lia. }
        destruct (filter (fun u => subset (intra u) placed) remaining) as [|q0 qt] eqn:Eready; [congruence|].
        rewrite <- Eready in *. set (ready := filter (fun u => subset (intra u) placed) remaining) in *.
        apply IH.
        + assert (Hq : In q0 ready) by (rewrite Eready; left; reflexivity).
          assert (Hq1 : In q0 remaining) by (unfold ready in Hq; apply filter_In in Hq; apply Hq).
          assert (Hlt : List.length (remove_all ready remaining) < List.length remaining).
          { unfold remove_all. apply (filter_len_lt _ remaining q0 Hq1). apply mem_In in Hq. rewrite Hq. reflexivity. }
          lia.
        + intros x. rewrite app_length. cbn [List.length]. rewrite in_app_iff, Hpl, Hspec. split.
          * intros [[H1 H2]|[H1 H2]]; split; try assumption; lia.
          * intros [H1 H2]. destruct (Nat.eq_dec (dp x) (List.length levels)) as [E|E]; [right | left]; split; try assumption; lia.
        + intros x. rewrite app_length. cbn [List.length]. rewrite remove_all_In, Hrem, Hspec. split.
          * intros [[H1 H2] H3]. split; [exact H1|].
            destruct (Nat.eq_dec (dp x) (List.length levels)) as [E|E]; [exfalso; apply H3; split; assumption | lia].
          * intros [H1 H2]. split; [split; [exact H1 | lia]|]. intros [_ E]. lia.
        + intros i l Hi x. destruct (lt_dec i (List.length levels)) as [Hlt|Hge].
          * rewrite nth_error_app1 in Hi by exact Hlt. exact (Hlv i l Hi x).
          * rewrite nth_error_app2 in Hi by lia. destruct (i - List.length levels) as [|d] eqn:Ed.
            -- cbn in Hi. injection Hi as Hi. subst l. rewrite Hspec. assert (i = List.length levels) by lia. subst i. tauto.
            -- cbn in Hi. destruct d; discriminate.
    Qed.
  End WithDp.

  (* ---- every acyclic relation has a depth function: depth with enough fuel ---- *)
  Section WithRk.
    Variable rk : nat -> nat.
    Hypothesis intra_rk : forall u a, In u F -> In a (intra u) -> rk a < rk u.

    Lemma depth_stable : forall n m u, In u F -> rk u < n -> rk u < m -> depth n intra u = depth m intra u.
    Proof.
      induction n as [|n IH]; intros m u Hu Hn Hm; [lia|]. destruct m as [|m]; [lia|]. cbn [depth]. f_equal.
      apply map_ext_in. intros a Ha. f_equal. pose proof (intra_rk u a Hu Ha).
      apply IH; [exact (intra_in u a Ha) | lia | lia].
    Qed.

    Lemma depth_unfold : forall N u, In u F -> rk u < N ->
      depth N intra u = list_max (map (fun a => S (depth N intra a)) (intra u)).
    Proof.
      intros N u Hu HN. destruct N as [|N]; [lia|].
      transitivity (list_max (map (fun a => S (depth N intra a)) (intra u))); [reflexivity|].
      f_equal. apply map_ext_in. intros a Ha. f_equal.
      pose proof (intra_rk u a Hu Ha). apply depth_stable; [exact (intra_in u a Ha) | lia | lia].
    Qed.

    Lemma depth_is_depth : forall N, (forall u, In u F -> rk u < N) -> is_depth intra F (depth N intra).
    Proof.
      intros N HN u Hu. pose proof (depth_unfold N u Hu (HN u Hu)) as E. split.
      - intros a Ha. rewrite E. apply Nat.lt_le_trans with (S (depth N intra a)); [lia|].
        apply list_max_ge. apply in_map_iff. exists a. split; [reflexivity | exact Ha].
      - destruct (intra u) as [|a0 t] eqn:Ei; [left; rewrite E; reflexivity|]. right.
        assert (Hne : map (fun a => S (depth N intra a)) (a0 :: t) <> []) by discriminate.
        pose proof (list_max_In _ Hne) as H. rewrite <- E in H. apply in_map_iff in H. destruct H as [a [Ea Ha]].
        exists a. split; [exact Ha | symmetry; exact Ea].
    Qed.
  End WithRk.
End Depth.

(* ================= the whole function ================= *)
Section Split.
  Variables (cl : nat -> list nat) (F : list nat) (rk : nat -> nat).
  Hypothesis Hrk : forall u a, In u F -> In a (cl u) -> rk a < rk u.
  Local Notation intra := (intra_of cl F).

  Lemma intra_of_in : forall u a, In a (intra u) -> In a F.
  Proof. intros u a Ha. unfold intra_of in Ha. apply filter_In in Ha. apply mem_In. apply Ha. Qed.

  Lemma intra_of_rk : forall u a, In u F -> In a (intra u) -> rk a < rk u.
  Proof. intros u a Hu Ha. unfold intra_of in Ha. apply filter_In in Ha. apply (Hrk u a Hu). apply Ha. Qed.

  Section Dp.
    Variable dp : nat -> nat.
    Hypothesis Hdp : is_depth intra F dp.
    Hypothesis HF : F <> [].

    Local Notation levels := (fst (split_levels cl F)).

    Lemma sp_perm : Permutation (concat levels) F.
    Proof. apply (split_levels_spec cl F rk HF Hrk). Qed.
    Lemma sp_nonempty : forall l, In l levels -> l <> [].
    Proof. apply (split_levels_spec cl F rk HF Hrk). Qed.
    Lemma sp_in : forall f, In f F -> In f (concat levels).
    Proof. intros f Hf. apply (Permutation_in _ (Permutation_sym sp_perm)). exact Hf. Qed.

    (* level i = the features of depth i *)
    Lemma split_nth_depth : forall i l, nth_error levels i = Some l -> forall x, In x l <-> In x F /\ dp x = i.
    Proof.
      unfold split_levels. destruct (no_deps intra F) eqn:End.
      - cbn [fst]. intros i l Hi x. destruct i as [|i]; [|destruct i; discriminate]. cbn in Hi. injection Hi as Hi. subst l.
        split; [|tauto]. intros Hx. split; [exact Hx|]. unfold no_deps in End. rewrite forallb_forall in End.
        specialize (End x Hx). destruct (Hdp x Hx) as [_ [H0|[a [Ha _]]]]; [exact H0|].
        destruct (intra x); [destruct Ha | discriminate].
      - apply (lv_loop_depth intra F intra_of_in dp Hdp).
        + apply le_n.
        + intros x. cbn. split; [intros [] | intros [_ H]; lia].
        + intros x. cbn. split; [intros H; split; [exact H | lia] | tauto].
        + intros i l Hi. destruct i; discriminate.
    Qed.

    Lemma level_of_off : forall lv k, (forall i l, nth_error lv i = Some l -> forall x, In x l <-> In x F /\ dp x = k + i) ->
      forall f, In f (concat lv) -> k + level_of lv f = dp f.
    Proof.
      induction lv as [|l t IH]; intros k H f Hf; [destruct Hf|]. cbn [level_of concat] in *. destruct (mem f l) eqn:E.
      - apply mem_In in E. apply (H 0 l eq_refl) in E. lia.
      - apply mem_false in E. apply in_app_iff in Hf. destruct Hf as [Hf|Hf]; [contradiction|].
        rewrite <- (IH (S k)); [lia | | exact Hf]. intros i l0 Hi x. rewrite (H (S i) l0 Hi x). split; intros [H1 H2]; split; try assumption; lia.
    Qed.

    Lemma split_level_of_depth : forall f, In f F -> level_of levels f = dp f.
    Proof. intros f Hf. apply (level_of_off levels 0); [exact split_nth_depth | exact (sp_in f Hf)]. Qed.

    Lemma split_depth_lt : forall f, In f F -> dp f < List.length levels.
    Proof. intros f Hf. rewrite <- (split_level_of_depth f Hf). apply level_of_lt. exact (sp_in f Hf). Qed.

    Lemma split_length_le : List.length levels <= List.length F.
    Proof. rewrite <- (Permutation_length sp_perm). apply length_concat_ge. exact sp_nonempty. Qed.

    Lemma split_depth_max : exists f, In f F /\ List.length levels = S (dp f).
    Proof.
      assert (Hlen : List.length levels <> 0).
      { intros E. apply length_zero_iff_nil in E. pose proof sp_perm as P. rewrite E in P. cbn in P.
        apply Permutation_nil in P. exact (HF P). }
      destruct (nth_error levels (List.length levels - 1)) as [l|] eqn:E.
      - pose proof (sp_nonempty l (nth_error_In _ _ E)) as Hl. destruct l as [|x l']; [congruence|].
        exists x. assert (Hx : In x F /\ dp x = List.length levels - 1) by (apply (split_nth_depth _ _ E); left; reflexivity).
        destruct Hx as [Hx1 Hx2]. split; [exact Hx1 | lia].
      - apply nth_error_None in E. lia.
    Qed.

    Lemma split_same_level : forall f g, In f F -> In g F ->
      (same_level levels f g = true <-> dp f = dp g).
    Proof.
      intros f g Hf Hg. rewrite same_level_spec. split.
      - intros [l [Hl [H1 H2]]]. apply In_nth_error in Hl. destruct Hl as [i Hi].
        apply (split_nth_depth i l Hi) in H1. apply (split_nth_depth i l Hi) in H2. lia.
      - intros E. pose proof (split_depth_lt f Hf) as Hlt. destruct (nth_error levels (dp f)) as [l|] eqn:Ei;
          [|apply nth_error_None in Ei; lia].
        exists l. split; [exact (nth_error_In _ _ Ei)|]. split; apply (split_nth_depth _ _ Ei); split; auto.
    Qed.

    (* no valid split has fewer levels *)
    Lemma split_minimal : forall L, incl F (concat L) -> lv_ok intra [] L -> List.length levels <= List.length L.
    Proof.
      intros L Hin Hok. destruct split_depth_max as [f [Hf E]]. rewrite E.
      assert (Hr : forall u a, In u F -> In a (intra u) -> lidx L a < lidx L u).
      { intros u a Hu Ha. destruct (lv_ok_lidx intra L [] Hok u a (Hin u Hu) Ha) as [[]|[_ H]]. exact H. }
      pose proof (dp_least intra F intra_of_in dp Hdp (lidx L) Hr (dp f) f Hf (le_n _)) as H1.
      pose proof (level_of_lt L f (Hin f Hf)) as H2. rewrite level_of_lidx in H2. lia.
    Qed.
  End Dp.

  (* depth_of IS the depth *)
  Lemma depth_of_is_depth : is_depth intra F (depth_of cl F).
  Proof.
    destruct F as [|f0 F'] eqn:EF; [intros u []|]. rewrite <- EF in *. assert (HF : F <> []) by (rewrite EF; discriminate).
    set (N := S (list_max (map rk F))).
    assert (HN : forall u, In u F -> rk u < N).
    { intros u Hu. unfold N. apply Nat.lt_succ_r. apply list_max_ge. apply in_map. exact Hu. }
    pose proof (depth_is_depth intra F intra_of_in rk intra_of_rk N HN) as HdN.
    apply (is_depth_ext intra F intra_of_in (depth N intra)); [|exact HdN].
    intros u Hu. unfold depth_of. symmetry.
    apply (depth_stable intra F intra_of_in (depth N intra) (dp_rk intra F (depth N intra) HdN)); [exact Hu | |].
    - apply Nat.lt_le_trans with (List.length (fst (split_levels cl F))).
      + exact (split_depth_lt (depth N intra) HdN HF u Hu).
      + exact (split_length_le HF).
    - apply Nat.le_lt_trans with (rk u); [|exact (HN u Hu)].
      exact (dp_least intra F intra_of_in (depth N intra) HdN rk intra_of_rk _ u Hu (le_n _)).
  Qed.
End Split.

(* ================= statements ================= *)
Definition acyclic_in (cl : nat -> list nat) (F : list nat) : Prop :=
  exists rk : nat -> nat, forall u a, In u F -> In a (cl u) -> rk a < rk u.

Theorem depth_of_spec : forall cl F, acyclic_in cl F -> is_depth (intra_of cl F) F (depth_of cl F).
Proof. intros cl F [rk Hrk]. exact (depth_of_is_depth cl F rk Hrk). Qed.

(* the depth is the length of the longest chain of in-group ancestors *)
Theorem depth_of_longest_chain : forall cl F, acyclic_in cl F -> forall f, In f F ->
  (exists l, chain (intra_of cl F) f l /\ List.length l = depth_of cl F f) /\
  (forall l, chain (intra_of cl F) f l -> List.length l <= depth_of cl F f).
Proof.
  intros cl F [rk Hrk] f Hf. pose proof (depth_of_is_depth cl F rk Hrk) as Hd. split.
  - exact (dp_chain_ex _ F (intra_of_in cl F) _ Hd _ f Hf eq_refl).
  - intros l Hc. exact (dp_chain_le _ F (intra_of_in cl F) _ Hd l f Hf Hc).
Qed.

Theorem level_is_depth : forall cl F, acyclic_in cl F -> forall f, In f F ->
  level_of (fst (split_levels cl F)) f = depth_of cl F f.
Proof.
  intros cl F [rk Hrk] f Hf. assert (HF : F <> []) by (intros E; subst F; destruct Hf).
  exact (split_level_of_depth cl F rk Hrk _ (depth_of_is_depth cl F rk Hrk) HF f Hf).
Qed.

Theorem level_members : forall cl F, acyclic_in cl F -> F <> [] -> forall i l, nth_error (fst (split_levels cl F)) i = Some l ->
  forall x, In x l <-> In x F /\ depth_of cl F x = i.
Proof. intros cl F [rk Hrk] HF. exact (split_nth_depth cl F _ (depth_of_is_depth cl F rk Hrk)). Qed.

Theorem same_step_iff_same_depth : forall cl F, acyclic_in cl F -> forall f g, In f F -> In g F ->
  ((exists l, In l (fst (split_levels cl F)) /\ In f l /\ In g l) <-> depth_of cl F f = depth_of cl F g).
Proof.
  intros cl F [rk Hrk] f g Hf Hg. assert (HF : F <> []) by (intros E; subst F; destruct Hf).
  rewrite <- same_level_spec. exact (split_same_level cl F rk Hrk _ (depth_of_is_depth cl F rk Hrk) HF f g Hf Hg).
Qed.

(* features that share a step do not depend on each other *)
Theorem same_step_independent : forall cl F, acyclic_in cl F -> forall f g l, In f F -> In g F ->
  In l (fst (split_levels cl F)) -> In f l -> In g l -> ~ In f (intra_of cl F g) /\ ~ In g (intra_of cl F f).
Proof.
  intros cl F Hac f g l Hf Hg Hl H1 H2.
  assert (E : depth_of cl F f = depth_of cl F g) by (apply (same_step_iff_same_depth cl F Hac f g Hf Hg); exists l; auto).
  pose proof (depth_of_spec cl F Hac) as Hd. split; intros H.
  - pose proof (proj1 (Hd g Hg) f H). lia.
  - pose proof (proj1 (Hd f Hf) g H). lia.
Qed.

Theorem levels_count : forall cl F, acyclic_in cl F -> F <> [] ->
  (forall f, In f F -> depth_of cl F f < List.length (fst (split_levels cl F))) /\
  (exists f, In f F /\ List.length (fst (split_levels cl F)) = S (depth_of cl F f)).
Proof.
  intros cl F [rk Hrk] HF. pose proof (depth_of_is_depth cl F rk Hrk) as Hd. split.
  - exact (split_depth_lt cl F rk Hrk _ Hd HF).
  - exact (split_depth_max cl F rk Hrk _ Hd HF).
Qed.

Theorem levels_count_max : forall cl F, acyclic_in cl F -> F <> [] ->
  List.length (fst (split_levels cl F)) = S (list_max (map (depth_of cl F) F)).
Proof.
  intros cl F Hac HF. destruct (levels_count cl F Hac HF) as [H1 [f [Hf E]]]. apply Nat.le_antisymm.
  - rewrite E. apply le_n_S. apply list_max_ge. apply in_map. exact Hf.
  - apply Nat.le_succ_l. destruct F as [|f0 F']; [congruence|].
    assert (Hne : map (depth_of cl (f0 :: F')) (f0 :: F') <> []) by discriminate.
    pose proof (list_max_In _ Hne) as H. apply in_map_iff in H. destruct H as [x [Ex Hx]]. rewrite <- Ex. exact (H1 x Hx).
Qed.

Theorem levels_minimal : forall cl F, acyclic_in cl F -> F <> [] -> forall L,
  incl F (concat L) -> lv_ok (intra_of cl F) [] L -> List.length (fst (split_levels cl F)) <= List.length L.
Proof. intros cl F [rk Hrk] HF. exact (split_minimal cl F rk Hrk _ (depth_of_is_depth cl F rk Hrk) HF). Qed.

(* ================= the rejected alternative ================= *)
Lemma rank_by_count_refuted :
  acyclic_in ex_cl [0; 1; 2; 3] /\
  fst (split_levels ex_cl [0; 1; 2; 3]) = [[0; 1]; [2; 3]] /\
  depth_of ex_cl [0; 1; 2; 3] 2 = depth_of ex_cl [0; 1; 2; 3] 3 /\
  ~ In 2 (intra_of ex_cl [0; 1; 2; 3] 3) /\ ~ In 3 (intra_of ex_cl [0; 1; 2; 3] 2) /\
  split_by_count ex_cl [0; 1; 2; 3] = [[0; 1]; [2]; [3]] /\
  lv_ok (intra_of ex_cl [0; 1; 2; 3]) [] (split_by_count ex_cl [0; 1; 2; 3]) /\
  same_level (split_by_count ex_cl [0; 1; 2; 3]) 2 3 = false /\
  List.length (fst (split_levels ex_cl [0; 1; 2; 3])) < List.length (split_by_count ex_cl [0; 1; 2; 3]).
Proof.
  split.
  { exists (fun u => u). intros u a Hu Ha.
    destruct u as [|[|[|[|u]]]]; cbn in Ha; try contradiction; try (destruct Ha as [Ha|Ha]; [subst a; lia|]); try contradiction;
      try (destruct Ha as [Ha|Ha]; [subst a; lia | contradiction]). }
  split; [reflexivity|]. split; [reflexivity|].
  split; [vm_compute; intros [H|H]; [discriminate H | destruct H; [discriminate | contradiction]]|].
  split; [vm_compute; intros [H|H]; [discriminate H | contradiction]|].
  split; [reflexivity|].
  split.
  { vm_compute. repeat split; intros f Hf a Ha; repeat (destruct Hf as [Hf|Hf]; [subst f|]); try contradiction; cbn in Ha;
      repeat (destruct Ha as [Ha|Ha]; [subst a; cbn; tauto|]); contradiction. }
  split; [reflexivity|]. vm_compute. lia.
Qed.
