(* Lemmas for C10 (Model/Resolve.v against Spec/ResolveRule.v). *)
From Coq Require Import List Bool String Arith Lia Permutation.
Require MV.Model.LinkSel MV.Proofs.LinkSelP.
Require Import MV.Model.Resolve MV.Spec.ResolveRule.
Import ListNotations.
Open Scope string_scope.
Open Scope list_scope.

(* ---------- boolean reflection of the small helpers ---------- *)
Lemma mem_In : forall x l, mem x l = true <-> In x l.
Proof.
  intros x l. unfold mem. rewrite existsb_exists. split.
  - intros [y [Hy E]]. apply Nat.eqb_eq in E. subst. exact Hy.
  - intros H. exists x. split; [exact H | apply Nat.eqb_refl].
Qed.

Lemma mem_false : forall x l, mem x l = false <-> ~ In x l.
Proof. intros x l. rewrite <- mem_In. destruct (mem x l); split; congruence. Qed.

Lemma smem_In : forall x l, smem x l = true <-> In x l.
Proof.
  intros x l. unfold smem. rewrite existsb_exists. split.
  - intros [y [Hy E]]. apply String.eqb_eq in E. subst. exact Hy.
  - intros H. exists x. split; [exact H | apply String.eqb_refl].
Qed.

Lemma subset_spec : forall a b, subset a b = true <-> forall x, In x a -> In x b.
Proof.
  intros a b. unfold subset. rewrite forallb_forall. split; intros H x Hx.
  - apply mem_In. apply H. exact Hx.
  - apply mem_In. apply H. exact Hx.
Qed.

Lemma set_eqb_spec : forall a b, set_eqb a b = true <-> forall x, In x a <-> In x b.
Proof.
  intros a b. unfold set_eqb. rewrite andb_true_iff, !subset_spec. split.
  - intros [H1 H2] x. split; auto.
  - intros H. split; intros x Hx; apply H; exact Hx.
Qed.

Lemma nonempty_spec : forall A (l : list A), nonempty l = true <-> exists x, In x l.
Proof.
  intros A [|a l]; cbn; split; try discriminate.
  - intros [x []].
  - intros _. exists a. now left.
  - reflexivity.
Qed.

Lemma nonempty_false : forall A (l : list A), nonempty l = false <-> l = [].
Proof. intros A [|a l]; cbn; split; congruence. Qed.

(* ---------- framework sets ---------- *)
Lemma entry_selects_spec : forall e a s, entry_selects e a s = true <-> entry_allows e a s.
Proof. intros e [n|x] s; cbn; apply Nat.eqb_eq. Qed.

Lemma api_selects_spec : forall e l s, api_selects e l s = true <-> exists a, In a l /\ entry_allows e a s.
Proof.
  intros e l s. unfold api_selects. rewrite existsb_exists. split; intros [a [Ha H]]; exists a; (split; [exact Ha|]);
    apply entry_selects_spec; exact H.
Qed.

Lemma api_set_spec : forall e rq x, In x (api_set e rq) <-> api_allows e rq x /\ In x (existing e).
Proof.
  intros e rq x. unfold api_set, api_allows. destruct (api rq) as [|a l] eqn:E.
  - split; [intros H; split; [now left | exact H] | intros [_ H]; exact H].
  - rewrite filter_In, api_selects_spec. split.
    + intros [H1 H2]. split; [right; exact H2 | exact H1].
    + intros [[H | H] H2]; [discriminate | split; assumption].
Qed.

Lemma group_fws_spec : forall e rq c x, In x (group_fws e rq c) <-> group_fw e rq c x.
Proof.
  intros e rq c x. unfold group_fws, group_fw, usable, cfd, rule_allows, is_available.
  rewrite filter_In, mem_In, filter_In, mem_In, api_set_spec.
  destruct (rule c) as [s|]; tauto.
Qed.

Lemma same_fws_spec : forall e rq c' c,
  set_eqb (group_fws e rq c') (group_fws e rq c) = true <-> same_fws e rq c' c.
Proof.
  intros. rewrite set_eqb_spec. unfold same_fws. split; intros H x; specialize (H x).
  - rewrite <- !group_fws_spec. exact H.
  - rewrite !group_fws_spec. exact H.
Qed.

(* ---------- collector, links ---------- *)
Lemma applicable_spec : forall rq c, applicable rq c = true <-> collector_allows rq c.
Proof.
  intros rq c. unfold applicable, collector_allows. destruct (collector rq) as [[en dis]|]; [|tauto].
  rewrite andb_true_iff, negb_true_iff, mem_false. destruct en as [|a en'].
  - split; [intros [H _]; split; [exact H | now left] | intros [H _]; split; [exact H | reflexivity]].
  - rewrite mem_In. split.
    + intros [H1 H2]. split; [exact H1 | right; exact H2].
    + intros [H1 [H2 | H2]]; [discriminate | split; assumption].
Qed.

Lemma supports_spec : forall cols i, supports cols i = true <-> exists col s, In col cols /\ col = i ++ s.
Proof.
  intros cols i. unfold supports. rewrite <- LinkSelP.supports_index_true_l. cbn [LinkSel.supports_index].
  split; [intros ->; reflexivity | intros H; injection H; auto].
Qed.

Lemma links_ok_spec : forall rq c, links_ok rq c = true <-> links_allow rq c.
Proof.
  intros rq c. unfold links_ok, links_allow. destruct (idxcols c) as [cols|]; [|tauto].
  destruct (links rq) as [ls|]; [|tauto].
  rewrite existsb_exists. split.
  - intros [l [Hl H]]. apply orb_true_iff in H. destruct H as [H | H]; apply supports_spec in H;
      destruct H as [col [s [Hc E]]]; exists l, col, s; auto.
  - intros [l [col [s [Hl [Hc H]]]]]. exists l. split; [exact Hl|]. apply orb_true_iff.
    destruct H as [H | H]; [left | right]; apply supports_spec; exists col, s; auto.
Qed.

(* ---------- the filter loop ---------- *)
Lemma fw_part_spec : forall e rq c,
  fw_ok rq (group_fws e rq c) && nonempty (group_fws e rq c) = true <-> exists x, admissible_fw e rq c x.
Proof.
  intros e rq c. unfold fw_ok, admissible_fw, feature_allows. rewrite andb_true_iff, nonempty_spec.
  destruct (ffw rq) as [y|].
  - rewrite mem_In. split.
    + intros [H _]. exists y. split; [apply group_fws_spec; exact H | reflexivity].
    + intros [x [H ->]]. apply group_fws_spec in H. split; [exact H | exists y; exact H].
  - split.
    + intros [_ [x H]]. exists x. split; [apply group_fws_spec; exact H | exact I].
    + intros [x [H _]]. split; [reflexivity | exists x; apply group_fws_spec; exact H].
Qed.

Lemma keep_spec : forall e rq c,
  applicable rq c && keep rq (c, group_fws e rq c) = true <-> admissible e rq c.
Proof.
  intros e rq c. unfold keep, admissible, criteria, domain_ok. cbn [fst snd].
  rewrite <- fw_part_spec, <- links_ok_spec, <- applicable_spec, <- smem_In.
  assert (D : (match fdom rq with None => true | Some d => String.eqb (dom c) d end) = true
              <-> match fdom rq with None => True | Some d => dom c = d end).
  { destruct (fdom rq) as [d|]; [apply String.eqb_eq | tauto]. }
  rewrite <- D. rewrite !andb_true_iff. tauto.
Qed.

Lemma identified_spec : forall e rq u p,
  In p (identified e rq u) <-> exists c, p = (c, group_fws e rq c) /\ In c u /\ admissible e rq c.
Proof.
  intros e rq u p. unfold identified, accessible. rewrite filter_In, in_map_iff. split.
  - intros [[c [<- Hc]] K]. apply filter_In in Hc. destruct Hc as [Hu Ha]. exists c. split; [reflexivity|].
    split; [exact Hu|]. apply keep_spec. rewrite Ha, K. reflexivity.
  - intros [c [-> [Hu Had]]]. apply keep_spec in Had. apply andb_true_iff in Had. destruct Had as [Ha K].
    split; [|exact K]. exists c. split; [reflexivity|]. apply filter_In. split; assumption.
Qed.

Lemma proper_sub_spec : forall i o,
  negb (Nat.eqb (cid i) (cid o)) && issub i o = true <-> proper_sub i o.
Proof.
  intros i o. unfold issub, proper_sub. rewrite andb_true_iff, negb_true_iff, Nat.eqb_neq, orb_true_iff, Nat.eqb_eq, mem_In.
  tauto.
Qed.

Lemma popped_spec : forall e rq u c,
  popped (identified e rq u) (c, group_fws e rq c) = true <->
  exists c', In c' u /\ admissible e rq c' /\ proper_sub c' c /\ same_fws e rq c' c.
Proof.
  intros e rq u c. unfold popped. rewrite existsb_exists. cbn [fst snd]. split.
  - intros [p [Hp H]]. apply identified_spec in Hp. destruct Hp as [c' [-> [Hu Had]]]. cbn [fst snd] in H.
    rewrite <- andb_assoc in H. apply andb_true_iff in H. destruct H as [H1 H2].
    apply proper_sub_spec in H2. apply same_fws_spec in H1. exists c'. auto.
  - intros [c' [Hu [Had [Hs Hf]]]]. exists (c', group_fws e rq c'). split.
    + apply identified_spec. exists c'. auto.
    + cbn [fst snd]. rewrite <- andb_assoc. apply andb_true_iff. split.
      * apply same_fws_spec. exact Hf.
      * apply proper_sub_spec. exact Hs.
Qed.

Lemma survivors_spec : forall e rq u p,
  In p (survivors e rq u) <-> exists c, p = (c, group_fws e rq c) /\ preferred e u rq c.
Proof.
  intros e rq u p. unfold survivors, filter_subclasses, preferred. rewrite filter_In, identified_spec. split.
  - intros [[c [-> [Hu Had]]] Hn]. exists c. split; [reflexivity|]. split; [exact Hu|]. split; [exact Had|].
    intros Hex. apply popped_spec in Hex. rewrite Hex in Hn. discriminate.
  - intros [c [-> [Hu [Had Hn]]]]. split; [exists c; auto|].
    destruct (popped (identified e rq u) (c, group_fws e rq c)) eqn:E; [|reflexivity].
    exfalso. apply Hn. apply popped_spec. exact E.
Qed.

(* ---------- duplicates ---------- *)
Lemma NoDup_map_inv : forall A B (f : A -> B) l, NoDup (map f l) -> NoDup l.
Proof.
  intros A B f l. induction l as [|a l IH]; cbn; intros H; [constructor|].
  inversion H as [|? ? Hn Hd]; subst. constructor; [|apply IH; exact Hd].
  intros Hin. apply Hn. apply in_map. exact Hin.
Qed.

Lemma NoDup_filter : forall A (f : A -> bool) l, NoDup l -> NoDup (filter f l).
Proof.
  intros A f l H. induction H as [|a l Hn Hd IH]; cbn; [constructor|].
  destruct (f a); [|exact IH]. constructor; [|exact IH]. intros Hin. apply filter_In in Hin. tauto.
Qed.

Lemma NoDup_map_inj : forall A B (f : A -> B) l, (forall x y, f x = f y -> x = y) -> NoDup l -> NoDup (map f l).
Proof.
  intros A B f l Hinj H. induction H as [|a l Hn Hd IH]; cbn; constructor; [|exact IH].
  intros Hin. apply in_map_iff in Hin. destruct Hin as [y [E Hy]]. apply Hinj in E. subst. contradiction.
Qed.

Lemma survivors_NoDup : forall e rq u, NoDup (map cid u) -> NoDup (survivors e rq u).
Proof.
  intros e rq u H. apply NoDup_map_inv in H. unfold survivors, filter_subclasses, identified, accessible.
  apply NoDup_filter, NoDup_filter, NoDup_map_inj; [|apply NoDup_filter; exact H].
  intros x y E. injection E. auto.
Qed.

(* ---------- errors that cannot happen (dead branches of validate / set_compute_framework) ---------- *)
Lemma survivor_keep : forall e rq u c gf, In (c, gf) (survivors e rq u) -> keep rq (c, gf) = true.
Proof.
  intros e rq u c gf H. unfold survivors, filter_subclasses, identified in H.
  apply filter_In in H. destruct H as [H _]. apply filter_In in H. apply H.
Qed.

Lemma resolve_cases : forall e u rq,
  precheck e u rq = None ->
  (survivors e rq u = [] /\ resolve e u rq = Rejected ENoGroup) \/
  (exists c gf, survivors e rq u = [(c, gf)] /\ resolve e u rq = Chosen (cid c) gf /\ gf <> []
                /\ match ffw rq with Some y => In y gf | None => True end) \/
  (exists p q t, survivors e rq u = p :: q :: t /\ resolve e u rq = Rejected EMultiple).
Proof.
  intros e u rq Hp. unfold resolve. rewrite Hp. destruct (survivors e rq u) as [|[c gf] [|q t]] eqn:E.
  - left. split; reflexivity.
  - right; left. exists c, gf. assert (K : keep rq (c, gf) = true).
    { apply (survivor_keep e rq u). rewrite E. now left. }
    unfold keep in K. cbn [fst snd] in K. rewrite !andb_true_iff in K. destruct K as [[[[_ _] Hf] _] Hne].
    unfold validate. destruct gf as [|g gf']; [discriminate|].
    unfold set_cfw. unfold fw_ok in Hf. destruct (ffw rq) as [y|].
    + rewrite Hf. repeat split; try reflexivity; [discriminate | apply mem_In; exact Hf].
    + repeat split; try reflexivity. discriminate.
  - right; right. exists (c, gf), q, t. split; [reflexivity|]. unfold validate. destruct gf; reflexivity.
Qed.

Lemma dead_errors_l : forall e u rq,
  resolve e u rq <> Rejected ENoFramework /\ resolve e u rq <> Rejected EFwUnsupported.
Proof.
  intros e u rq. destruct (precheck e u rq) as [er|] eqn:Hp.
  - unfold resolve. rewrite Hp. unfold precheck in Hp.
    repeat match type of Hp with (if ?b then _ else _) = _ => destruct b end; inversion Hp; split; discriminate.
  - destruct (resolve_cases e u rq Hp) as [[_ ->] | [[c [gf [_ [-> _]]]] | [p [q [t [_ ->]]]]]]; split; discriminate.
Qed.

(* ---------- main refinement ---------- *)
Lemma resolve_sound_l : forall e u rq, NoDup (map cid u) -> precheck e u rq = None ->
  outcome_ok e u rq (resolve e u rq).
Proof.
  intros e u rq Hnd Hp. pose proof (survivors_NoDup e rq u Hnd) as HN.
  destruct (resolve_cases e u rq Hp) as [[E ->] | [[c [gf [E [-> _]]]] | [p [q [t [E ->]]]]]]; cbn [outcome_ok].
  - intros [c Hc]. assert (H : In (c, group_fws e rq c) (survivors e rq u)) by (apply survivors_spec; eauto).
    rewrite E in H. exact H.
  - assert (H : In (c, gf) (survivors e rq u)) by (rewrite E; now left).
    apply survivors_spec in H. destruct H as [c0 [Eq Hpref]]. injection Eq as -> ->.
    exists c0. split; [reflexivity|]. split; [exact Hpref|]. split.
    + intros c' Hc'. assert (H : In (c', group_fws e rq c') (survivors e rq u)) by (apply survivors_spec; eauto).
      rewrite E in H. destruct H as [H | []]. injection H. auto.
    + intros x. apply group_fws_spec.
  - rewrite E in HN. assert (Hpq : p <> q).
    { inversion HN as [|? ? Hn _]; subst. intros ->. apply Hn. now left. }
    assert (H1 : In p (survivors e rq u)) by (rewrite E; now left).
    assert (H2 : In q (survivors e rq u)) by (rewrite E; right; now left).
    apply survivors_spec in H1. apply survivors_spec in H2.
    destruct H1 as [c1 [-> P1]]. destruct H2 as [c2 [-> P2]]. exists c1, c2. split; [exact P1 | split; [exact P2 |]].
    intros ->. apply Hpq. reflexivity.
Qed.

Lemma resolve_complete_l : forall e u rq, NoDup (map cid u) -> precheck e u rq = None ->
  (forall c, preferred e u rq c -> (forall c', preferred e u rq c' -> c' = c) ->
             exists gf, resolve e u rq = Chosen (cid c) gf) /\
  ((~ exists c, preferred e u rq c) -> resolve e u rq = Rejected ENoGroup) /\
  (forall c c', preferred e u rq c -> preferred e u rq c' -> c <> c' -> resolve e u rq = Rejected EMultiple).
Proof.
  intros e u rq Hnd Hp. pose proof (resolve_sound_l e u rq Hnd Hp) as S.
  destruct (resolve_cases e u rq Hp) as [[_ E] | [[c0 [gf [_ [E _]]]] | [p [q [t [_ E]]]]]]; rewrite E in *; cbn [outcome_ok] in S.
  - split; [|split]; [| reflexivity |].
    + intros c Hc _. exfalso. apply S. eauto.
    + intros c c' Hc _ _. exfalso. apply S. eauto.
  - destruct S as [c1 [E1 [P1 [U1 _]]]]. split; [|split].
    + intros c Hc _. apply U1 in Hc. subst c. rewrite E1. eauto.
    + intros H. exfalso. apply H. eauto.
    + intros c c' Hc Hc' Hne. apply U1 in Hc. apply U1 in Hc'. congruence.
  - destruct S as [c1 [c2 [P1 [P2 Hne]]]]. split; [|split]; [| | reflexivity].
    + intros c Hc U. exfalso. apply Hne. rewrite (U c1 P1), (U c2 P2). reflexivity.
    + intros H. exfalso. apply H. eauto.
Qed.

(* ---------- request-level errors ---------- *)
Lemma api_set_empty : forall e rq, api_set e rq = [] -> forall x, In x (existing e) -> ~ api_allows e rq x.
Proof.
  intros e rq E x Hx Ha. assert (H : In x (api_set e rq)) by (apply api_set_spec; auto). rewrite E in H. exact H.
Qed.

Lemma no_applicable : forall rq u, filter (applicable rq) u = [] -> forall c, In c u -> ~ collector_allows rq c.
Proof.
  intros rq u E c Hc Ha. apply applicable_spec in Ha.
  assert (Hin : In c (filter (applicable rq) u)) by (apply filter_In; auto). rewrite E in Hin. exact Hin.
Qed.

Lemma precheck_sound_l : forall e u rq er, precheck e u rq = Some er -> request_error e u rq er.
Proof.
  intros e u rq er. unfold precheck.
  destruct (match ffw rq with Some x => negb (mem x (existing e)) | None => false end) eqn:E1.
  { intros H; inversion H; subst. cbn. destruct (ffw rq) as [y|]; [|discriminate]. exists y. split; [reflexivity|].
    apply mem_false. now apply negb_true_iff. }
  destruct (nonempty (api rq) && negb (nonempty (api_set e rq))) eqn:E2.
  { intros H; inversion H; subst. cbn. apply andb_true_iff in E2. destruct E2 as [Ea E2].
    apply negb_true_iff, nonempty_false in E2. split.
    - intros Ea'. rewrite Ea' in Ea. discriminate.
    - intros a x Ha' Hex Hal. apply (api_set_empty e rq E2 x Hex). right. exists a. split; assumption. }
  destruct (match ffw rq with Some x => negb (mem x (api_set e rq)) | None => false end) eqn:E3.
  { intros H; inversion H; subst. cbn. destruct (ffw rq) as [y|]; [|discriminate]. exists y. split; [reflexivity|].
    apply negb_false_iff, mem_In in E1. apply negb_true_iff, mem_false in E3. split; [exact E1|].
    rewrite api_set_spec in E3. intros Hal. apply E3. split; [exact Hal | exact E1]. }
  destruct (negb (nonempty (filter (applicable rq) u))) eqn:E4; [|discriminate].
  intros H; inversion H; subst. cbn. apply negb_true_iff, nonempty_false in E4. apply no_applicable. exact E4.
Qed.

Lemma precheck_complete_l : forall e u rq, precheck e u rq = None <-> forall er, ~ request_error e u rq er.
Proof.
  intros e u rq. split.
  - intros Hp er Her. unfold precheck in Hp.
    destruct (match ffw rq with Some x => negb (mem x (existing e)) | None => false end) eqn:E1; [discriminate|].
    destruct (nonempty (api rq) && negb (nonempty (api_set e rq))) eqn:E2; [discriminate|].
    destruct (match ffw rq with Some x => negb (mem x (api_set e rq)) | None => false end) eqn:E3; [discriminate|].
    destruct (negb (nonempty (filter (applicable rq) u))) eqn:E4; [discriminate|]. clear Hp.
    destruct er; cbn in Her; try exact Her.
    + destruct Her as [x [Ef Hn]]. rewrite Ef in E1. apply negb_false_iff, mem_In in E1. contradiction.
    + destruct Her as [Ha Hn]. apply andb_false_iff in E2. destruct E2 as [E2 | E2].
      * apply nonempty_false in E2. contradiction.
      * apply negb_false_iff, nonempty_spec in E2. destruct E2 as [x Hx]. apply api_set_spec in Hx.
        destruct Hx as [[Hx | [a [Ha' Hal]]] Hex]; [contradiction | exact (Hn a x Ha' Hex Hal)].
    + destruct Her as [x [Ef [Hex Hn]]]. rewrite Ef in E3. apply negb_false_iff, mem_In, api_set_spec in E3.
      destruct E3 as [E3 _]; contradiction.
    + apply negb_false_iff, nonempty_spec in E4. destruct E4 as [c Hc]. apply filter_In in Hc. destruct Hc as [Hu Ha].
      apply applicable_spec in Ha. exact (Her c Hu Ha).
  - intros H. destruct (precheck e u rq) as [er|] eqn:Hp; [|reflexivity].
    exfalso. exact (H er (precheck_sound_l e u rq er Hp)).
Qed.

(* ---------- order independence ---------- *)
Lemma filter_perm : forall A (f : A -> bool) l l', Permutation l l' -> Permutation (filter f l) (filter f l').
Proof.
  intros A f l l' H. induction H as [| x l l' H IH | x y l | l l' l'' H1 IH1 H2 IH2]; cbn.
  - constructor.
  - destruct (f x); [constructor; exact IH | exact IH].
  - destruct (f x), (f y); try apply Permutation_refl; [apply perm_swap].
  - eapply Permutation_trans; eassumption.
Qed.

Lemma existsb_perm : forall A (f : A -> bool) l l', Permutation l l' -> existsb f l = existsb f l'.
Proof.
  intros A f l l' H. induction H as [| x l l' H IH | x y l | l l' l'' H1 IH1 H2 IH2]; cbn.
  - reflexivity.
  - rewrite IH. reflexivity.
  - destruct (f x), (f y); reflexivity.
  - congruence.
Qed.

Lemma nonempty_perm : forall A (l l' : list A), Permutation l l' -> nonempty l = nonempty l'.
Proof.
  intros A l l' H. destruct l as [|a l].
  - apply Permutation_nil in H. subst. reflexivity.
  - destruct l' as [|b l']; [apply Permutation_sym, Permutation_nil in H; discriminate | reflexivity].
Qed.

Lemma identified_perm : forall e rq u u', Permutation u u' -> Permutation (identified e rq u) (identified e rq u').
Proof. intros. unfold identified, accessible. apply filter_perm, Permutation_map, filter_perm. assumption. Qed.

Lemma filter_subclasses_perm : forall l l', Permutation l l' -> Permutation (filter_subclasses l) (filter_subclasses l').
Proof.
  intros l l' H. unfold filter_subclasses.
  rewrite (filter_ext (fun o => negb (popped l o)) (fun o => negb (popped l' o))).
  - apply filter_perm. exact H.
  - intros o. unfold popped. rewrite (existsb_perm _ _ l l' H). reflexivity.
Qed.

Lemma survivors_perm_l : forall e rq u u', Permutation u u' -> Permutation (survivors e rq u) (survivors e rq u').
Proof. intros. unfold survivors. apply filter_subclasses_perm, identified_perm. assumption. Qed.

Lemma validate_perm : forall l l', Permutation l l' -> validate l = validate l'.
Proof.
  intros l l' H. destruct l as [|[c gf] [|q t]].
  - apply Permutation_nil in H. subst. reflexivity.
  - apply Permutation_length_1_inv in H. subst. reflexivity.
  - pose proof (Permutation_length H) as L. destruct l' as [|[c' gf'] [|q' t']]; cbn in L; try discriminate.
    cbn. destruct gf, gf'; reflexivity.
Qed.

Lemma precheck_perm : forall e rq u u', Permutation u u' -> precheck e u rq = precheck e u' rq.
Proof.
  intros e rq u u' H. unfold precheck.
  rewrite (nonempty_perm _ (filter (applicable rq) u) (filter (applicable rq) u')); [reflexivity|].
  apply filter_perm. exact H.
Qed.

Lemma resolve_perm_invariant_l : forall e rq u u', Permutation u u' -> resolve e u rq = resolve e u' rq.
Proof.
  intros e rq u u' H. unfold resolve. rewrite (precheck_perm e rq u u' H).
  rewrite (validate_perm _ _ (survivors_perm_l e rq u u' H)). reflexivity.
Qed.

(* ---------- frameworks ---------- *)
Lemma chosen_inv : forall e u rq n gf, resolve e u rq = Chosen n gf ->
  exists c, cid c = n /\ preferred e u rq c /\ (forall x, In x gf <-> group_fw e rq c x) /\ gf <> []
            /\ match ffw rq with Some y => In y gf | None => True end.
Proof.
  intros e u rq n gf H. destruct (precheck e u rq) as [er|] eqn:Hp.
  { unfold resolve in H. rewrite Hp in H. discriminate. }
  destruct (resolve_cases e u rq Hp) as [[_ E] | [[c [gf' [E [R [Hne Hf]]]]] | [p [q [t [_ E]]]]]]; try congruence.
  rewrite R in H. injection H as <- <-.
  assert (Hin : In (c, gf') (survivors e rq u)) by (rewrite E; now left).
  apply survivors_spec in Hin. destruct Hin as [c0 [Eq Hpref]]. injection Eq as -> ->.
  exists c0. split; [reflexivity|]. split; [exact Hpref|]. split; [intros x; apply group_fws_spec|]. split; assumption.
Qed.

Lemma framework_admissible_l : forall e u rq n gf, resolve e u rq = Chosen n gf ->
  exists c, In c u /\ cid c = n /\ admissible e rq c /\
            forall x, In x (feature_fws rq gf) <-> admissible_fw e rq c x.
Proof.
  intros e u rq n gf H. apply chosen_inv in H. destruct H as [c [En [[Hu [Had _]] [Hg [_ Hf]]]]].
  exists c. split; [exact Hu|]. split; [exact En|]. split; [exact Had|].
  intros x. unfold feature_fws, admissible_fw, feature_allows in *. destruct (ffw rq) as [y|].
  - split.
    + intros [<- | []]. split; [apply Hg; exact Hf | reflexivity].
    + intros [_ ->]. now left.
  - rewrite Hg. tauto.
Qed.

Lemma run_fw_admissible_l : forall choice : list fw -> fw, (forall l, l <> [] -> In (choice l) l) ->
  forall e u rq n gf, resolve e u rq = Chosen n gf ->
  exists c, In c u /\ cid c = n /\ admissible_fw e rq c (run_fw choice rq gf).
Proof.
  intros choice Hch e u rq n gf H. pose proof (chosen_inv _ _ _ _ _ H) as [_ [_ [_ [_ [Hne _]]]]].
  destruct (framework_admissible_l _ _ _ _ _ H) as [c [Hu [En [_ Hx]]]].
  exists c. split; [exact Hu|]. split; [exact En|]. apply Hx. unfold run_fw. apply Hch.
  unfold feature_fws. destruct (ffw rq); [discriminate | exact Hne].
Qed.

(* ---------- the literal reading of "preferring subclasses" ---------- *)
Lemma outcome_with_ext : forall (P Q : fgclass -> Prop) e rq r, (forall c, P c <-> Q c) ->
  outcome_with P e rq r -> outcome_with Q e rq r.
Proof.
  intros P Q e rq r H. destruct r as [n gf | er]; cbn.
  - intros [c [En [Pc [U G]]]]. exists c. split; [exact En|]. split; [apply H; exact Pc|]. split; [|exact G].
    intros c' Hc'. apply U. apply H. exact Hc'.
  - destruct er; try tauto.
    + intros Hn [c Hc]. apply Hn. exists c. apply H. exact Hc.
    + intros [c [c' [Hc [Hc' Hne]]]]. exists c, c'. split; [apply H; exact Hc|]. split; [apply H; exact Hc' | exact Hne].
Qed.

Lemma literal_partial_pref : forall e u rq, ~ kf_fw_mismatch e u rq ->
  forall c, preferred e u rq c <-> preferred_literal e u rq c.
Proof.
  intros e u rq Hk c. unfold preferred, preferred_literal. split.
  - intros [Hu [Had Hn]]. split; [exact Hu|]. split; [exact Had|].
    intros [c' [Hu' [Had' Hs]]].
    destruct (set_eqb (group_fws e rq c') (group_fws e rq c)) eqn:E.
    + apply same_fws_spec in E. apply Hn. exists c'. auto.
    + apply Hk. exists c, c'. split; [exact Hu|]. split; [exact Hu'|]. split; [exact Had|]. split; [exact Had'|].
      split; [exact Hs|]. intros Hsame. apply same_fws_spec in Hsame. congruence.
  - intros [Hu [Had Hn]]. split; [exact Hu|]. split; [exact Had|].
    intros [c' [Hu' [Had' [Hs _]]]]. apply Hn. exists c'. auto.
Qed.

Lemma resolve_literal_partial_l : forall e u rq, NoDup (map cid u) -> precheck e u rq = None ->
  ~ kf_fw_mismatch e u rq -> outcome_literal e u rq (resolve e u rq).
Proof.
  intros e u rq Hnd Hp Hk. unfold outcome_literal.
  apply (outcome_with_ext (preferred e u rq)); [apply literal_partial_pref; exact Hk|].
  apply resolve_sound_l; assumption.
Qed.

Lemma kf_b_spec : forall e u rq, kf_fw_mismatch_b e u rq = true <-> kf_fw_mismatch e u rq.
Proof.
  intros e u rq. unfold kf_fw_mismatch_b, kf_fw_mismatch. rewrite existsb_exists. split.
  - intros [o [Ho H]]. apply existsb_exists in H. destruct H as [i [Hi H]].
    apply identified_spec in Ho. apply identified_spec in Hi.
    destruct Ho as [c [-> [Hu Had]]]. destruct Hi as [c' [-> [Hu' Had']]]. cbn [fst snd] in H.
    apply andb_true_iff in H. destruct H as [H1 H2]. apply proper_sub_spec in H2.
    exists c, c'. split; [exact Hu|]. split; [exact Hu'|]. split; [exact Had|]. split; [exact Had'|].
    split; [exact H2|]. intros Hs. apply same_fws_spec in Hs. rewrite Hs in H1. discriminate.
  - intros [c [c' [Hu [Hu' [Had [Had' [Hs Hn]]]]]]]. exists (c, group_fws e rq c). split.
    + apply identified_spec. exists c. auto.
    + apply existsb_exists. exists (c', group_fws e rq c'). split; [apply identified_spec; exists c'; auto|].
      cbn [fst snd]. apply andb_true_iff. split; [|apply proper_sub_spec; exact Hs].
      apply negb_true_iff. destruct (set_eqb (group_fws e rq c') (group_fws e rq c)) eqn:E; [|reflexivity].
      exfalso. apply Hn. apply same_fws_spec. exact E.
Qed.

(* witness: parent P (any framework) and child C (only framework 0), both matching "f": the child is the only group left
   after preferring subclasses, the implementation rejects the request as ambiguous *)
Definition wit_e := {| existing := [0; 1; 2]; available := [0; 1; 2]; cname := fun x => x |}.
Definition wit_P := {| cid := 0; supers := []; accepts := ["f"]; dom := "default_domain"; rule := None; idxcols := None |}.
Definition wit_C := {| cid := 1; supers := [0]; accepts := ["f"]; dom := "default_domain"; rule := Some [0]; idxcols := None |}.
Definition wit_u := [wit_P; wit_C].
Definition wit_rq := {| api := []; collector := None; fname := "f"; fdom := None; ffw := None; links := None |}.

Lemma wit_C_admissible : admissible wit_e wit_rq wit_C.
Proof.
  unfold admissible. cbn. repeat split; auto. exists 0. unfold admissible_fw, group_fw, api_allows, rule_allows,
    is_available, feature_allows. cbn. tauto.
Qed.

Lemma literal_refuted_l :
  NoDup (map cid wit_u) /\ precheck wit_e wit_u wit_rq = None /\ kf_fw_mismatch wit_e wit_u wit_rq /\
  resolve wit_e wit_u wit_rq = Rejected EMultiple /\
  preferred_literal wit_e wit_u wit_rq wit_C /\ (forall c, preferred_literal wit_e wit_u wit_rq c -> c = wit_C) /\
  ~ outcome_literal wit_e wit_u wit_rq (resolve wit_e wit_u wit_rq).
Proof.
  assert (Sub : proper_sub wit_C wit_P) by (split; [discriminate | now left]).
  assert (Uniq : forall c, preferred_literal wit_e wit_u wit_rq c -> c = wit_C).
  { intros c [Hu [_ Hn]]. destruct Hu as [<- | [<- | []]]; [|reflexivity].
    exfalso. apply Hn. exists wit_C. split; [right; now left|]. split; [exact wit_C_admissible | exact Sub]. }
  split; [repeat constructor; cbn; intuition discriminate|].
  split; [reflexivity|]. split; [apply kf_b_spec; reflexivity|]. split; [reflexivity|].
  split; [|split; [exact Uniq|]].
  - split; [right; now left|]. split; [exact wit_C_admissible|].
    intros [c' [Hu [_ [Hne Hin]]]]. destruct Hu as [<- | [<- | []]]; [destruct Hin | apply Hne; reflexivity].
  - change (resolve wit_e wit_u wit_rq) with (Rejected EMultiple). cbn.
    intros [c [c' [Hc [Hc' Hne]]]]. apply Hne. rewrite (Uniq c Hc), (Uniq c' Hc'). reflexivity.
Qed.

(* ---------- plugin_docs.resolve_feature ---------- *)
Lemma doc_cands_spec : forall u name c,
  In c (filter (fun c => smem name (accepts c)) u) <-> In c u /\ In name (accepts c).
Proof. intros. rewrite filter_In, smem_In. tauto. Qed.

Lemma doc_filtered_spec : forall u name c,
  let cands := filter (fun c => smem name (accepts c)) u in
  In c (filter (fun o => negb (doc_popped cands o)) cands) <-> doc_pref u name c.
Proof.
  intros u name c cands. unfold doc_pref. rewrite filter_In. unfold cands at 1. rewrite doc_cands_spec.
  assert (P : doc_popped cands c = true <-> exists c', In c' u /\ In name (accepts c') /\ proper_sub c' c).
  { unfold doc_popped. rewrite existsb_exists. split.
    - intros [c' [Hc' H]]. apply doc_cands_spec in Hc'. apply proper_sub_spec in H. exists c'. tauto.
    - intros [c' [Hu [Hm Hs]]]. exists c'. split; [apply doc_cands_spec; auto | apply proper_sub_spec; exact Hs]. }
  rewrite negb_true_iff. split.
  - intros [[Hu Hm] Hn]. split; [exact Hu|]. split; [exact Hm|]. intros Hex. apply P in Hex. congruence.
  - intros [Hu [Hm Hn]]. split; [auto|]. destruct (doc_popped cands c) eqn:E; [|reflexivity].
    exfalso. apply Hn. apply P. reflexivity.
Qed.

Lemma doc_resolve_sound_l : forall u name, NoDup (map cid u) -> doc_outcome u name (doc_resolve u name).
Proof.
  intros u name Hnd. apply NoDup_map_inv in Hnd. unfold doc_resolve.
  pose proof (doc_filtered_spec u name) as F. cbn zeta in F.
  pose proof (doc_cands_spec u name) as C.
  assert (ND : NoDup (filter (fun o => negb (doc_popped (filter (fun c => smem name (accepts c)) u) o))
                             (filter (fun c => smem name (accepts c)) u))) by (apply NoDup_filter, NoDup_filter; exact Hnd).
  destruct (filter (fun c => smem name (accepts c)) u) as [|a l] eqn:Ec.
  - cbn. intros [c Hc]. apply C in Hc. exact Hc.
  - assert (Ha : exists c, In c u /\ In name (accepts c)) by (exists a; apply C; now left).
    destruct (filter (fun o => negb (doc_popped (a :: l) o)) (a :: l)) as [|p [|q t]] eqn:Ef.
    + cbn. split; [exact Ha|]. intros [c [Hc _]]. apply F in Hc. exact Hc.
    + cbn. exists p. split; [reflexivity|]. split; [apply F; now left|].
      intros c' Hc'. apply F in Hc'. destruct Hc' as [<- | []]. reflexivity.
    + cbn. split; [exact Ha|]. intros [c [_ U]].
      assert (Hp : p = c) by (apply U, F; now left). assert (Hq : q = c) by (apply U, F; right; now left).
      inversion ND as [|? ? Hn _]; subst. apply Hn. now left.
Qed.

Lemma doc_engine_agree_l : forall e u rq, NoDup (map cid u) -> precheck e u rq = None ->
  collector rq = None -> fdom rq = None -> ffw rq = None -> links rq = None ->
  (forall c, In c u -> In (fname rq) (accepts c) -> exists x, group_fw e rq c x) ->
  ~ kf_fw_mismatch e u rq ->
  forall n, (exists gf, resolve e u rq = Chosen n gf) <-> doc_resolve u (fname rq) = Some (Some n).
Proof.
  intros e u rq Hnd Hp Hc Hd Hf Hl Hfw Hk n.
  assert (A : forall c, In c u -> (admissible e rq c <-> In (fname rq) (accepts c))).
  { intros c Hu. unfold admissible, collector_allows, links_allow, admissible_fw, feature_allows.
    rewrite Hc, Hd, Hf, Hl. split; [tauto|]. intros Hm. destruct (Hfw c Hu Hm) as [x Hx].
    repeat split; try exact Hm; [destruct (idxcols c); exact I | exists x; split; [exact Hx | exact I]]. }
  assert (L : forall c, preferred e u rq c <-> doc_pref u (fname rq) c).
  { intros c. rewrite (literal_partial_pref e u rq Hk). unfold preferred_literal, doc_pref. split.
    - intros [Hu [Had Hn]]. split; [exact Hu|]. split; [exact (proj1 (A c Hu) Had)|].
      intros [c' [Hu' [Hm Hs]]]. apply Hn. exists c'. split; [exact Hu'|]. split; [exact (proj2 (A c' Hu') Hm) | exact Hs].
    - intros [Hu [Hm Hn]]. split; [exact Hu|]. split; [exact (proj2 (A c Hu) Hm)|].
      intros [c' [Hu' [Had' Hs]]]. apply Hn. exists c'. split; [exact Hu'|]. split; [exact (proj1 (A c' Hu') Had') | exact Hs]. }
  pose proof (doc_resolve_sound_l u (fname rq) Hnd) as D.
  split.
  - intros [gf R]. pose proof (resolve_sound_l e u rq Hnd Hp) as S. rewrite R in S. cbn in S.
    destruct S as [c [En [Pc [U _]]]].
    assert (Dc : doc_pref u (fname rq) c) by (apply L; exact Pc).
    assert (DU : forall c', doc_pref u (fname rq) c' -> c' = c) by (intros c' H; apply U, L; exact H).
    destruct (doc_resolve u (fname rq)) as [[m|]|]; cbn in D.
    + destruct D as [c1 [E1 [P1 _]]]. rewrite <- E1, (DU c1 P1), En. reflexivity.
    + exfalso. apply (proj2 D). exists c. auto.
    + exfalso. apply D. exists c. split; apply Dc.
  - intros R. rewrite R in D. cbn in D. destruct D as [c [En [Pc U]]]. subst n.
    destruct (resolve_complete_l e u rq Hnd Hp) as [H1 _]. apply H1.
    + apply L. exact Pc.
    + intros c' Hc'. apply U, L. exact Hc'.
Qed.

Lemma doc_engine_differ_l :
  doc_resolve wit_u "f" = Some (Some 1) /\ resolve wit_e wit_u wit_rq = Rejected EMultiple.
Proof. split; reflexivity. Qed.

(* ---------- exactly one / none / several ---------- *)
Lemma resolve_rejection_l : forall e u rq, NoDup (map cid u) -> precheck e u rq = None ->
  (resolve e u rq = Rejected ENoGroup <-> ~ exists c, preferred e u rq c) /\
  (resolve e u rq = Rejected EMultiple <-> exists c c', preferred e u rq c /\ preferred e u rq c' /\ c <> c') /\
  ((exists n gf, resolve e u rq = Chosen n gf) <->
   exists c, preferred e u rq c /\ forall c', preferred e u rq c' -> c' = c).
Proof.
  intros e u rq Hnd Hp. pose proof (resolve_sound_l e u rq Hnd Hp) as S.
  destruct (resolve_complete_l e u rq Hnd Hp) as [C1 [C2 C3]].
  split; [|split].
  - split; [intros R; rewrite R in S; exact S | exact C2].
  - split; [intros R; rewrite R in S; exact S|]. intros [c [c' [P [P' Hne]]]]. exact (C3 c c' P P' Hne).
  - split.
    + intros [n [gf R]]. rewrite R in S. cbn in S. destruct S as [c [_ [P [U _]]]]. exists c. auto.
    + intros [c [P U]]. destruct (C1 c P U) as [gf R]. eauto.
Qed.
