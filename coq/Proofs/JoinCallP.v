(* Frame / irrelevance lemmas for rel_join and the JoinStep's merge call (Spec/JoinFrame.v, Model/JoinCall.v).
   Statements of record: Props/C05keys.v. *)
From Coq Require Import List String Bool Arith.
Import ListNotations.
Require Import MV.Spec.Rel MV.Proofs.RelLemmas MV.Spec.JoinFrame MV.Model.Routing MV.Model.RoutingJ MV.Model.JoinCall.
Open Scope string_scope.
Open Scope list_scope.

(* ---------------------------------------------------------------------------------------------------- *)
(* lists *)

Lemma filter_filter_comm : forall (A : Type) (q p p' : A -> bool) l,
  (forall x, q x = true -> p x = p' x) -> filter q (filter p l) = filter p' (filter q l).
Proof.
  intros A q p p' l H. induction l as [|x t IH]; simpl; auto.
  destruct (q x) eqn:Q; simpl.
  - rewrite <- (H x Q). destruct (p x); simpl; rewrite ?Q; now rewrite IH.
  - destruct (p x); simpl; rewrite ?Q; exact IH.
Qed.

Lemma filter_filter_and : forall (A : Type) (p q : A -> bool) l,
  filter p (filter q l) = filter (fun x => q x && p x) l.
Proof.
  intros. induction l as [|x t IH]; simpl; auto.
  destruct (q x); simpl; auto. destruct (p x); simpl; now rewrite IH.
Qed.

Lemma map_fst_filter : forall (p : col -> bool) (r : row),
  map fst (filter (fun cv => p (fst cv)) r) = filter p (map fst r).
Proof.
  intros. induction r as [|[c v] t IH]; simpl; auto. destruct (p c); simpl; now rewrite IH.
Qed.

Lemma filter_flat_map : forall (A B : Type) (p : B -> bool) (f : A -> list B) l,
  filter p (flat_map f l) = flat_map (fun x => filter p (f x)) l.
Proof.
  intros. induction l as [|x t IH]; simpl; auto. now rewrite filter_app, IH.
Qed.

(* related lists: Forall2 P T T' *)
Lemma F2_map_filter : forall (P : row -> row -> Prop) (D : row -> row) (p p' : row -> bool) (f f' : row -> row) T T',
  Forall2 P T T' ->
  (forall r r', P r r' -> p r = p' r') ->
  (forall r r', P r r' -> D (f r) = D (f' r')) ->
  map D (map f (filter p T)) = map D (map f' (filter p' T')).
Proof.
  intros P D p p' f f' T T' H Hp Hf. induction H as [|r r' T T' Hr _ IH]; simpl; auto.
  rewrite <- (Hp _ _ Hr). destruct (p r); simpl; auto. now rewrite (Hf _ _ Hr), IH.
Qed.

Lemma F2_existsb : forall (P : row -> row -> Prop) (p p' : row -> bool) T T',
  Forall2 P T T' -> (forall r r', P r r' -> p r = p' r') -> existsb p T = existsb p' T'.
Proof.
  intros P p p' T T' H Hp. induction H as [|r r' T T' Hr _ IH]; simpl; auto. now rewrite (Hp _ _ Hr), IH.
Qed.

Lemma F2_flat_map : forall (P : row -> row -> Prop) (D : row -> row) (g g' : row -> table) T T',
  Forall2 P T T' -> (forall l l', P l l' -> map D (g l) = map D (g' l')) ->
  map D (flat_map g T) = map D (flat_map g' T').
Proof.
  intros P D g g' T T' H Hg. induction H as [|r r' T T' Hr _ IH]; simpl; auto.
  now rewrite !map_app, (Hg _ _ Hr), IH.
Qed.

Lemma F2_impl : forall (A B : Type) (P Q : A -> B -> Prop) l l',
  (forall a b, P a b -> Q a b) -> Forall2 P l l' -> Forall2 Q l l'.
Proof. intros A B P Q l l' H F. induction F; constructor; auto. Qed.

Lemma map_eq_Forall2 : forall (D : row -> row) T T',
  map D T = map D T' <-> Forall2 (fun r r' => D r = D r') T T'.
Proof.
  intros D T. induction T as [|r T IH]; intros [|r' T']; simpl; split; intro H; try discriminate; auto;
    try (inversion H; fail).
  - inversion H. constructor; auto. now apply IH.
  - inversion H; subst. f_equal; auto. now apply IH.
Qed.

(* ---------------------------------------------------------------------------------------------------- *)
(* drop_cols *)

Lemma drop_cols_app_cols : forall cs ds r, drop_cols (cs ++ ds) r = drop_cols ds (drop_cols cs r).
Proof.
  intros. unfold drop_cols. rewrite filter_filter_and. apply filter_ext. intros [c v]. simpl.
  rewrite mem_app. now rewrite negb_orb.
Qed.

Lemma drop_cols_comm : forall cs ds r, drop_cols ds (drop_cols cs r) = drop_cols cs (drop_cols ds r).
Proof.
  intros. unfold drop_cols. rewrite !filter_filter_and. apply filter_ext. intros [c v]. simpl. apply andb_comm.
Qed.

Lemma drop_cols_app : forall cs a b, drop_cols cs (a ++ b) = drop_cols cs a ++ drop_cols cs b.
Proof. intros. unfold drop_cols. apply filter_app. Qed.

Lemma drop_cols_nil : forall r, drop_cols [] r = r.
Proof.
  intros. unfold drop_cols. induction r as [|x t IH]; auto. cbn [filter].
  replace (negb (mem (fst x) [])) with true by reflexivity. now rewrite IH.
Qed.

Lemma row_cols_drop : forall cs r, row_cols (drop_cols cs r) = filter (fun c => negb (mem c cs)) (row_cols r).
Proof. intros. unfold row_cols, drop_cols. apply (map_fst_filter (fun c => negb (mem c cs))). Qed.

Lemma mem_filter : forall (p : col -> bool) c l, mem c (filter p l) = mem c l && p c.
Proof.
  intros. unfold mem. induction l as [|d t IH]; simpl; auto.
  destruct (p d) eqn:Pd; simpl; rewrite IH.
  - destruct (String.eqb c d) eqn:E; simpl; auto. apply String.eqb_eq in E. subst. now rewrite Pd.
  - destruct (String.eqb c d) eqn:E; simpl; auto. apply String.eqb_eq in E. subst. rewrite Pd.
    now rewrite andb_false_r.
Qed.

Lemma has_col_drop : forall cs c r, mem c cs = false -> has_col c (drop_cols cs r) = has_col c r.
Proof.
  intros cs c r H. unfold has_col. rewrite row_cols_drop, mem_filter, H. simpl. apply andb_true_r.
Qed.

Lemma get_drop : forall cs c r, mem c cs = false -> get c (drop_cols cs r) = get c r.
Proof.
  intros cs c r H. unfold drop_cols. rewrite (get_filter_cols (fun x => negb (mem x cs))). now rewrite H.
Qed.

Lemma disjoint_cols_mem : forall ks cs k, disjoint_cols ks cs = true -> In k ks -> mem k cs = false.
Proof.
  intros ks cs k H Hin. unfold disjoint_cols in H. rewrite forallb_forall in H. apply H in Hin.
  now apply negb_true_iff in Hin.
Qed.

Lemma key_of_drop : forall ks cs r, disjoint_cols ks cs = true -> key_of ks (drop_cols cs r) = key_of ks r.
Proof.
  intros ks cs r H. unfold key_of. apply map_ext_in. intros k Hin. apply get_drop.
  eapply disjoint_cols_mem; eauto.
Qed.

Lemma key_of_agree : forall ks cs r r',
  disjoint_cols ks cs = true -> drop_cols cs r = drop_cols cs r' -> key_of ks r = key_of ks r'.
Proof. intros ks cs r r' H E. rewrite <- (key_of_drop ks cs r H), E. now apply key_of_drop. Qed.

Lemma drop_row_union : forall cs l r,
  drop_cols cs (row_union l r) = row_union (drop_cols cs l) (drop_cols cs r).
Proof.
  intros. unfold row_union. rewrite drop_cols_app. f_equal. unfold drop_cols.
  apply (filter_filter_comm _ (fun cv : col * val => negb (mem (fst cv) cs))
           (fun cv => negb (has_col (fst cv) l))
           (fun cv => negb (has_col (fst cv) (filter (fun cv0 => negb (mem (fst cv0) cs)) l)))).
  intros [c v] Q. simpl in *. apply negb_true_iff in Q. f_equal. symmetry. now apply (has_col_drop cs c l).
Qed.

Lemma drop_pad : forall cs cols r,
  drop_cols cs (pad cols r) = pad (filter (fun c => negb (mem c cs)) cols) (drop_cols cs r).
Proof.
  intros. unfold pad. rewrite drop_cols_app. f_equal.
  assert (E : forall X : list col, drop_cols cs (map (fun c => (c, VNull)) X)
                                   = map (fun c => (c, VNull)) (filter (fun c => negb (mem c cs)) X)).
  { induction X as [|x X IH]; simpl; auto. destruct (mem x cs); simpl; now rewrite IH. }
  rewrite E. f_equal.
  apply (filter_filter_comm _ (fun c => negb (mem c cs)) (fun c => negb (has_col c r))
           (fun c => negb (has_col c (drop_cols cs r)))).
  intros c Q. apply negb_true_iff in Q. f_equal. symmetry. now apply has_col_drop.
Qed.

Lemma table_cols_drop : forall cs T,
  table_cols (map (drop_cols cs) T) = filter (fun c => negb (mem c cs)) (table_cols T).
Proof.
  intros. unfold table_cols. rewrite filter_flat_map. induction T as [|r T IH]; simpl; auto.
  now rewrite row_cols_drop, IH.
Qed.

Lemma agree_off_table_cols : forall cs T T', agree_off cs T T' ->
  filter (fun c => negb (mem c cs)) (table_cols T) = filter (fun c => negb (mem c cs)) (table_cols T').
Proof. intros cs T T' H. rewrite <- !table_cols_drop. now rewrite H. Qed.

Lemma agree_off_refl : forall cs T, agree_off cs T T.
Proof. reflexivity. Qed.
Lemma agree_off_sym : forall cs T T', agree_off cs T T' -> agree_off cs T' T.
Proof. unfold agree_off. intros. now symmetry. Qed.
Lemma agree_off_trans : forall cs A B C, agree_off cs A B -> agree_off cs B C -> agree_off cs A C.
Proof. unfold agree_off. intros. congruence. Qed.

Lemma agree_off_weaken_l : forall cs ds T T', agree_off cs T T' -> agree_off (cs ++ ds) T T'.
Proof.
  unfold agree_off. intros cs ds T T' H.
  rewrite (map_ext _ _ (drop_cols_app_cols cs ds)). symmetry. rewrite (map_ext _ _ (drop_cols_app_cols cs ds)).
  rewrite <- !(map_map (drop_cols cs) (drop_cols ds)). now rewrite H.
Qed.

Lemma agree_off_weaken_r : forall cs ds T T', agree_off ds T T' -> agree_off (cs ++ ds) T T'.
Proof.
  unfold agree_off. intros cs ds T T' H.
  assert (E : forall r, drop_cols (cs ++ ds) r = drop_cols cs (drop_cols ds r)).
  { intro r. now rewrite drop_cols_app_cols, drop_cols_comm. }
  rewrite (map_ext _ _ E). symmetry. rewrite (map_ext _ _ E).
  rewrite <- !(map_map (drop_cols ds) (drop_cols cs)). now rewrite H.
Qed.

Lemma agree_off_nil : forall T T', agree_off [] T T' <-> T = T'.
Proof.
  unfold agree_off. intros. rewrite !(map_ext _ _ drop_cols_nil), !map_id. tauto.
Qed.

Lemma agree_off_app : forall cs A A' B B', agree_off cs A A' -> agree_off cs B B' -> agree_off cs (A ++ B) (A' ++ B').
Proof. unfold agree_off. intros. rewrite !map_app. congruence. Qed.

(* ---------------------------------------------------------------------------------------------------- *)
(* the frame theorem *)

Section Frame.
  Variables lk rk cs ds : list col.
  Hypothesis Hlk : disjoint_cols lk cs = true.
  Hypothesis Hrk : disjoint_cols rk ds = true.

  Let Pl (l l' : row) : Prop := drop_cols cs l = drop_cols cs l'.
  Let Pr (r r' : row) : Prop := drop_cols ds r = drop_cols ds r'.
  Let D : row -> row := drop_cols (cs ++ ds).

  Lemma Pl_D : forall l l', Pl l l' -> D l = D l'.
  Proof. intros l l' H. unfold D. rewrite !drop_cols_app_cols. now rewrite H. Qed.
  Lemma Pr_D : forall r r', Pr r r' -> D r = D r'.
  Proof. intros r r' H. unfold D. rewrite !drop_cols_app_cols, !(drop_cols_comm cs ds). now rewrite H. Qed.

  Lemma matches_frame : forall l l' r r', Pl l l' -> Pr r r' -> Rel.matches lk rk l r = Rel.matches lk rk l' r'.
  Proof.
    intros l l' r r' Hl Hr. unfold Rel.matches.
    now rewrite (key_of_agree lk cs l l' Hlk Hl), (key_of_agree rk ds r r' Hrk Hr).
  Qed.

  Lemma row_union_frame : forall l l' r r', Pl l l' -> Pr r r' -> D (row_union l r) = D (row_union l' r').
  Proof.
    intros l l' r r' Hl Hr. unfold D. rewrite !drop_row_union. fold D.
    now rewrite (Pl_D _ _ Hl), (Pr_D _ _ Hr).
  Qed.

  Lemma pad_frame : forall (P : row -> row -> Prop) T T' x x',
    (forall a b, P a b -> D a = D b) -> Forall2 P T T' -> D x = D x' ->
    D (pad (table_cols T) x) = D (pad (table_cols T') x').
  Proof.
    intros P T T' x x' HP HT Hx. unfold D. rewrite !drop_pad. fold D. rewrite Hx. f_equal.
    apply agree_off_table_cols. unfold agree_off. apply map_eq_Forall2.
    eapply F2_impl; [|exact HT]. intros a b Hab. exact (HP _ _ Hab).
  Qed.

  Variables L L' R R' : table.
  Hypothesis HL : Forall2 Pl L L'.
  Hypothesis HR : Forall2 Pr R R'.

  Lemma inner_rows_frame : map D (inner_rows lk rk L R) = map D (inner_rows lk rk L' R').
  Proof.
    unfold inner_rows. apply (F2_flat_map Pl); auto. intros l l' Hl.
    apply (F2_map_filter Pr); auto.
    - intros r r' Hr. now apply matches_frame.
    - intros r r' Hr. now apply row_union_frame.
  Qed.

  Lemma left_only_frame :
    map D (map (pad (table_cols R)) (left_only lk rk L R)) = map D (map (pad (table_cols R')) (left_only lk rk L' R')).
  Proof.
    unfold left_only. apply (F2_map_filter Pl); auto.
    - intros l l' Hl. f_equal. apply (F2_existsb Pr); auto. intros r r' Hr. now apply matches_frame.
    - intros l l' Hl. apply (pad_frame Pr); auto using Pr_D, Pl_D.
  Qed.

  Lemma right_only_frame :
    map D (map (pad (table_cols L)) (right_only lk rk L R)) = map D (map (pad (table_cols L')) (right_only lk rk L' R')).
  Proof.
    unfold right_only. apply (F2_map_filter Pr); auto.
    - intros r r' Hr. f_equal. apply (F2_existsb Pl); auto. intros l l' Hl. now apply matches_frame.
    - intros r r' Hr. apply (pad_frame Pl); auto using Pr_D, Pl_D.
  Qed.

  Lemma rel_join_frame_F2 : forall jt, keyed jt = true ->
    map D (rel_join jt lk rk L R) = map D (rel_join jt lk rk L' R').
  Proof.
    intros jt Hk. destruct jt; try discriminate; simpl;
      unfold rel_inner, rel_left, rel_right, rel_outer; rewrite ?map_app;
      rewrite ?inner_rows_frame, ?left_only_frame, ?right_only_frame; reflexivity.
  Qed.
End Frame.

Theorem rel_join_frame : forall jt lk rk cs ds L L' R R',
  keyed jt = true -> disjoint_cols lk cs = true -> disjoint_cols rk ds = true ->
  agree_off cs L L' -> agree_off ds R R' ->
  agree_off (cs ++ ds) (rel_join jt lk rk L R) (rel_join jt lk rk L' R').
Proof.
  intros jt lk rk cs ds L L' R R' Hk Hl Hr HL HR. unfold agree_off.
  apply rel_join_frame_F2; auto; now apply map_eq_Forall2.
Qed.

Corollary rel_join_frame_left : forall jt lk rk cs L L' R,
  keyed jt = true -> disjoint_cols lk cs = true -> agree_off cs L L' ->
  agree_off cs (rel_join jt lk rk L R) (rel_join jt lk rk L' R).
Proof.
  intros jt lk rk cs L L' R Hk Hl HL.
  assert (H := rel_join_frame jt lk rk cs [] L L' R R Hk Hl).
  rewrite app_nil_r in H. apply H; auto.
  - unfold disjoint_cols. apply forallb_forall. reflexivity.
  - apply agree_off_refl.
Qed.

Corollary rel_join_frame_right : forall jt lk rk ds L R R',
  keyed jt = true -> disjoint_cols rk ds = true -> agree_off ds R R' ->
  agree_off ds (rel_join jt lk rk L R) (rel_join jt lk rk L R').
Proof.
  intros jt lk rk ds L R R' Hk Hr HR.
  apply (rel_join_frame jt lk rk [] ds L L R R' Hk); auto.
  - unfold disjoint_cols. apply forallb_forall. reflexivity.
  - apply agree_off_refl.
Qed.

(* what a consumer that only reads the columns ps sees *)
Lemma proj_cols_drop : forall ps cs r, disjoint_cols ps cs = true -> proj_cols ps (drop_cols cs r) = proj_cols ps r.
Proof.
  intros ps cs r H. unfold proj_cols. apply map_ext_in. intros c Hin. f_equal. apply get_drop.
  eapply disjoint_cols_mem; eauto.
Qed.

Lemma agree_off_proj : forall ps cs T T', disjoint_cols ps cs = true -> agree_off cs T T' ->
  map (proj_cols ps) T = map (proj_cols ps) T'.
Proof.
  intros ps cs T T' H HT.
  rewrite <- (map_ext _ _ (fun r => proj_cols_drop ps cs r H)).
  rewrite <- (map_map (drop_cols cs) (proj_cols ps)), HT, map_map.
  apply map_ext. intro r. now apply proj_cols_drop.
Qed.

(* ---------------------------------------------------------------------------------------------------- *)
(* the JoinStep's merge call *)

Theorem merge_data_keys_follow_link : forall l cs ds L L' R R',
  keyed (ld_jt l) = true -> disjoint_cols (ld_left l) cs = true -> disjoint_cols (ld_right l) ds = true ->
  agree_off cs L L' -> agree_off ds R R' ->
  agree_off (cs ++ ds) (merge_data rel_join l L R) (merge_data rel_join l L' R').
Proof. intros. unfold merge_data. now apply rel_join_frame. Qed.

Theorem merge_data_consumer_view : forall l cs ds ps L L' R R',
  keyed (ld_jt l) = true -> disjoint_cols (ld_left l) cs = true -> disjoint_cols (ld_right l) ds = true ->
  disjoint_cols ps (cs ++ ds) = true ->
  agree_off cs L L' -> agree_off ds R R' ->
  map (proj_cols ps) (merge_data rel_join l L R) = map (proj_cols ps) (merge_data rel_join l L' R').
Proof.
  intros l cs ds ps L L' R R' Hk Hl Hr Hp HL HR.
  apply (agree_off_proj ps (cs ++ ds)); auto. now apply merge_data_keys_follow_link.
Qed.

(* guessing the orientation from the column names is the declared call whenever the schemas do not "look inverted" ... *)
Lemma merge_data_by_names_declared : forall E l T O,
  subset_cols (ld_right l) (table_cols T) && subset_cols (ld_left l) (table_cols O) = false ->
  merge_data_by_names E l T O = merge_data E l T O.
Proof. intros E l T O H. unfold merge_data_by_names, resolve_by_names. now rewrite H. Qed.

(* ... and for equally named keys *)
Lemma merge_data_by_names_equal_keys : forall E l T O, ld_left l = ld_right l ->
  merge_data_by_names E l T O = merge_data E l T O.
Proof.
  intros E l T O H. unfold merge_data_by_names, resolve_by_names, merge_data. rewrite H.
  now destruct (subset_cols (ld_right l) (table_cols T) && subset_cols (ld_right l) (table_cols O)).
Qed.

(* when the schemas DO look inverted the exchanged indexes are used *)
Lemma merge_data_by_names_swaps : forall E l T O,
  subset_cols (ld_right l) (table_cols T) && subset_cols (ld_left l) (table_cols O) = true ->
  merge_data_by_names E l T O = E (ld_jt l) (ld_right l) (ld_left l) T O.
Proof. intros E l T O H. unfold merge_data_by_names, resolve_by_names. now rewrite H. Qed.

(* ---------------------------------------------------------------------------------------------------- *)
(* the run-time join path: what exec_x writes for a JoinStep is the merge call with the step's Link *)

Lemma exec_x_join_merge_data : forall s j s', exec_x s (XJ j) = (s', XOk) ->
  exists w r tl tr,
    route_join (x_reg s) (x_rel s) j = RoutedJ (x_reg s') w (Some r) /\
    rs_get (x_store s) w = Some tl /\ rs_get (x_store s) r = Some tr /\
    x_store s' = (w, merge_data rel_join (link_of_jrec j) tl tr) :: x_store s /\
    x_rel s' = mrel_add (x_rel s) w r (j_cls j).
Proof.
  intros s j s' H. unfold exec_x in H. simpl route_x in H.
  destruct (route_join (x_reg s) (x_rel s) j) as [reg' w rd| |] eqn:Rt; try discriminate.
  destruct rd as [r|]; try discriminate.
  destruct (rs_get (x_store s) w) as [tl|] eqn:Gl; try discriminate.
  destruct (rs_get (x_store s) r) as [tr|] eqn:Gr; try discriminate.
  inversion H; subst; clear H. simpl. exists w, r, tl, tr. repeat split; auto.
Qed.

(* two runs that route a JoinStep alike and hold, at the objects it touches, tables that differ only in columns that are no
   keys of that side: the tables written differ only in those columns *)
Theorem join_step_frame : forall s1 s2 j s1' s2' cs ds,
  x_reg s1 = x_reg s2 -> x_rel s1 = x_rel s2 ->
  exec_x s1 (XJ j) = (s1', XOk) -> exec_x s2 (XJ j) = (s2', XOk) ->
  keyed (j_jt j) = true -> disjoint_cols (j_lk j) cs = true -> disjoint_cols (j_rk j) ds = true ->
  (forall w r, route_join (x_reg s1) (x_rel s1) j = RoutedJ (x_reg s1') w (Some r) ->
     forall tl1 tl2 tr1 tr2,
       rs_get (x_store s1) w = Some tl1 -> rs_get (x_store s2) w = Some tl2 ->
       rs_get (x_store s1) r = Some tr1 -> rs_get (x_store s2) r = Some tr2 ->
       agree_off cs tl1 tl2 /\ agree_off ds tr1 tr2) ->
  exists w t1 t2, hd_error (x_store s1') = Some (w, t1) /\ hd_error (x_store s2') = Some (w, t2) /\
                  agree_off (cs ++ ds) t1 t2.
Proof.
  intros s1 s2 j s1' s2' cs ds Hreg Hrel H1 H2 Hk Hl Hr Hag.
  apply exec_x_join_merge_data in H1. apply exec_x_join_merge_data in H2.
  destruct H1 as (w1 & r1 & tl1 & tr1 & Rt1 & Gl1 & Gr1 & St1 & _).
  destruct H2 as (w2 & r2 & tl2 & tr2 & Rt2 & Gl2 & Gr2 & St2 & _).
  rewrite <- Hreg, <- Hrel in Rt2. rewrite Rt1 in Rt2. inversion Rt2; subst w2 r2.
  destruct (Hag w1 r1 Rt1 tl1 tl2 tr1 tr2 Gl1 Gl2 Gr1 Gr2) as [Al Ar].
  exists w1, (merge_data rel_join (link_of_jrec j) tl1 tr1), (merge_data rel_join (link_of_jrec j) tl2 tr2).
  rewrite St1, St2. simpl. repeat split; auto.
  apply merge_data_keys_follow_link; auto.
Qed.
