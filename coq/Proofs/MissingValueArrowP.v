(* C19 lemmas: the Python glue of missing_value/pyarrow.py (Model/MissingValueArrow.v) computes the imputation
   specification, for every column, every group-by columns and every method, under the kernel contracts `pa_contracts`. *)
From Coq Require Import QArith List Bool Arith ZArith Lia.
Import ListNotations.
Require Import MV.Spec.Builtins MV.Model.MissingValuePyDict MV.Model.MissingValueArrow.
Require Import MV.Proofs.ImputeP MV.Proofs.ImputeGroupedP.
Open Scope Q_scope.

(* ---------------------------------------------------------------------------------------------------------- *)
(* the reference kernels satisfy the contracts (so the contracts are consistent)                              *)
Lemma ref_contracts : pa_contracts ref_kernels.
Proof.
  constructor; cbn; intros; auto.
  unfold ref_fill_null. rewrite H. reflexivity.
Qed.

(* ---------------------------------------------------------------------------------------------------------- *)
(* small list facts                                                                                           *)
Lemma list_max_map_snd_app : forall (d1 d2 : list (Q * nat)) r,
  (forall p, In p d1 -> (snd p < snd r)%nat) -> (forall p, In p d2 -> (snd p <= snd r)%nat) ->
  list_max (map snd (d1 ++ r :: d2)) = snd r.
Proof.
  intros d1 d2 r H1 H2. rewrite map_app, list_max_app. cbn [map].
  change (list_max (snd r :: map snd d2)) with (Nat.max (snd r) (list_max (map snd d2))).
  assert (A : (list_max (map snd d1) <= snd r)%nat).
  { apply list_max_le. apply Forall_forall. intros x Hx. apply in_map_iff in Hx. destruct Hx as [p [<- Hp]].
    specialize (H1 _ Hp). lia. }
  assert (B : (list_max (map snd d2) <= snd r)%nat).
  { apply list_max_le. apply Forall_forall. intros x Hx. apply in_map_iff in Hx. destruct Hx as [p [<- Hp]]. auto. }
  lia.
Qed.

Lemma filter_seq_none : forall (P : nat -> bool) s n, (forall i, (s <= i < s + n)%nat -> P i = false) -> filter P (seq s n) = [].
Proof.
  intros P s n. revert s. induction n as [|n IH]; intros s H; cbn [seq filter]. reflexivity.
  rewrite (H s) by lia. apply IH. intros; apply H; lia.
Qed.

(* the Python loop over `range(len(counts))` finds the first entry with the largest count *)
Lemma first_max_index : forall d r, first_max d r ->
  exists i rest, filter (fun i => Nat.eqb (nth i (map snd d) 0%nat) (list_max (map snd d))) (seq 0 (List.length (map snd d)))
                 = i :: rest /\ nth i (map fst d) 0 = fst r.
Proof.
  intros d r [d1 [d2 [E [H1 H2]]]]. subst d. rewrite (list_max_map_snd_app d1 d2 r H1 H2).
  exists (List.length d1), (filter (fun i => Nat.eqb (nth i (map snd (d1 ++ r :: d2)) 0%nat) (snd r))
                                   (seq (S (List.length d1)) (List.length d2))).
  split.
  - rewrite map_length, app_length. cbn [List.length]. rewrite seq_app, filter_app. cbn [seq Nat.add filter].
    rewrite filter_seq_none.
    + cbn [app]. rewrite map_app, app_nth2 by (rewrite map_length; lia). rewrite map_length, Nat.sub_diag. cbn [map nth].
      rewrite Nat.eqb_refl. reflexivity.
    + intros i Hi. apply Nat.eqb_neq. rewrite map_app, app_nth1 by (rewrite map_length; lia).
      assert (In (nth i (map snd d1) 0%nat) (map snd d1)) by (apply nth_In; rewrite map_length; lia).
      apply in_map_iff in H. destruct H as [p [Ep Hp]]. rewrite <- Ep. specialize (H1 _ Hp). lia.
  - rewrite map_app, app_nth2 by (rewrite map_length; lia). rewrite map_length, Nat.sub_diag. reflexivity.
Qed.

(* ---------------------------------------------------------------------------------------------------------- *)
(* masks, filters, row numbers                                                                                *)
Lemma filter_all : forall {A} (P : A -> bool) l, (forall x, In x l -> P x = true) -> filter P l = l.
Proof.
  induction l as [|x t IH]; intros H; cbn [filter]. reflexivity.
  rewrite (H x) by (left; auto). f_equal. apply IH. intros; apply H; right; auto.
Qed.
Lemma filter_filter : forall {A} (P R : A -> bool) l, filter R (filter P l) = filter (fun x => P x && R x) l.
Proof.
  induction l as [|x t IH]; cbn [filter]. reflexivity.
  destruct (P x); cbn [filter andb]. destruct (R x); rewrite IH; reflexivity. exact IH.
Qed.
Lemma filter_comm : forall {A} (P R : A -> bool) l, filter R (filter P l) = filter P (filter R l).
Proof. intros. rewrite !filter_filter. apply filter_ext. intros. apply andb_comm. Qed.

Lemma filter_lt_seq : forall i n, (i <= n)%nat -> filter (fun r => r <? i)%nat (seq 0 n) = seq 0 i.
Proof.
  intros i n H. replace n with (i + (n - i))%nat by lia. rewrite seq_app, filter_app. cbn [Nat.add].
  rewrite filter_all, filter_seq_none. apply app_nil_r.
  - intros j Hj. apply Nat.ltb_ge. lia.
  - intros j Hj. apply in_seq in Hj. apply Nat.ltb_lt. lia.
Qed.
Lemma filter_gt_seq : forall i n, (i < n)%nat -> filter (fun r => i <? r)%nat (seq 0 n) = seq (S i) (n - S i).
Proof.
  intros i n H. replace n with (S i + (n - S i))%nat at 1 by lia. rewrite seq_app, filter_app. cbn [Nat.add].
  rewrite filter_seq_none, filter_all. reflexivity.
  - intros j Hj. apply in_seq in Hj. apply Nat.ltb_lt. lia.
  - intros j Hj. apply Nat.ltb_ge. lia.
Qed.

Lemma map_via_seq : forall {A B} (f : A -> B) (l : list A) d, map f l = map (fun j => f (nth j l d)) (seq 0 (List.length l)).
Proof. intros. rewrite <- (map_nth_seq l d) at 1. rewrite map_map. reflexivity. Qed.

Lemma and_mask_map : forall {A} (f g : A -> bool) l, and_mask (map f l) (map g l) = map (fun j => f j && g j) l.
Proof. induction l as [|x t IH]; cbn. reflexivity. f_equal. exact IH. Qed.

Lemma nonzero_from : forall (P : nat -> bool) n s,
  map fst (filter snd (combine (seq s n) (map P (seq s n)))) = filter P (seq s n).
Proof.
  induction n as [|n IH]; intros s; cbn [seq map combine filter]. reflexivity.
  cbn [snd]. destruct (P s); cbn [map fst]; rewrite IH; reflexivity.
Qed.
Lemma nonzero_map_seq : forall (P : nat -> bool) n, nonzero (map P (seq 0 n)) = filter P (seq 0 n).
Proof. intros. unfold nonzero. rewrite map_length, seq_length. apply nonzero_from. Qed.

Lemma ocell_eqb_sym : forall a b, ocell_eqb a b = ocell_eqb b a.
Proof. intros [x|] [y|]; cbn; auto. apply Z.eqb_sym. Qed.
Lemma pa_mask1_spec : forall kj gc, pa_mask1 kj gc = map (ocell_eqb kj) gc.
Proof. intros [z|] gc; cbn [pa_mask1]; apply map_ext; intros [y|]; cbn; auto. apply Z.eqb_sym. Qed.

Lemma key_eqb_app : forall a b a' b', List.length a = List.length b ->
  key_eqb (a ++ a') (b ++ b') = key_eqb a b && key_eqb a' b'.
Proof.
  induction a as [|x a IH]; intros [|y b] a' b' L; cbn in L; try lia. reflexivity.
  cbn [app key_eqb]. rewrite IH by lia. apply andb_assoc.
Qed.

Definition mask_of (gcs : list (list (option Z))) (i n : nat) : list bool :=
  map (fun j => key_eqb (pa_group_key gcs i) (pa_group_key gcs j)) (seq 0 n).

Lemma mask_of_snoc : forall pre g i n, List.length g = n ->
  and_mask (mask_of pre i n) (pa_mask1 (nth i g None) g) = mask_of (pre ++ [g]) i n.
Proof.
  intros pre g i n L. rewrite pa_mask1_spec, (map_via_seq _ g None), L. unfold mask_of. rewrite and_mask_map.
  apply map_ext. intros j. unfold pa_group_key. rewrite !map_app. cbn [map].
  rewrite key_eqb_app by (rewrite !map_length; reflexivity). cbn [key_eqb]. rewrite andb_true_r. reflexivity.
Qed.

Lemma group_mask_fold : forall gs pre i n, Forall (fun gc => List.length gc = n) gs ->
  fold_left and_mask (map (fun gc => pa_mask1 (nth i gc None) gc) gs) (mask_of pre i n) = mask_of (pre ++ gs) i n.
Proof.
  induction gs as [|g gs IH]; intros pre i n F; cbn [map fold_left]. rewrite app_nil_r. reflexivity.
  inversion F; subst. rewrite mask_of_snoc by reflexivity. rewrite IH by assumption. rewrite <- app_assoc. reflexivity.
Qed.

Lemma combine_map_self : forall {A B} (f : A -> B) l, combine (map f l) l = map (fun x => (f x, x)) l.
Proof. induction l as [|x t IH]; cbn. reflexivity. f_equal. exact IH. Qed.

Lemma mask_of_single : forall g i, mask_of [g] i (List.length g) = pa_mask1 (nth i g None) g.
Proof.
  intros. rewrite pa_mask1_spec, (map_via_seq _ g None). unfold mask_of. apply map_ext. intros j.
  cbn. rewrite andb_true_r. reflexivity.
Qed.

Lemma pa_group_mask_spec : forall gcols i n, gcols <> [] -> Forall (fun gc => List.length gc = n) gcols ->
  pa_group_mask gcols (pa_group_key gcols i) = mask_of gcols i n.
Proof.
  intros [|g gs] i n NE F. contradiction. inversion F; subst.
  unfold pa_group_mask, pa_group_key. rewrite combine_map_self, map_map. cbn [map fst snd].
  rewrite <- mask_of_single. apply (group_mask_fold gs [g] i (List.length g)). assumption.
Qed.

Lemma rows_of_length : forall gcols n, List.length (rows_of gcols n) = n.
Proof. intros. unfold rows_of. rewrite map_length, seq_length. reflexivity. Qed.
Lemma rows_of_nth : forall gcols n i, (i < n)%nat -> nth i (rows_of gcols n) [] = pa_group_key gcols i.
Proof. intros. unfold rows_of. apply nth_map_seq. exact H. Qed.

Lemma mask_of_rows : forall gcols i n, (i < n)%nat ->
  mask_of gcols i n = map (key_eqb (nth i (rows_of gcols n) [])) (rows_of gcols n).
Proof. intros. rewrite rows_of_nth by auto. unfold rows_of, mask_of. rewrite map_map. reflexivity. Qed.

Lemma filter_mask_members : forall k keys c, filter_mask c (map (key_eqb k) keys) = members keys k c.
Proof.
  intros k. induction keys as [|k' keys IH]; intros [|x c]; try reflexivity.
  unfold filter_mask, members in *. cbn [map combine filter snd fst]. destruct (key_eqb k k'); cbn [map fst snd]; rewrite IH; reflexivity.
Qed.

Lemma nth_firstn_lt : forall {A} (l : list A) m j d, (j < m)%nat -> nth j (firstn m l) d = nth j l d.
Proof.
  induction l as [|x t IH]; intros m j d H. rewrite firstn_nil. reflexivity.
  destruct m. lia. destruct j; cbn. reflexivity. apply IH. lia.
Qed.

(* the cells of the rows with key k among the first m rows / from row s on, by row number *)
Lemma members_firstn : forall keys c k m, List.length keys = List.length c -> (m <= List.length c)%nat ->
  members (firstn m keys) k (firstn m c)
  = map (fun j => nth j c None) (filter (fun j => key_eqb k (nth j keys [])) (seq 0 m)).
Proof.
  intros keys c k m L Hm.
  rewrite <- (members_idx_of (firstn m keys) (firstn m c) k) by (rewrite !firstn_length; lia).
  unfold idx_of, idx_from. cbn [app]. rewrite firstn_length, Nat.min_l by lia.
  rewrite (filter_ext_in _ (fun j => key_eqb k (nth j keys []))).
  - apply map_ext_in. intros j Hj. apply filter_In in Hj. destruct Hj as [Hj _]. apply in_seq in Hj.
    apply nth_firstn_lt. lia.
  - intros j Hj. apply in_seq in Hj. rewrite nth_firstn_lt by lia. reflexivity.
Qed.

Lemma members_skipn : forall keys c k s, List.length keys = List.length c -> (s <= List.length c)%nat ->
  members (skipn s keys) k (skipn s c)
  = map (fun j => nth j c None) (filter (fun j => key_eqb k (nth j keys [])) (seq s (List.length c - s))).
Proof.
  intros keys c k s L Hs.
  pose proof (members_idx_from (skipn s keys) (skipn s c) (firstn s keys) (firstn s c) k) as M.
  rewrite !firstn_skipn in M. unfold idx_from in M. rewrite firstn_skipn in M.
  rewrite firstn_length, skipn_length, Nat.min_l, L in M by lia.
  symmetry. apply M. rewrite !skipn_length; lia. rewrite !firstn_length; lia.
Qed.

Lemma last_some_map_filter : forall (f : nat -> cell) js,
  last_some (map f js) = match filter (fun j => is_some (f j)) js with [] => None | rb => f (last rb 0%nat) end.
Proof.
  intros f. induction js as [|j js IH] using rev_ind. reflexivity.
  rewrite map_app. cbn [map]. rewrite last_some_snoc_gen, filter_app. cbn [filter].
  destruct (f j) as [v|] eqn:E; cbn [is_some or_else].
  - destruct (filter (fun j0 => is_some (f j0)) js ++ [j]) eqn:E2. destruct (filter _ js); discriminate.
    rewrite <- E2, last_last. symmetry. exact E.
  - rewrite app_nil_r. exact IH.
Qed.

Lemma first_some_map_filter : forall (f : nat -> cell) js,
  first_some (map f js) = match filter (fun j => is_some (f j)) js with [] => None | r :: _ => f r end.
Proof.
  intros f. induction js as [|j js IH]. reflexivity.
  cbn [map filter]. rewrite first_some_cons. destruct (f j) as [v|] eqn:E; cbn [is_some or_else]. symmetry; exact E. exact IH.
Qed.

(* the loop over the rows, with the group value as a parameter *)
Definition loop_with (gv : nat -> option Q) (src : col) (ov : option Q) : list cell :=
  map (fun i => match nth i src None with
                | Some v => Some v
                | None => match gv i with None => ov | Some g => Some g end
                end) (seq 0 (List.length src)).

Lemma loop_with_stat : forall (stat : list Q -> option Q) keys src gv, List.length keys = List.length src ->
  (forall i, (i < List.length src)%nat -> nth i src None = None -> gv i = stat (vals (members keys (nth i keys []) src))) ->
  loop_with gv src (stat (vals src)) = fill_stat stat keys src.
Proof.
  intros stat keys src gv L H. apply nth_ext with (d := None) (d' := None).
  - unfold loop_with, fill_stat. rewrite !map_length, seq_length, combine_length. nlia.
  - intros i Hi. unfold loop_with in *. rewrite map_length, seq_length in Hi. rewrite nth_map_seq by exact Hi.
    rewrite fill_stat_nth by auto. unfold col, cell in *. destruct (nth i src None) as [v|] eqn:E; cbn [keep_or]. reflexivity.
    rewrite H by auto. unfold stat_fb. destruct (stat (vals (members keys (nth i keys []) src))); reflexivity.
Qed.

Lemma opt_id : forall x : option Q, match x with Some g => Some g | None => None end = x.
Proof. intros [x|]; reflexivity. Qed.

Lemma loop_with_fill : forall (m : imethod) keys src gv, List.length keys = List.length src -> (m = IFfill \/ m = IBfill) ->
  (forall i, (i < List.length src)%nat -> nth i src None = None ->
     gv i = nth i (impute_grouped_spec m keys src) None) ->
  loop_with gv src None = impute_grouped_spec m keys src.
Proof.
  intros m keys src gv L Hm H. pose proof (impute_grouped_spec_preserves m keys src L) as [PL PV].
  apply nth_ext with (d := None) (d' := None).
  - unfold loop_with. rewrite map_length, seq_length. symmetry. exact PL.
  - intros i Hi. unfold loop_with in *. rewrite map_length, seq_length in Hi. rewrite nth_map_seq by exact Hi.
    unfold col, cell in *. destruct (nth i src None) as [v|] eqn:E. symmetry. apply PV. exact E.
    rewrite H by auto. apply opt_id.
Qed.

Section Arrow.
Variable K : pa_kernels.
Hypothesis HK : pa_contracts K.

(* ---------------------------------------------------------------------------------------------------------- *)
(* mode                                                                                                       *)
Lemma pa_mode_spec : forall c, pa_mode K c = mode_l (vals c).
Proof.
  intros c. unfold pa_mode. rewrite (c_drop_null K HK), (c_value_counts K HK), (c_max K HK).
  rewrite <- mode_refines_l. unfold most_common1. destruct (counter (vals c)) as [|p t] eqn:E. reflexivity.
  assert (FM : first_max ([p] ++ t) (max_first p t)).
  { apply max_first_spec. exists [], []. split; [reflexivity|]. split; intros ? []. }
  cbn [app] in FM. destruct (first_max_index _ _ FM) as [i [rest [E1 E2]]].
  rewrite E1, E2. reflexivity.
Qed.

(* ---------------------------------------------------------------------------------------------------------- *)
(* _fill_null                                                                                                 *)
Lemma pa_fill_null_w_none : forall a, pa_fill_null_w K a None = a.
Proof. intros. unfold pa_fill_null_w. cbn. apply (c_fill_null_none K HK). Qed.

Lemma pa_fill_null_w_some : forall a v, const_ok (a_ty a) v = true ->
  a_cells (pa_fill_null_w K a (Some v)) = fill_with (Some (py_q v)) (a_cells a).
Proof.
  intros [t c] [k x] H. unfold pa_fill_null_w, is_fractional_float, const_ok, fits in *. cbn [a_ty a_cells py_kind py_q] in *.
  destruct t, k; cbn [is_int_ty andb negb] in *; try discriminate;
    try (rewrite (c_fill_null K HK) by (cbn; auto); reflexivity).
  - (* integer column, float value *)
    destruct (q_is_integer x) eqn:E; cbn [negb andb].
    + rewrite (c_fill_null K HK) by (cbn; auto). reflexivity.
    + rewrite (c_cast_f64 K HK) by reflexivity. rewrite (c_fill_null K HK) by reflexivity. reflexivity.
  - rewrite andb_false_r. rewrite (c_fill_null K HK) by reflexivity. reflexivity.
Qed.

Lemma pa_fill_null_w_float : forall a x, numeric (a_ty a) = true ->
  a_cells (pa_fill_null_w K a (ofloat x)) = fill_with x (a_cells a).
Proof.
  intros a [x|] N; cbn [ofloat option_map].
  - rewrite pa_fill_null_w_some. reflexivity. destruct (a_ty a); cbn in *; auto; discriminate.
  - rewrite pa_fill_null_w_none. symmetry. apply fill_with_none.
Qed.

(* ---------------------------------------------------------------------------------------------------------- *)
(* plain imputation                                                                                           *)
Lemma in_vals : forall c x, In x (vals c) -> In (Some x) c.
Proof.
  induction c as [|[q|] t IH]; intros x H; cbn in *. contradiction.
  destruct H as [<-|H]; auto. right; auto.
Qed.

Lemma pa_plain_spec : forall m ck a, wt_arr a -> (forall k, m = IConst k -> const_ok (a_ty a) (mk_py ck k) = true) ->
  string_stat m (a_ty a) = false ->
  exists r, pa_plain K m ck a = Some r /\ a_cells r = impute_spec m (a_cells a).
Proof.
  intros m ck a WT HC KF. unfold string_stat in KF. destruct m as [| | |k| |]; cbn [pa_plain impute_spec is_stat] in *.
  - rewrite andb_true_r in KF. apply negb_false_iff in KF. rewrite KF. eexists. split. reflexivity.
    rewrite (c_mean K HK). apply pa_fill_null_w_float. exact KF.
  - rewrite andb_true_r in KF. apply negb_false_iff in KF. rewrite KF. eexists. split. reflexivity.
    rewrite (c_quantile50 K HK). apply pa_fill_null_w_float. exact KF.
  - rewrite pa_mode_spec. destruct (mode_l (vals (a_cells a))) as [v|] eqn:E.
    + eexists. split. reflexivity. rewrite (c_fill_null K HK). reflexivity.
      apply mode_l_spec in E. destruct E as [Hin _]. apply in_vals in Hin.
      unfold fits, to_py. cbn [py_kind py_q]. destruct (a_ty a) eqn:T; cbn [kind_of]; auto.
    + eexists. split. reflexivity. symmetry. apply fill_with_none.
  - eexists. split. reflexivity. rewrite pa_fill_null_w_some. reflexivity. apply HC. reflexivity.
  - eexists. split. reflexivity. rewrite (c_array K HK). apply ffill_refines.
  - eexists. split. reflexivity. rewrite (c_array K HK). apply bfill_refines.
Qed.

(* ---------------------------------------------------------------------------------------------------------- *)
(* grouped imputation                                                                                         *)
Section Grouped.
Variable gcols : list (list (option Z)).
Variable c : col.
Hypothesis NE : gcols <> [].
Hypothesis FL : Forall (fun gc => List.length gc = List.length c) gcols.
Let n := List.length c.
Let keys := rows_of gcols n.

Lemma keys_length : List.length keys = List.length c.
Proof. apply rows_of_length. Qed.

Lemma group_data_members : forall i, (i < n)%nat ->
  pc_filter K c (pa_group_mask gcols (pa_group_key gcols i)) = members keys (nth i keys []) c.
Proof.
  intros i Hi. rewrite (pa_group_mask_spec gcols i n NE FL), (mask_of_rows gcols i n Hi).
  rewrite (c_filter K HK) by (rewrite map_length; apply rows_of_length). apply filter_mask_members.
Qed.

Definition valid_in_group (i j : nat) : bool :=
  key_eqb (pa_group_key gcols i) (pa_group_key gcols j) && is_some (nth j c None).

Lemma group_rows_spec : forall i,
  pc_indices_nonzero K (and_mask (pa_group_mask gcols (pa_group_key gcols i)) (map is_some c))
  = filter (valid_in_group i) (seq 0 n).
Proof.
  intros i. rewrite (pa_group_mask_spec gcols i n NE FL). unfold mask_of. rewrite (map_via_seq is_some c None).
  fold n. rewrite and_mask_map, (c_indices_nonzero K HK), nonzero_map_seq. reflexivity.
Qed.

Lemma keyed_ext : forall i s len, (s + len <= n)%nat ->
  filter (fun j => key_eqb (nth i keys []) (nth j keys []) && is_some (nth j c None)) (seq s len)
  = filter (valid_in_group i) (seq s len) \/ (n <= i)%nat.
Proof.
  intros i s len H. destruct (Nat.lt_ge_cases i n) as [Hi|Hi]; [left|right; exact Hi].
  apply filter_ext_in. intros j Hj. apply in_seq in Hj. unfold valid_in_group, keys.
  rewrite !rows_of_nth by lia. reflexivity.
Qed.

Lemma pa_ffill_value : forall i, (i < n)%nat -> nth i c None = None ->
  pa_group_value K IFfill c gcols i = nth i (impute_grouped_spec IFfill keys c) None.
Proof.
  intros i Hi E. cbn [pa_group_value impute_grouped_spec]. rewrite group_rows_spec.
  rewrite filter_comm, filter_lt_seq by lia.
  rewrite nth_map_seq by exact Hi.
  rewrite members_firstn by (try apply keys_length; fold n; lia).
  rewrite (last_some_map_filter (fun j => nth j c None)), filter_filter.
  rewrite seq_S, filter_app. cbn [filter Nat.add]. unfold col, cell in *. rewrite E. cbn [is_some]. rewrite andb_false_r, app_nil_r.
  destruct (keyed_ext i 0 i ltac:(lia)) as [R|R]; [|lia]. unfold col, cell in *. rewrite R. reflexivity.
Qed.

Lemma pa_bfill_value : forall i, (i < n)%nat -> nth i c None = None ->
  pa_group_value K IBfill c gcols i = nth i (impute_grouped_spec IBfill keys c) None.
Proof.
  intros i Hi E. cbn [pa_group_value impute_grouped_spec]. rewrite group_rows_spec.
  rewrite filter_comm, filter_gt_seq by lia.
  rewrite nth_map_seq by exact Hi.
  rewrite members_skipn by (try apply keys_length; fold n; lia).
  rewrite (first_some_map_filter (fun j => nth j c None)), filter_filter. fold n.
  replace (n - i)%nat with (S (n - S i)) by lia. cbn [seq filter]. unfold col, cell in *. rewrite E. cbn [is_some]. rewrite andb_false_r.
  destruct (keyed_ext i (S i) (n - S i) ltac:(lia)) as [R|R]; [|lia]. unfold col, cell in *. rewrite R. reflexivity.
Qed.

Lemma pa_grouped_loop_stat : forall m (stat : list Q -> option Q),
  (forall i, (i < n)%nat -> pa_group_value K m c gcols i = stat (vals (pc_filter K c (pa_group_mask gcols (pa_group_key gcols i))))) ->
  pa_grouped_loop K m c gcols (stat (vals c)) = fill_stat stat keys c.
Proof.
  intros m stat H. change (pa_grouped_loop K m c gcols (stat (vals c))) with (loop_with (pa_group_value K m c gcols) c (stat (vals c))).
  apply loop_with_stat. apply keys_length. intros i Hi _. rewrite H by exact Hi. rewrite group_data_members by exact Hi. reflexivity.
Qed.

Lemma pa_grouped_spec : forall m ck a, a_cells a = c -> wt_arr a ->
  (forall k, m = IConst k -> const_ok (a_ty a) (mk_py ck k) = true) -> string_stat m (a_ty a) = false ->
  exists r, pa_grouped K m ck gcols a = Some r /\ a_cells r = impute_grouped_spec m keys c.
Proof.
  intros m ck a EA WT HC KF. unfold string_stat in KF.
  destruct m as [| | |k| |]; cbn [pa_grouped pa_overall impute_grouped_spec is_stat] in *.
  - rewrite andb_true_r in KF. apply negb_false_iff in KF. rewrite KF. eexists. split. reflexivity.
    rewrite (c_array K HK), EA, (c_mean K HK). apply pa_grouped_loop_stat. intros. cbn [pa_group_value]. apply (c_mean K HK).
  - rewrite andb_true_r in KF. apply negb_false_iff in KF. rewrite KF. eexists. split. reflexivity.
    rewrite (c_array K HK), EA, (c_quantile50 K HK). apply pa_grouped_loop_stat. intros. cbn [pa_group_value]. apply (c_quantile50 K HK).
  - eexists. split. reflexivity. rewrite (c_array K HK), EA, pa_mode_spec. apply pa_grouped_loop_stat.
    intros. cbn [pa_group_value]. apply pa_mode_spec.
  - eexists. split. reflexivity. rewrite pa_fill_null_w_some by (apply HC; reflexivity). rewrite EA. reflexivity.
  - eexists. split. reflexivity. rewrite (c_array K HK), EA.
    apply (loop_with_fill IFfill keys c (pa_group_value K IFfill c gcols) keys_length (or_introl eq_refl)).
    intros. apply pa_ffill_value; auto.
  - eexists. split. reflexivity. rewrite (c_array K HK), EA.
    apply (loop_with_fill IBfill keys c (pa_group_value K IBfill c gcols) keys_length (or_intror eq_refl)).
    intros. apply pa_bfill_value; auto.
Qed.
End Grouped.

(* ---------------------------------------------------------------------------------------------------------- *)
(* _perform_imputation                                                                                        *)
(* `null_count == 0` says: no cell is null *)
Lemma null_count_zero : forall c, Nat.eqb (null_count c) 0 = negb (has_null c).
Proof.
  induction c as [|[x|] t IH]; unfold null_count, has_null in *; cbn [filter existsb is_none List.length orb]; auto.
Qed.
Lemma pa_early_return_iff : forall c, pa_early_return c = true <-> has_null c = false.
Proof. intros c. unfold pa_early_return. rewrite null_count_zero. apply negb_true_iff. Qed.
Lemma pa_early_return_false : forall c, pa_early_return c = false -> has_null c = true.
Proof. intros c H. destruct (has_null c) eqn:E; auto. apply pa_early_return_iff in E. congruence. Qed.

(* the test BEFORE 505d3c3 (regression witness): it compared the length of the column with 0 *)
Lemma pa_early_return_old_iff : forall c, pa_early_return_old c = true <-> c = [].
Proof.
  intros c. unfold pa_early_return_old. rewrite map_length, Nat.eqb_eq. apply length_zero_iff_nil.
Qed.

(* outside the domain, on the fall-through path (the column holds a null), the statistic is taken of a numeric column *)
Lemma kf_fall_through : forall m a, kf_pa_string_stat m a = false -> pa_early_return (a_cells a) = false ->
  string_stat m (a_ty a) = false.
Proof.
  intros m a KF E. apply pa_early_return_false in E. unfold kf_pa_string_stat in KF. rewrite E, andb_true_r in KF. exact KF.
Qed.

Lemma pa_perform_plain : forall m ck g a, (g = None \/ g = Some []) -> wt_arr a ->
  (forall k, m = IConst k -> const_ok (a_ty a) (mk_py ck k) = true) -> kf_pa_string_stat m a = false ->
  exists r, pa_perform K m ck g a = Some r /\ a_cells r = impute_spec m (a_cells a).
Proof.
  intros m ck g a Hg WT HC KF. unfold pa_perform, pa_perform_with. destruct (pa_early_return (a_cells a)) eqn:E.
  - apply pa_early_return_iff in E. exists a. split. reflexivity. symmetry. apply impute_spec_no_null_id. exact E.
  - pose proof (kf_fall_through m a KF E) as SS. destruct Hg as [-> | ->]; apply pa_plain_spec; auto.
Qed.

Lemma pa_perform_grouped : forall m ck gcols a, gcols <> [] ->
  Forall (fun gc => List.length gc = List.length (a_cells a)) gcols -> wt_arr a ->
  (forall k, m = IConst k -> const_ok (a_ty a) (mk_py ck k) = true) -> kf_pa_string_stat m a = false ->
  exists r, pa_perform K m ck (Some gcols) a = Some r /\
            a_cells r = impute_grouped_spec m (rows_of gcols (List.length (a_cells a))) (a_cells a).
Proof.
  intros m ck gcols a NE FL WT HC KF. unfold pa_perform, pa_perform_with. destruct (pa_early_return (a_cells a)) eqn:E.
  - apply pa_early_return_iff in E. exists a. split. reflexivity. symmetry. apply preserves_no_null_id. exact E.
    apply impute_grouped_spec_preserves. apply rows_of_length.
  - pose proof (kf_fall_through m a KF E) as SS. destruct gcols as [|g gs]. contradiction. apply pa_grouped_spec; auto.
Qed.
End Arrow.

(* the three frameworks' imputation agree: PyArrow glue (under the kernel contracts) = PythonDict model *)
Lemma pa_eq_pydict_plain : forall K, pa_contracts K -> forall m ck a, wt_arr a ->
  (forall k, m = IConst k -> const_ok (a_ty a) (mk_py ck k) = true) -> kf_pa_string_stat m a = false ->
  exists r, pa_perform K m ck None a = Some r /\ a_cells r = py_perform_imputation m None (a_cells a).
Proof.
  intros K HK m ck a WT HC KF. destruct (pa_perform_plain K HK m ck None a (or_introl eq_refl) WT HC KF) as [r [E1 E2]].
  exists r. split. exact E1. rewrite pydict_perform_refines_l. exact E2.
Qed.
Lemma pa_eq_pydict_grouped : forall K, pa_contracts K -> forall m ck gcols a, gcols <> [] ->
  Forall (fun gc => List.length gc = List.length (a_cells a)) gcols -> wt_arr a ->
  (forall k, m = IConst k -> const_ok (a_ty a) (mk_py ck k) = true) -> kf_pa_string_stat m a = false ->
  exists r, pa_perform K m ck (Some gcols) a = Some r /\
            a_cells r = py_perform_imputation m (Some (rows_of gcols (List.length (a_cells a)))) (a_cells a).
Proof.
  intros K HK m ck gcols a NE FL WT HC KF. destruct (pa_perform_grouped K HK m ck gcols a NE FL WT HC KF) as [r [E1 E2]].
  exists r. split. exact E1. rewrite pydict_perform_grouped_refines_l by apply rows_of_length. exact E2.
Qed.

(* inside the domain kf_pa_string_stat: mean / median of a string column WITH a null -- the PyArrow glue raises (pc.mean /
   pc.quantile have no kernel for strings), the untyped spec and the untyped PythonDict model denote a value:
   ['a', null, 'a', 'b'] (median 'a'), also grouped, and the all-null string column (no value: the column itself) *)
Lemma pa_string_stat_refuted :
  let a := mk_arr TStr [Some 1; None; Some 1; Some 2] in
  let z := mk_arr TStr [None; None] in
  let g := Some [[Some 1%Z; Some 1%Z; Some 1%Z; Some 2%Z]] in
  kf_pa_string_stat IMedian a = true /\ pa_perform ref_kernels IMedian KStr None a = None /\
  pa_perform ref_kernels IMean KStr g a = None /\
  impute_spec IMedian (a_cells a) = [Some 1; Some 1; Some 1; Some 2] /\
  py_perform_imputation IMedian None (a_cells a) = [Some 1; Some 1; Some 1; Some 2] /\
  kf_pa_string_stat IMean z = true /\ pa_perform ref_kernels IMean KStr None z = None /\
  impute_spec IMean (a_cells z) = a_cells z /\ py_perform_imputation IMean None (a_cells z) = a_cells z.
Proof. vm_compute. repeat split. Qed.

(* REPAIRED finding C19-pyarrow-early-return-never-fires (505d3c3), behaviour BEFORE the fix: a string column WITHOUT a
   null -- the spec and the PythonDict (and pandas) implementations return the column, the old text raised because its
   early return only fired on an empty column.  The present model returns the column; the input is outside the present
   domain. *)
Lemma pa_string_stat_old_refuted :
  let a := mk_arr TStr [Some 2; Some 1; Some 3] in
  let g := Some [[Some 1%Z; Some 1%Z; Some 2%Z]] in
  has_null (a_cells a) = false /\
  pa_perform_old ref_kernels IMean KStr None a = None /\ pa_perform_old ref_kernels IMedian KStr g a = None /\
  impute_spec IMean (a_cells a) = a_cells a /\ py_perform_imputation IMean None (a_cells a) = a_cells a /\
  pa_perform ref_kernels IMean KStr None a = Some a /\ pa_perform ref_kernels IMedian KStr g a = Some a /\
  kf_pa_string_stat IMean a = false.
Proof. repeat split. Qed.

Lemma kf_pa_string_stat_iff : forall m a,
  kf_pa_string_stat m a = true <-> (a_ty a = TStr /\ (m = IMean \/ m = IMedian) /\ has_null (a_cells a) = true).
Proof.
  intros m a. unfold kf_pa_string_stat, string_stat. split.
  - intros H. apply andb_true_iff in H. destruct H as [H1 H3]. apply andb_true_iff in H1. destruct H1 as [H1 H2].
    split; [|split]; auto. destruct (a_ty a); try discriminate; reflexivity.
    destruct m; try discriminate; auto.
  - intros [-> [[-> | ->] ->]]; reflexivity.
Qed.

(* on numeric columns the two texts compute the same cells (the old one fell through; an int64 column came back as double) *)
Lemma pa_perform_old_numeric_same_cells : forall K, pa_contracts K -> forall m ck a, numeric (a_ty a) = true -> wt_arr a ->
  (forall k, m = IConst k -> const_ok (a_ty a) (mk_py ck k) = true) ->
  exists r r', pa_perform K m ck None a = Some r /\ pa_perform_old K m ck None a = Some r' /\ a_cells r = a_cells r'.
Proof.
  intros K HK m ck a N WT HC.
  assert (SS : string_stat m (a_ty a) = false) by (unfold string_stat; rewrite N; reflexivity).
  assert (KF : kf_pa_string_stat m a = false) by (unfold kf_pa_string_stat; rewrite SS; reflexivity).
  destruct (pa_perform_plain K HK m ck None a (or_introl eq_refl) WT HC KF) as [r [E1 E2]].
  exists r. unfold pa_perform_old, pa_perform_with. destruct (pa_early_return_old (a_cells a)) eqn:E.
  - exists a. repeat split; auto. rewrite E2. apply pa_early_return_old_iff in E. rewrite E. destruct m; reflexivity.
  - destruct (pa_plain_spec K HK m ck a WT HC SS) as [r' [E3 E4]]. exists r'. repeat split; auto. congruence.
Qed.

(* row keys <-> group-by columns: the transposition used by the tie *)
Lemma rows_of_transpose : forall keys w, (forall k, In k keys -> List.length k = w) -> keys <> [] ->
  rows_of (pa_transpose keys) (List.length keys) = keys.
Proof.
  intros keys w H NE. unfold rows_of. apply nth_ext with (d := []) (d' := []).
  - rewrite map_length, seq_length. reflexivity.
  - intros i Hi. rewrite map_length, seq_length in Hi. rewrite nth_map_seq by exact Hi.
    unfold pa_group_key, pa_transpose. rewrite map_map.
    assert (W : List.length (hd [] keys) = w). { destruct keys as [|k0 t]. contradiction. apply H. left; reflexivity. }
    rewrite W. rewrite (map_ext_in _ (fun j => nth j (nth i keys []) None)).
    + rewrite <- (H (nth i keys [])) by (apply nth_In; exact Hi). apply map_nth_seq.
    + intros j Hj. rewrite (nth_indep _ None (nth j [] None)) by (rewrite map_length; exact Hi).
      rewrite (map_nth (fun k => nth j k None)). reflexivity.
Qed.
