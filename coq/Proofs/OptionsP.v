(* Lemmas about Model/Options.v : keys, dictionaries, the Options invariant, merge rules (C15). *)
From Coq Require Import List Bool ZArith String Arith Lia.
Import ListNotations.
Require Import MV.Model.Options MV.Spec.OptionsSpec.
Open Scope Z_scope.

(* ---------- key equality is an equivalence ---------- *)
Definition knorm (k : pykey) : pykey := match k with KBool b => KInt (b2z b) | _ => k end.

Lemma key_eqb_norm : forall a b, key_eqb a b = true <-> knorm a = knorm b.
Proof.
  intros a b; destruct a, b; cbn; split; intros H; try discriminate; try reflexivity;
    try (apply Z.eqb_eq in H; congruence); try (injection H as H; apply Z.eqb_eq; assumption);
    try (apply String.eqb_eq in H; congruence); try (injection H as H; apply String.eqb_eq; assumption);
    try (apply Nat.eqb_eq in H; congruence); try (injection H as H; apply Nat.eqb_eq; assumption).
Qed.

Lemma key_eqb_refl : forall a, key_eqb a a = true.
Proof. intros; apply key_eqb_norm; reflexivity. Qed.
Lemma key_eqb_sym : forall a b, key_eqb a b = key_eqb b a.
Proof.
  intros a b. destruct (key_eqb a b) eqn:E, (key_eqb b a) eqn:F; try reflexivity.
  - apply key_eqb_norm in E. symmetry in E. apply key_eqb_norm in E. congruence.
  - apply key_eqb_norm in F. symmetry in F. apply key_eqb_norm in F. congruence.
Qed.
Lemma key_eqb_trans : forall a b c, key_eqb a b = true -> key_eqb b c = true -> key_eqb a c = true.
Proof. intros a b c H1 H2. apply key_eqb_norm in H1, H2. apply key_eqb_norm. congruence. Qed.
Lemma key_eqb_congr : forall a b c, key_eqb a b = true -> key_eqb a c = key_eqb b c.
Proof.
  intros a b c H. destruct (key_eqb a c) eqn:E, (key_eqb b c) eqn:F; try reflexivity.
  - rewrite key_eqb_sym in H. rewrite (key_eqb_trans _ _ _ H E) in F. discriminate.
  - rewrite (key_eqb_trans _ _ _ H F) in E. discriminate.
Qed.

Lemma key_eqb_congr_r : forall a b c, key_eqb a b = true -> key_eqb c a = key_eqb c b.
Proof. intros a b c H. rewrite (key_eqb_sym c a), (key_eqb_sym c b). apply key_eqb_congr. exact H. Qed.

Lemma kmem_congr : forall a b ks, key_eqb a b = true -> kmem a ks = kmem b ks.
Proof.
  intros a b ks H. unfold kmem. induction ks as [|x t IH]; cbn; [reflexivity|].
  rewrite (key_eqb_congr _ _ _ H), IH. reflexivity.
Qed.
Lemma kmem_app : forall k a b, kmem k (a ++ b) = kmem k a || kmem k b.
Proof. intros. unfold kmem. apply existsb_app. Qed.
Lemma kmem_true : forall k ks, kmem k ks = true <-> exists k', In k' ks /\ key_eqb k k' = true.
Proof. intros. unfold kmem. apply existsb_exists. Qed.

(* ---------- dget / dset / dupdate ---------- *)
Local Arguments dkeys : simpl never.
Lemma dkeys_cons : forall k v (t : dict), dkeys ((k, v) :: t) = k :: dkeys t.
Proof. reflexivity. Qed.
Lemma dkeys_nil : dkeys [] = [].
Proof. reflexivity. Qed.
Local Arguments kmem : simpl never.
Local Arguments dupdate : simpl never.
Lemma dupdate_cons : forall d k v t, dupdate d ((k, v) :: t) = dupdate (dset k v d) t.
Proof. reflexivity. Qed.
Lemma dupdate_nil : forall d, dupdate d [] = d.
Proof. reflexivity. Qed.
Lemma kmem_cons : forall k x t, kmem k (x :: t) = key_eqb k x || kmem k t.
Proof. reflexivity. Qed.
Lemma kmem_nil : forall k, kmem k [] = false.
Proof. reflexivity. Qed.
Ltac dk := cbn; rewrite ?dkeys_cons, ?dkeys_nil, ?kmem_cons, ?kmem_nil, ?dupdate_nil; cbn.
Ltac dk_in H := cbn in H; rewrite ?dkeys_cons, ?dkeys_nil, ?kmem_cons, ?kmem_nil, ?dupdate_nil in H; cbn in H.
Ltac dk_all := cbn in *; rewrite ?dkeys_cons, ?dkeys_nil, ?kmem_cons, ?kmem_nil, ?dupdate_nil in *; cbn in *.
Lemma dget_mem : forall k d, kmem k (dkeys d) = match dget k d with Some _ => true | None => false end.
Proof.
  intros k d; induction d as [|[k' v] t IH]; dk; [reflexivity|].
  destruct (key_eqb k k'); dk; [reflexivity | exact IH].
Qed.

Lemma keys_dset : forall k k0 v d, kmem k (dkeys (dset k0 v d)) = key_eqb k k0 || kmem k (dkeys d).
Proof.
  intros k k0 v d; induction d as [|[k' v'] t IH]; dk.
  - rewrite orb_false_r. reflexivity.
  - destruct (key_eqb k0 k') eqn:E; dk.
    + rewrite (key_eqb_congr_r _ _ k E). destruct (key_eqb k k'); reflexivity.
    + rewrite IH. destruct (key_eqb k k0), (key_eqb k k'); reflexivity.
Qed.

Lemma dget_dset : forall k k0 v d, dget k (dset k0 v d) = if key_eqb k k0 then Some v else dget k d.
Proof.
  intros k k0 v d; induction d as [|[k' v'] t IH]; dk.
  - destruct (key_eqb k k0); reflexivity.
  - destruct (key_eqb k0 k') eqn:E; dk.
    + rewrite (key_eqb_congr_r _ _ k E). destruct (key_eqb k k'); reflexivity.
    + rewrite IH. destruct (key_eqb k k0) eqn:F; [|reflexivity].
      destruct (key_eqb k k') eqn:G; [|reflexivity].
      rewrite key_eqb_sym in F. rewrite (key_eqb_trans _ _ _ F G) in E. discriminate.
Qed.

Lemma keys_dupdate : forall k o d, kmem k (dkeys (dupdate d o)) = kmem k (dkeys d) || kmem k (dkeys o).
Proof.
  intros k o; induction o as [|[k0 v] t IH]; intros d; dk.
  - rewrite orb_false_r. reflexivity.
  - rewrite dupdate_cons. rewrite IH, keys_dset.
    destruct (key_eqb k k0), (kmem k (dkeys d)), (kmem k (dkeys t)); reflexivity.
Qed.

Lemma dget_dupdate_notin : forall k o d, kmem k (dkeys o) = false -> dget k (dupdate d o) = dget k d.
Proof.
  intros k o; induction o as [|[k0 v] t IH]; intros d H; dk; [reflexivity|].
  dk_in H. apply orb_false_elim in H. destruct H as [H1 H2].
  rewrite dupdate_cons. rewrite IH by exact H2. rewrite dget_dset, H1. reflexivity.
Qed.

Lemma nodupk_dset : forall k v d, nodupk (dkeys d) -> nodupk (dkeys (dset k v d)).
Proof.
  intros k v d; unfold nodupk; induction d as [|[k' v'] t IH]; dk; intros H; [reflexivity|].
  apply andb_true_iff in H. destruct H as [H1 H2].
  destruct (key_eqb k k') eqn:E; dk.
  - rewrite H1, H2. reflexivity.
  - rewrite (IH H2), andb_true_r. fold (dkeys (dset k v t)). rewrite keys_dset.
    rewrite key_eqb_sym, E. dk. exact H1.
Qed.

Lemma nodupk_dupdate : forall o d, nodupk (dkeys d) -> nodupk (dkeys (dupdate d o)).
Proof.
  induction o as [|[k v] t IH]; intros d H; dk; [exact H|].
  rewrite dupdate_cons. apply IH. apply nodupk_dset. exact H.
Qed.

(* with pairwise different keys in o, the value found after d.update(o) is the one of o *)
Lemma dget_dupdate_in : forall k o d, nodupk (dkeys o) -> kmem k (dkeys o) = true -> dget k (dupdate d o) = dget k o.
Proof.
  intros k o; induction o as [|[k0 v] t IH]; intros d Hn H; dk_all; [discriminate|].
  unfold nodupk in Hn. dk_in Hn. apply andb_true_iff in Hn. destruct Hn as [Hn1 Hn2].
  rewrite dupdate_cons. destruct (key_eqb k k0) eqn:E; dk_in H.
  - rewrite dget_dupdate_notin.
    + rewrite dget_dset, E. reflexivity.
    + rewrite (kmem_congr _ _ _ E). apply negb_true_iff. exact Hn1.
  - apply IH; assumption.
Qed.

Lemma keys_filter : forall k (f : pykey -> bool) (d : dict),
  (forall a b, key_eqb a b = true -> f a = f b) ->
  kmem k (dkeys (filter (fun kv => f (fst kv)) d)) = f k && kmem k (dkeys d).
Proof.
  intros k f d Hf; induction d as [|[k' v] t IH]; dk; [rewrite andb_false_r; reflexivity|].
  destruct (f k') eqn:E; dk; rewrite IH.
  - destruct (key_eqb k k') eqn:F; dk; [|reflexivity]. rewrite (Hf _ _ F), E. reflexivity.
  - destruct (key_eqb k k') eqn:F; dk; [|reflexivity]. rewrite (Hf _ _ F), E. reflexivity.
Qed.

Lemma dget_filter : forall k (f : pykey -> bool) (d : dict),
  (forall a b, key_eqb a b = true -> f a = f b) ->
  dget k (filter (fun kv => f (fst kv)) d) = if f k then dget k d else None.
Proof.
  intros k f d Hf; induction d as [|[k' v] t IH]; dk; [destruct (f k); reflexivity|].
  destruct (f k') eqn:E; dk; rewrite IH; destruct (key_eqb k k') eqn:F; try reflexivity.
  - rewrite (Hf _ _ F), E. reflexivity.
  - rewrite (Hf _ _ F), E. reflexivity.
Qed.

Lemma nodupk_filter : forall (f : pykey * pyval -> bool) (d : dict), nodupk (dkeys d) -> nodupk (dkeys (filter f d)).
Proof.
  intros f d; unfold nodupk; induction d as [|[k v] t IH]; dk; intros H; [reflexivity|].
  apply andb_true_iff in H. destruct H as [H1 H2]. destruct (f (k, v)); dk; [|apply IH; exact H2].
  rewrite (IH H2), andb_true_r. apply negb_true_iff. apply negb_true_iff in H1.
  destruct (kmem k (dkeys (filter f t))) eqn:E; [|reflexivity].
  apply kmem_true in E. destruct E as (k' & Hin & Hk). unfold dkeys in Hin. apply in_map_iff in Hin.
  destruct Hin as (kv & <- & Hin). apply filter_In in Hin. destruct Hin as [Hin _].
  assert (kmem k (dkeys t) = true); [|congruence]. apply kmem_true. exists (fst kv). split; [|exact Hk].
  unfold dkeys. apply in_map. exact Hin.
Qed.

Lemma existsb_kmem_false : forall (ks1 ks2 : list pykey),
  existsb (fun k => kmem k ks2) ks1 = false -> forall k, kmem k ks1 = true -> kmem k ks2 = false.
Proof.
  intros ks1 ks2 H k Hk. apply kmem_true in Hk. destruct Hk as (k' & Hin & He).
  rewrite (kmem_congr _ _ _ He). destruct (kmem k' ks2) eqn:E; [|reflexivity].
  assert (existsb (fun k => kmem k ks2) ks1 = true); [|congruence]. apply existsb_exists. exists k'. auto.
Qed.

Lemma existsb_kmem_true : forall (ks1 ks2 : list pykey) k,
  kmem k ks1 = true -> kmem k ks2 = true -> existsb (fun k => kmem k ks2) ks1 = true.
Proof.
  intros ks1 ks2 k H1 H2. apply kmem_true in H1. destruct H1 as (k' & Hin & He).
  apply existsb_exists. exists k'. split; [exact Hin|]. rewrite <- (kmem_congr _ _ _ He). exact H2.
Qed.

Lemma kmem_filter_ne : forall k k0 l,
  kmem k0 (filter (fun x => negb (key_eqb k x)) l) = negb (key_eqb k k0) && kmem k0 l.
Proof.
  intros k k0 l; induction l as [|x t IH]; dk; [rewrite andb_false_r; reflexivity|].
  destruct (key_eqb k x) eqn:E; dk; rewrite IH.
  - destruct (key_eqb k0 x) eqn:F; [|reflexivity]. dk.
    rewrite key_eqb_sym in F. rewrite (key_eqb_trans _ _ _ E F). reflexivity.
  - destruct (key_eqb k0 x) eqn:F; dk; [|reflexivity].
    destruct (key_eqb k k0) eqn:G; [|reflexivity]. rewrite (key_eqb_trans _ _ _ G F) in E. discriminate.
Qed.

Lemma kmem_kdedup : forall k l, kmem k (kdedup l) = kmem k l.
Proof.
  intros k l; induction l as [|x t IH]; dk; [reflexivity|].
  rewrite kmem_filter_ne, IH. rewrite (key_eqb_sym x k). destruct (key_eqb k x); reflexivity.
Qed.

(* ---------- the invariant ---------- *)
Lemma prot_filter_congr : forall pk a b, key_eqb a b = true -> negb (kmem a pk) = negb (kmem b pk).
Proof. intros. f_equal. apply kmem_congr. assumption. Qed.

Lemma inv_init : forall g c p s, o_init g c p = inl s -> options_inv s.
Proof.
  intros g c p s. unfold o_init. cbn [og oc opk].
  destruct (existsb _ _) eqn:E1; [discriminate|].
  destruct (forallb _ _) eqn:E2; cbn; [|discriminate]. intros H. injection H as <-.
  split; [|split].
  - intros k Hg Hc. unfold has_key in *. cbn [og oc] in *.
    rewrite (existsb_kmem_false _ _ E1 k Hg) in Hc. discriminate.
  - intros k Hk. unfold has_key. cbn [opk oc] in *. apply kmem_true in Hk. destruct Hk as (k' & Hin & He).
    rewrite (kmem_congr _ _ _ He). rewrite forallb_forall in E2. apply E2. exact Hin.
  - split; cbn [og oc]; unfold dict_of_list; apply nodupk_dupdate; reflexivity.
Qed.

Ltac inv_unfold := unfold options_inv, disjoint_gc, propagate_in_context, dicts_wf, has_key in *; cbn [og oc opk] in *.

Lemma inv_add_group : forall k v s, options_inv s -> options_inv (fst (o_add_group k v s)).
Proof.
  intros k v s H. unfold o_add_group.
  destruct (match dget k (og s) with Some v0 => negb (py_eq v v0) | None => false end); [exact H|].
  destruct (kmem k (dkeys (oc s))) eqn:E; [exact H|]. cbn [fst].
  inv_unfold. destruct H as (Hd & Hp & Hg & Hc). repeat split; try assumption.
  - intros k0 H1 H2. rewrite keys_dset in H1. apply orb_true_iff in H1. destruct H1 as [H1|H1].
    + rewrite (kmem_congr _ _ _ H1) in H2. congruence.
    + eapply Hd; eassumption.
  - apply nodupk_dset. exact Hg.
Qed.

Lemma inv_add_context : forall k v s, options_inv s -> options_inv (fst (o_add_context k v s)).
Proof.
  intros k v s H. unfold o_add_context.
  destruct (match dget k (oc s) with Some v0 => negb (py_eq v v0) | None => false end); [exact H|].
  destruct (kmem k (dkeys (og s))) eqn:E; [exact H|]. cbn [fst].
  inv_unfold. destruct H as (Hd & Hp & Hg & Hc). repeat split; try assumption.
  - intros k0 H1 H2. rewrite keys_dset in H2. apply orb_true_iff in H2. destruct H2 as [H2|H2].
    + rewrite (kmem_congr _ _ _ H2) in H1. congruence.
    + eapply Hd; eassumption.
  - intros k0 H0. rewrite keys_dset. rewrite (Hp _ H0). apply orb_true_r.
  - apply nodupk_dset. exact Hc.
Qed.

Lemma inv_set : forall k v s, options_inv s -> options_inv (fst (o_set k v s)).
Proof.
  intros k v s H. unfold o_set.
  destruct (kmem k (dkeys (og s))) eqn:E1; [|destruct (kmem k (dkeys (oc s))) eqn:E2]; cbn [fst];
    inv_unfold; destruct H as (Hd & Hp & Hg & Hc); repeat split; try assumption.
  - intros k0 H1 H2. rewrite keys_dset in H1. apply orb_true_iff in H1. destruct H1 as [H1|H1].
    + rewrite (kmem_congr _ _ _ H1) in H2. eapply Hd; eassumption.
    + eapply Hd; eassumption.
  - apply nodupk_dset. exact Hg.
  - intros k0 H1 H2. rewrite keys_dset in H2. apply orb_true_iff in H2. destruct H2 as [H2|H2].
    + rewrite (kmem_congr _ _ _ H2) in H1. congruence.
    + eapply Hd; eassumption.
  - intros k0 H0. rewrite keys_dset. rewrite (Hp _ H0). apply orb_true_r.
  - apply nodupk_dset. exact Hc.
  - intros k0 H1 H2. rewrite keys_dset in H1. apply orb_true_iff in H1. destruct H1 as [H1|H1].
    + rewrite (kmem_congr _ _ _ H1) in H2. congruence.
    + eapply Hd; eassumption.
  - apply nodupk_dset. exact Hg.
Qed.

(* no assumption at all on `other` *)
Lemma inv_update : forall other prot s, options_inv s -> options_inv (fst (o_update other prot s)).
Proof.
  intros other prot s H. unfold o_update.
  destruct (match prot with Some p => Some p | None => default_protected s end) as [pk|]; [|exact H].
  set (ogc := filter (fun kv => negb (kmem (fst kv) pk)) (og other)).
  destruct (existsb (fun k => kmem k (dkeys (oc s))) (dkeys ogc)) eqn:E1; [exact H|].
  set (g' := dupdate (og s) ogc).
  assert (H1 : options_inv {| og := g'; oc := oc s; opk := opk s |}).
  { inv_unfold. destruct H as (Hd & Hp & Hg & Hc). repeat split; try assumption.
    - intros k Hk1 Hk2. unfold g' in Hk1. rewrite keys_dupdate in Hk1. apply orb_true_iff in Hk1. destruct Hk1 as [Hk1|Hk1].
      + eapply Hd; eassumption.
      + rewrite (existsb_kmem_false _ _ E1 k Hk1) in Hk2. discriminate.
    - apply nodupk_dupdate. exact Hg. }
  destruct (is_nil (opk other)); [exact H1|].
  set (pr := filter (fun kv => kmem (fst kv) (opk other) && negb (kmem (fst kv) pk)) (oc other)).
  destruct (existsb (fun k => kmem k (dkeys g')) (dkeys pr)) eqn:E2; [exact H1|].
  destruct (existsb _ pr) eqn:E3; [exact H1|]. cbn [fst].
  inv_unfold. destruct H1 as (Hd & Hp & Hg & Hc). repeat split; try assumption.
  - intros k Hk1 Hk2. rewrite keys_dupdate in Hk2. apply orb_true_iff in Hk2. destruct Hk2 as [Hk2|Hk2].
    + eapply Hd; eassumption.
    + rewrite (existsb_kmem_false _ _ E2 k Hk2) in Hk1. discriminate.
  - intros k Hk. rewrite keys_dupdate, (Hp _ Hk). reflexivity.
  - apply nodupk_dupdate. exact Hc.
Qed.

Lemma inv_merge : forall child s, options_inv s -> options_inv (fst (o_merge child s)).
Proof.
  intros child s H. unfold o_merge. destruct (default_protected s); [|exact H].
  destruct (existsb _ _); [exact H|]. apply inv_update. exact H.
Qed.

Lemma inv_step : forall s o, options_inv s -> options_inv (fst (o_step s o)).
Proof.
  intros s o H. destruct o; cbn [o_step];
    [apply inv_add_group | apply inv_add_group | apply inv_add_context | apply inv_set | apply inv_update | apply inv_merge];
    exact H.
Qed.

Lemma inv_run : forall ops s, options_inv s -> options_inv (o_run s ops).
Proof.
  unfold o_run. induction ops as [|o t IH]; intros s H; cbn; [exact H|]. apply IH. apply inv_step. exact H.
Qed.

Lemma options_disjoint_inv_l : forall g c p s ops, o_init g c p = inl s -> disjoint_gc (o_run s ops).
Proof. intros g c p s ops H. apply (inv_run ops s (inv_init _ _ _ _ H)). Qed.

Lemma options_full_inv_l : forall g c p s ops, o_init g c p = inl s -> options_inv (o_run s ops).
Proof. intros g c p s ops H. apply (inv_run ops s (inv_init _ _ _ _ H)). Qed.

(* every intermediate state of the trace, too (the state left behind by a raising call included) *)
Lemma inv_trace : forall ops s, options_inv s -> Forall (fun r => options_inv (fst r)) (o_trace s ops).
Proof.
  induction ops as [|o t IH]; intros s H; cbn; constructor.
  - apply inv_step. exact H.
  - apply IH. apply inv_step. exact H.
Qed.

(* the constructor rejects exactly the overlapping / dangling inputs *)
Lemma init_rejects_l : forall g c p,
  (exists e, o_init g c p = inr e) <->
  (exists k, has_key k (dict_of_list g) /\ has_key k (dict_of_list c)) \/
  (exists k, kmem k p = true /\ ~ has_key k (dict_of_list c)).
Proof.
  intros g c p. unfold o_init, has_key. cbn [og oc opk]. split.
  - intros [e He]. destruct (existsb _ _) eqn:E1.
    + left. apply existsb_exists in E1. destruct E1 as (k & Hin & Hk). exists k. split; [|exact Hk].
      apply kmem_true. exists k. split; [exact Hin | apply key_eqb_refl].
    + destruct (forallb _ _) eqn:E2; [discriminate|]. right.
      destruct (forallb_forall (fun k => kmem k (dkeys (dict_of_list c))) (kdedup p)) as [_ Hf].
      assert (Hex : exists k, In k (kdedup p) /\ kmem k (dkeys (dict_of_list c)) = false).
      { clear -E2. induction (kdedup p) as [|x t IH]; cbn in E2; [discriminate|].
        apply andb_false_iff in E2. destruct E2 as [E2|E2].
        - exists x. split; [left; reflexivity | exact E2].
        - destruct (IH E2) as (k & Hin & Hk). exists k. split; [right; exact Hin | exact Hk]. }
      destruct Hex as (k & Hin & Hk). exists k. split.
      * rewrite <- kmem_kdedup. apply kmem_true. exists k. split; [exact Hin | apply key_eqb_refl].
      * rewrite Hk. discriminate.
  - intros [(k & H1 & H2)|(k & H1 & H2)].
    + rewrite (existsb_kmem_true _ _ k H1 H2). eexists; reflexivity.
    + destruct (existsb _ _); [eexists; reflexivity|].
      destruct (forallb _ _) eqn:E2; [|eexists; reflexivity]. exfalso. apply H2.
      rewrite <- kmem_kdedup in H1. apply kmem_true in H1. destruct H1 as (k' & Hin & He).
      rewrite (kmem_congr _ _ _ He). rewrite forallb_forall in E2. apply E2. exact Hin.
Qed.

(* ---------- update_with_protected_keys: protected keys, conflicts, propagation ---------- *)
Definition eff_prot (prot : option (list pykey)) (s : ostate) : option (list pykey) :=
  match prot with Some p => Some p | None => default_protected s end.

Lemma dget_congr : forall a b d, key_eqb a b = true -> dget a d = dget b d.
Proof.
  intros a b d H; induction d as [|[k v] t IH]; cbn; [reflexivity|].
  rewrite (key_eqb_congr _ _ _ H), IH. reflexivity.
Qed.

Lemma dget_in : forall k d v, dget k d = Some v -> exists k', In (k', v) d /\ key_eqb k k' = true.
Proof.
  intros k d v; induction d as [|[k' v'] t IH]; cbn; [discriminate|].
  destruct (key_eqb k k') eqn:E.
  - intros H; injection H as <-. exists k'. split; [left; reflexivity | exact E].
  - intros H. destruct (IH H) as (k2 & Hin & He). exists k2. split; [right; exact Hin | exact He].
Qed.

Section Update.
  Variables (other : ostate) (prot : option (list pykey)) (s : ostate) (pk : list pykey).
  Hypothesis Hpk : eff_prot prot s = Some pk.
  Let r := o_update other prot s.
  Let ogc := filter (fun kv => negb (kmem (fst kv) pk)) (og other).
  Let pr := filter (fun kv => kmem (fst kv) (opk other) && negb (kmem (fst kv) pk)) (oc other).

  Definition pr_pred (k : pykey) : bool := kmem k (opk other) && negb (kmem k pk).
  Lemma pr_pred_congr : forall a b, key_eqb a b = true -> pr_pred a = pr_pred b.
  Proof. intros a b H. unfold pr_pred. rewrite (kmem_congr _ _ (opk other) H), (kmem_congr _ _ pk H). reflexivity. Qed.
  Lemma np_congr : forall a b, key_eqb a b = true -> negb (kmem a pk) = negb (kmem b pk).
  Proof. intros. apply prot_filter_congr. assumption. Qed.

  Lemma keys_ogc : forall k, kmem k (dkeys ogc) = negb (kmem k pk) && kmem k (dkeys (og other)).
  Proof. intros k. unfold ogc. apply (keys_filter k (fun a => negb (kmem a pk))). exact np_congr. Qed.
  Lemma keys_pr : forall k, kmem k (dkeys pr) = pr_pred k && kmem k (dkeys (oc other)).
  Proof. intros k. unfold pr. apply (keys_filter k pr_pred). exact pr_pred_congr. Qed.

  Lemma update_unfold :
    r = if existsb (fun k => kmem k (dkeys (oc s))) (dkeys ogc) then (s, Some EValue)
        else let g' := dupdate (og s) ogc in
             let s1 := {| og := g'; oc := oc s; opk := opk s |} in
             if is_nil (opk other) then (s1, None)
             else if existsb (fun k => kmem k (dkeys g')) (dkeys pr) then (s1, Some EValue)
             else if existsb (fun kv => match dget (fst kv) (oc s) with
                                        | Some v0 => negb (py_eq v0 (snd kv))
                                        | None => false
                                        end) pr then (s1, Some EValue)
             else ({| og := g'; oc := dupdate (oc s) pr; opk := opk s |}, None).
  Proof. unfold r, o_update. unfold eff_prot in Hpk. rewrite Hpk. reflexivity. Qed.

  (* protected keys of `other` never overwrite self: neither in group nor in context, whatever the outcome *)
  Lemma update_protected : forall k, kmem k pk = true ->
    dget k (og (fst r)) = dget k (og s) /\ dget k (oc (fst r)) = dget k (oc s).
  Proof.
    intros k Hk. rewrite update_unfold.
    assert (Hg : dget k (dupdate (og s) ogc) = dget k (og s)).
    { apply dget_dupdate_notin. rewrite keys_ogc, Hk. reflexivity. }
    assert (Hc : dget k (dupdate (oc s) pr) = dget k (oc s)).
    { apply dget_dupdate_notin. rewrite keys_pr. unfold pr_pred. rewrite Hk, andb_false_r. reflexivity. }
    destruct (existsb _ (dkeys ogc)); [split; reflexivity|]. cbv zeta.
    destruct (is_nil (opk other)); [split; [exact Hg | reflexivity]|].
    destruct (existsb _ (dkeys pr)); [split; [exact Hg | reflexivity]|].
    destruct (existsb _ pr); split; cbn [fst og oc]; try exact Hg; try exact Hc; reflexivity.
  Qed.

  (* a non-protected group key of `other` that is a context key of self is an error and nothing changes *)
  Lemma update_group_context_conflict : forall k,
    has_key k (og other) -> kmem k pk = false -> has_key k (oc s) -> r = (s, Some EValue).
  Proof.
    intros k H1 H2 H3. rewrite update_unfold. unfold has_key in *.
    rewrite (existsb_kmem_true (dkeys ogc) (dkeys (oc s)) k); [reflexivity | | exact H3].
    rewrite keys_ogc, H2, H1. reflexivity.
  Qed.

  (* outcome None (no exception) : every non-protected group entry of `other` arrived, the rest of the group is
     untouched *)
  Lemma update_success_group : snd r = None -> forall k,
    (has_key k (og other) -> kmem k pk = false -> nodupk (dkeys (og other)) -> dget k (og (fst r)) = dget k (og other)) /\
    ((~ has_key k (og other) \/ kmem k pk = true) -> dget k (og (fst r)) = dget k (og s)).
  Proof.
    rewrite update_unfold. intros Hs k.
    assert (Hin : has_key k (og other) -> kmem k pk = false -> nodupk (dkeys (og other)) ->
                  dget k (dupdate (og s) ogc) = dget k (og other)).
    { intros H1 H2 H3. unfold has_key in H1. rewrite dget_dupdate_in.
      - unfold ogc. rewrite (dget_filter k (fun a => negb (kmem a pk))) by exact np_congr. rewrite H2. reflexivity.
      - unfold ogc. apply nodupk_filter. exact H3.
      - rewrite keys_ogc, H1, H2. reflexivity. }
    assert (Hout : (~ has_key k (og other) \/ kmem k pk = true) -> dget k (dupdate (og s) ogc) = dget k (og s)).
    { intros H. apply dget_dupdate_notin. rewrite keys_ogc. unfold has_key in H. destruct H as [H|H].
      - destruct (kmem k (dkeys (og other))); [exfalso; apply H; reflexivity | apply andb_false_r].
      - rewrite H. reflexivity. }
    destruct (existsb _ (dkeys ogc)); [discriminate|]. cbv zeta in *.
    destruct (is_nil (opk other)); [split; assumption|].
    destruct (existsb _ (dkeys pr)); [discriminate|].
    destruct (existsb _ pr); [discriminate|]. split; assumption.
  Qed.

  (* R1: a context key that is not announced, or protected, or absent from other's context stays local *)
  Lemma propagate_local : forall k, ~ propagating other pk k -> dget k (oc (fst r)) = dget k (oc s).
  Proof.
    intros k Hn. rewrite update_unfold.
    assert (Hc : dget k (dupdate (oc s) pr) = dget k (oc s)).
    { apply dget_dupdate_notin. rewrite keys_pr. unfold pr_pred.
      destruct (kmem k (opk other)) eqn:E1, (kmem k pk) eqn:E2, (kmem k (dkeys (oc other))) eqn:E3; try reflexivity.
      exfalso. apply Hn. unfold propagating, has_key. auto. }
    destruct (existsb _ (dkeys ogc)); [reflexivity|]. cbv zeta.
    destruct (is_nil (opk other)); [reflexivity|].
    destruct (existsb _ (dkeys pr)); [reflexivity|].
    destruct (existsb _ pr); [reflexivity | exact Hc].
  Qed.

  Lemma opk_nonempty : forall k, kmem k (opk other) = true -> is_nil (opk other) = false.
  Proof. intros k H. destruct (opk other); [discriminate | reflexivity]. Qed.

  (* the context is never changed by a call that raises *)
  Lemma update_error_context : forall e, snd r = Some e -> oc (fst r) = oc s.
  Proof.
    rewrite update_unfold. intros e.
    destruct (existsb _ (dkeys ogc)); [reflexivity|]. cbv zeta.
    destruct (is_nil (opk other)); [reflexivity|].
    destruct (existsb _ (dkeys pr)); [reflexivity|].
    destruct (existsb _ pr); [reflexivity | discriminate].
  Qed.

  (* R2: a propagating key that is (or has just become) a group key of self is an error *)
  Lemma propagate_into_group : forall k, propagating other pk k ->
    (has_key k (og s) \/ (has_key k (og other) /\ kmem k pk = false)) ->
    snd r = Some EValue /\ oc (fst r) = oc s.
  Proof.
    intros k (H1 & H2 & H3) Hg. unfold has_key in *.
    assert (He : snd r = Some EValue); [|split; [exact He | exact (update_error_context _ He)]].
    rewrite update_unfold.
    destruct (existsb _ (dkeys ogc)); [reflexivity|]. cbv zeta.
    rewrite (opk_nonempty k H2).
    rewrite (existsb_kmem_true (dkeys pr) (dkeys (dupdate (og s) ogc)) k); [reflexivity | |].
    - rewrite keys_pr. unfold pr_pred. rewrite H1, H2, H3. reflexivity.
    - rewrite keys_dupdate, keys_ogc. destruct Hg as [Hg|[Hg1 Hg2]].
      + rewrite Hg. reflexivity.
      + rewrite Hg1, Hg2. apply orb_true_r.
  Qed.

  (* R3: a propagating key whose value differs from the one self already has in its context is an error *)
  Lemma propagate_value_conflict : forall k v v0, propagating other pk k ->
    dget k (oc other) = Some v -> dget k (oc s) = Some v0 -> py_eq v0 v = false ->
    snd r = Some EValue /\ oc (fst r) = oc s.
  Proof.
    intros k v v0 (H1 & H2 & H3) Hv Hv0 Hne. unfold has_key in *.
    assert (He : snd r = Some EValue); [|split; [exact He | exact (update_error_context _ He)]].
    rewrite update_unfold.
    destruct (existsb _ (dkeys ogc)); [reflexivity|]. cbv zeta.
    rewrite (opk_nonempty k H2).
    destruct (existsb _ (dkeys pr)); [reflexivity|].
    assert (Hex : existsb (fun kv => match dget (fst kv) (oc s) with
                                     | Some v1 => negb (py_eq v1 (snd kv)) | None => false end) pr = true).
    { destruct (dget_in _ _ _ Hv) as (k' & Hin & Hk). apply existsb_exists. exists (k', v). split.
      - unfold pr. apply filter_In. split; [exact Hin|]. cbn [fst].
        change (pr_pred k' = true). rewrite <- (pr_pred_congr _ _ Hk). unfold pr_pred. rewrite H2, H3. reflexivity.
      - cbn [fst snd]. rewrite key_eqb_sym in Hk. rewrite (dget_congr _ _ _ Hk), Hv0, Hne. reflexivity. }
    rewrite Hex. reflexivity.
  Qed.

  (* R4: without exception every propagating key arrives in self's context with other's value *)
  Lemma propagate_arrives : snd r = None -> forall k, propagating other pk k -> nodupk (dkeys (oc other)) ->
    dget k (oc (fst r)) = dget k (oc other).
  Proof.
    rewrite update_unfold. intros Hs k (H1 & H2 & H3) Hn. unfold has_key in *.
    destruct (existsb _ (dkeys ogc)); [discriminate|]. cbv zeta in *.
    rewrite (opk_nonempty k H2) in *.
    destruct (existsb _ (dkeys pr)); [discriminate|].
    destruct (existsb _ pr); [discriminate|]. cbn [fst oc].
    rewrite dget_dupdate_in.
    - unfold pr. rewrite (dget_filter k pr_pred) by exact pr_pred_congr. unfold pr_pred. rewrite H2, H3. reflexivity.
    - unfold pr. apply nodupk_filter. exact Hn.
    - rewrite keys_pr. unfold pr_pred. rewrite H1, H2, H3. reflexivity.
  Qed.
End Update.

(* ---------- Features.merge_options ---------- *)
Lemma merge_cases_l : forall child s,
  (exists e, o_merge child s = (s, Some e)) \/ o_merge child s = o_update child None s.
Proof.
  intros child s. unfold o_merge. destruct (default_protected s); [|left; eexists; reflexivity].
  destruct (existsb _ _); [left; eexists; reflexivity | right; reflexivity].
Qed.

(* a key that parent and child both carry with different values, and that is not protected, is an error *)
Lemma merge_value_conflict_l : forall child s pk k v k' v',
  default_protected s = Some pk -> In (k, v) (o_items child) -> In (k', v') (o_items s) ->
  key_eqb k k' = true -> kmem k' pk = false -> py_eq v v' = false -> o_merge child s = (s, Some EValue).
Proof.
  intros child s pk k v k' v' Hp Hc Hs Hk Hn Hv. unfold o_merge. rewrite Hp.
  assert (H : existsb (fun c => existsb (fun p => key_eqb (fst c) (fst p) && negb (kmem (fst p) pk)
                                  && negb (py_eq (snd c) (snd p))) (o_items s)) (o_items child) = true).
  { apply existsb_exists. exists (k, v). split; [exact Hc|]. apply existsb_exists. exists (k', v'). split; [exact Hs|].
    cbn [fst snd]. rewrite Hk, Hn, Hv. reflexivity. }
  rewrite H. reflexivity.
Qed.

(* protected keys of the child never reach the parent through merge_options either *)
Lemma merge_protected_l : forall child s pk k, default_protected s = Some pk -> kmem k pk = true ->
  dget k (og (fst (o_merge child s))) = dget k (og s) /\ dget k (oc (fst (o_merge child s))) = dget k (oc s).
Proof.
  intros child s pk k Hp Hk. destruct (merge_cases_l child s) as [(e & ->) | ->]; [split; reflexivity|].
  apply (update_protected child None s pk); [exact Hp | exact Hk].
Qed.
