(* Lemmas over the regenerated registry of the working tree (Gen/Registry.v); each is a finite computation. *)
From Coq Require Import List Bool Arith String.
Import ListNotations.
Require Import MV.Model.Transform MV.Spec.Transform MV.Proofs.TransformP MV.Gen.Registry.

Definition opt_is_some {A} (x : option A) : bool := match x with Some _ => true | None => false end.

(* the frameworks (numbers) of the installed compute frameworks *)
Definition installed_fws : list fw :=
  flat_map (fun e : string * option fw => match snd e with Some f => [f] | None => [] end) gen_installed.

Definition base_names : list string := ["PyArrowTable"; "PandasDataFrame"; "PythonDictFramework"]%string.

Definition base_installed_b : bool :=
  forallb (fun n => existsb (fun e : string * option fw => String.eqb (fst e) n && opt_is_some (snd e)) gen_installed) base_names
  && forallb (fun e : string * option fw => opt_is_some (snd e)) gen_installed.

Definition chain_exists_b : bool :=
  forallb (fun a => forallb (fun b => Nat.eqb a b || opt_is_some (get_chain gen_hub gen_registry a b)) installed_fws) installed_fws.

Definition tfs_ok_b : bool :=
  forallb (fun a => forallb (fun b =>
     match tfs_trace gen_hub gen_registry a b with TOk _ _ => true | _ => false end) installed_fws) installed_fws.

Lemma gen_ok_l : gen_ok = true.
Proof. vm_compute. reflexivity. Qed.

Lemma base_installed_l : base_installed_b = true.
Proof. vm_compute. reflexivity. Qed.

Lemma gen_registry_inv : reg_inv gen_registry.
Proof. apply reg_inv_b_sound. vm_compute. reflexivity. Qed.

Lemma gen_registry_is_built : exists r, build gen_decls = Some r /\ forall k, lookup r k = lookup gen_registry k.
Proof.
  destruct (build gen_decls) as [r|] eqn:B; [|vm_compute in B; discriminate].
  exists r. split; [reflexivity|]. apply reg_equiv_b_sound.
  assert (E : match build gen_decls with Some r0 => reg_equiv_b r0 gen_registry | None => false end = true)
    by (vm_compute; reflexivity).
  rewrite B in E. exact E.
Qed.

Lemma chain_exists_installed_l : forall a b, In a installed_fws -> In b installed_fws -> a <> b ->
  exists c, get_chain gen_hub gen_registry a b = Some c.
Proof.
  assert (H : chain_exists_b = true) by (vm_compute; reflexivity).
  intros a b Ha Hb N. unfold chain_exists_b in H. rewrite forallb_forall in H. specialize (H a Ha).
  rewrite forallb_forall in H. specialize (H b Hb). apply orb_true_iff in H. destruct H as [H|H].
  - apply Nat.eqb_eq in H. contradiction.
  - destruct (get_chain gen_hub gen_registry a b) as [c|]; [exists c; reflexivity|discriminate].
Qed.

Lemma tfs_ok_installed_l : forall a b, In a installed_fws -> In b installed_fws ->
  exists tr, tfs_trace gen_hub gen_registry a b = TOk _ tr.
Proof.
  assert (H : tfs_ok_b = true) by (vm_compute; reflexivity).
  intros a b Ha Hb. unfold tfs_ok_b in H. rewrite forallb_forall in H. specialize (H a Ha).
  rewrite forallb_forall in H. specialize (H b Hb).
  destruct (tfs_trace gen_hub gen_registry a b) as [tr| |]; [exists tr; reflexivity|discriminate|discriminate].
Qed.

Lemma installed_roundtrip_l : forall table fwd bwd valid a b x y,
  bijective_registry table fwd bwd valid gen_registry -> a <> b -> valid a x ->
  tfs_transform table fwd bwd gen_hub gen_registry a b x = TOk table y ->
  valid b y /\ tfs_transform table fwd bwd gen_hub gen_registry b a y = TOk table x.
Proof. intros table fwd bwd valid a b x y. apply roundtrip_inv. exact gen_registry_inv. Qed.
