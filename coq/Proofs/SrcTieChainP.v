(* Source-text tie, C16: FeatureChainParser.is_chained_feature regenerated from the source text (Gen/Src.v) equals
   Model/ChainParser.v has_dunder. *)
From Coq Require Import List Bool ZArith String Ascii.
Import ListNotations.
Require Import MV.Model.PySem MV.Gen.Src.
Require MV.Model.ChainParser.

(* ---------- CHAIN_SEPARATOR in feature_name ---------- *)
Lemma startswith_dunder : forall s,
  py_startswith "__" s = match ChainParser.strip_dunder (list_ascii_of_string s) with Some _ => true | None => false end.
Proof.
  intros s. destruct s as [|a [|b t]]; try reflexivity.
  - cbn [py_startswith list_ascii_of_string ChainParser.strip_dunder]. apply andb_false_r.
  - cbn [py_startswith list_ascii_of_string ChainParser.strip_dunder]. unfold ChainParser.us.
    rewrite (Ascii.eqb_sym "_"%char a), (Ascii.eqb_sym "_"%char b).
    destruct (Ascii.eqb a "_"), (Ascii.eqb b "_"); reflexivity.
Qed.

Lemma is_chained_feature_src : forall s,
  FeatureChainParser_is_chained_feature s = ChainParser.has_dunder (list_ascii_of_string s).
Proof.
  intros s. unfold FeatureChainParser_is_chained_feature. induction s as [|a t IH]; [reflexivity|].
  cbn [py_substr]. rewrite startswith_dunder, IH.
  cbn [list_ascii_of_string ChainParser.has_dunder].
  destruct (ChainParser.strip_dunder (a :: list_ascii_of_string t)); reflexivity.
Qed.
