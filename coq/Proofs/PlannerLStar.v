(* The graph-side quantities of the planner for STAR requests (Spec/PlannerLSpec.v star_g): n root features of n classes and
   one consumer over all of them.  Exact values of adjacency, parents_by_direct_, parent_to_children_mapping, the DFS queue
   and the per-class feature sets, for every n, every dict order of the roots and every order of the consumer's parent set. *)
From Coq Require Import List Bool Arith Lia Permutation.
Import ListNotations.
Require Import MV.Model.Orch MV.Model.OrchCheck MV.Model.Grouping MV.Model.PlannerA MV.Model.LinkSel MV.Model.PlannerL.
Require Import MV.Spec.PlannerASpec MV.Spec.PlannerLSpec.
Require Import MV.Proofs.PlannerASets MV.Proofs.PlannerAOrder MV.Proofs.PlannerAGraph MV.Proofs.PlannerLBase.
Open Scope nat_scope.

(* ---------- sets as lists ---------- *)
Lemma mem_In : forall x l, mem x l = true <-> In x l.
Proof.
  intros x l. unfold mem. rewrite existsb_exists. split.
  - intros [y [Hy E]]. apply Nat.eqb_eq in E. subst y. exact Hy.
  - intros H. exists x. split; [exact H | apply Nat.eqb_refl].
Qed.
Lemma mem_false : forall x l, mem x l = false <-> ~ In x l.
Proof.
  intros x l. rewrite <- mem_In. destruct (mem x l); split; intros H.
  - discriminate.
  - exfalso. apply H. reflexivity.
  - intros E. discriminate.
  - reflexivity.
Qed.

Lemma set_add_in : forall x l, In x l -> set_add x l = l.
Proof. intros x l H. unfold set_add. apply mem_In in H. rewrite H. reflexivity. Qed.
Lemma set_add_notin : forall x l, ~ In x l -> set_add x l = l ++ [x].
Proof. intros x l H. unfold set_add. apply mem_false in H. rewrite H. reflexivity. Qed.

Lemma set_union_cons : forall a x b, set_union a (x :: b) = set_union (set_add x a) b.
Proof. reflexivity. Qed.
Lemma set_union_incl : forall b a, incl b a -> set_union a b = a.
Proof.
  intros b. induction b as [|x b IH]; intros a H; [reflexivity|]. rewrite set_union_cons.
  rewrite set_add_in by (apply H; left; reflexivity). apply IH. intros y Hy. apply H. right. exact Hy.
Qed.
Lemma set_union_nil_r : forall a, set_union a [] = a.
Proof. reflexivity. Qed.
Lemma set_union_nodup_l : forall b a, NoDup b -> (forall x, In x b -> ~ In x a) -> set_union a b = a ++ b.
Proof.
  intros b. induction b as [|x b IH]; intros a Hnd Hdis; [rewrite app_nil_r; reflexivity|]. rewrite set_union_cons.
  inversion Hnd; subst. rewrite set_add_notin by (apply Hdis; left; reflexivity).
  rewrite IH; [rewrite <- app_assoc; reflexivity | assumption|].
  intros y Hy Hin. apply in_app_iff in Hin. destruct Hin as [Hin|[E|[]]].
  - exact (Hdis y (or_intror Hy) Hin).
  - subst y. contradiction.
Qed.
Lemma dedupe_nodup : forall l, NoDup l -> dedupe l = l.
Proof. intros l H. unfold dedupe. rewrite set_union_nodup_l; [reflexivity | exact H | intros x _ []]. Qed.
Lemma dedupe_app_incl : forall a b, NoDup a -> incl b a -> dedupe (a ++ b) = a.
Proof.
  intros a b Hnd Hin. unfold dedupe, set_union. rewrite fold_left_app.
  change (fold_left (fun acc x => set_add x acc) a []) with (set_union [] a).
  rewrite set_union_nodup_l; [|exact Hnd | intros x _ []]. cbn [app].
  change (fold_left (fun acc x => set_add x acc) b a) with (set_union a b). apply set_union_incl. exact Hin.
Qed.

Lemma roots_no_edges : forall l, flat_map (fun n => map (fun p => (p, fid n)) (fins n)) (map root_node l) = [].
Proof. intros l. induction l as [|r l IH]; cbn; [reflexivity | exact IH]. Qed.
Lemma roots_order_ids : forall l, flat_map (fun n => fid n :: fins n) (map root_node l) = map sr_id l.
Proof. intros l. induction l as [|r l IH]; cbn; [reflexivity | rewrite IH; reflexivity]. Qed.

Lemma nodup_map_inj : forall (A : Type) (h : A -> nat) (l : list A), NoDup (map h l) ->
  forall a b, In a l -> In b l -> h a = h b -> a = b.
Proof.
  intros A h l. induction l as [|x l IH]; intros Hnd a b Ha Hb E; [destruct Ha|].
  cbn in Hnd. apply NoDup_cons_iff in Hnd. destruct Hnd as [Hx Hnd].
  destruct Ha as [Ha|Ha], Hb as [Hb|Hb].
  - congruence.
  - subst x. exfalso. apply Hx. rewrite E. apply in_map. exact Hb.
  - subst x. exfalso. apply Hx. rewrite <- E. apply in_map. exact Ha.
  - apply IH; assumption.
Qed.

Section Star.
  Variables (rs : list sroot) (f C cc : nat) (ps : list nat).
  Hypothesis Hok : star_ok rs f C ps.
  Let g := star_g rs f C cc ps.

  Lemma ps_nodup : NoDup ps.
  Proof.
    destruct Hok as (H1 & _ & _ & Hp). apply (Permutation_NoDup (Permutation_sym Hp)). inversion H1; assumption.
  Qed.
  Lemma f_notin_ps : ~ In f ps.
  Proof.
    destruct Hok as (H1 & _ & _ & Hp). intros H. inversion H1; subst. apply H3. exact (Permutation_in _ Hp H).
  Qed.
  Lemma ps_nonempty : ps <> [].
  Proof.
    destruct Hok as (_ & _ & Hne & Hp). intros E. subst ps. apply Permutation_nil in Hp. apply map_eq_nil in Hp. contradiction.
  Qed.
  Lemma in_ps_root : forall p, In p ps <-> exists r, In r rs /\ sr_id r = p.
  Proof.
    intros p. destruct Hok as (_ & _ & _ & Hp). split.
    - intros H. apply (Permutation_in _ Hp) in H. apply in_map_iff in H. destruct H as [r [E Hr]]. exists r. split; assumption.
    - intros [r [Hr E]]. apply (Permutation_in _ (Permutation_sym Hp)). apply in_map_iff. exists r. split; assumption.
  Qed.

  Lemma star_ids : ids g = f :: map sr_id rs.
  Proof. unfold g, star_g, ids. cbn [map fid cons_node]. rewrite map_map. reflexivity. Qed.

  Lemma star_edges : edges g = map (fun p => (p, f)) ps.
  Proof.
    unfold g, star_g, edges. cbn [flat_map fins fid cons_node].
    rewrite roots_no_edges, app_nil_r. reflexivity.
  Qed.

  Lemma star_children_root : forall p, In p ps -> children g p = [f].
  Proof.
    intros p Hp. unfold children. rewrite star_edges.
    pose proof ps_nodup as Hnd. revert Hp Hnd. generalize ps. intros l. induction l as [|x l IH]; intros Hp Hnd; [destruct Hp|].
    inversion Hnd; subst. cbn [map filter fst]. destruct (Nat.eqb x p) eqn:E.
    - apply Nat.eqb_eq in E. subst x. cbn [map snd]. f_equal.
      assert (Hn : forall l', ~ In p l' -> map snd (filter (fun e : nat * nat => Nat.eqb (fst e) p) (map (fun q => (q, f)) l')) = []).
      { intros l'. induction l' as [|y l' IH']; intros Hy; cbn; [reflexivity|].
        destruct (Nat.eqb y p) eqn:E'; [apply Nat.eqb_eq in E'; subst y; exfalso; apply Hy; left; reflexivity|].
        apply IH'. intros H. apply Hy. right. exact H. }
      apply Hn. assumption.
    - destruct Hp as [Hp|Hp]; [subst x; rewrite Nat.eqb_refl in E; discriminate|]. apply IH; assumption.
  Qed.
  Lemma star_children_other : forall u, ~ In u ps -> children g u = [].
  Proof.
    intros u Hu. unfold children. rewrite star_edges. revert Hu. generalize ps. intros l. induction l as [|x l IH]; intros Hu; cbn; [reflexivity|].
    destruct (Nat.eqb x u) eqn:E; [apply Nat.eqb_eq in E; subst x; exfalso; apply Hu; left; reflexivity|].
    apply IH. intros H. apply Hu. right. exact H.
  Qed.
  Lemma star_children_f : children g f = [].
  Proof. apply star_children_other. exact f_notin_ps. Qed.

  Lemma star_adj_keys : adj_keys g = ps.
  Proof. unfold adj_keys. rewrite star_edges, map_map. cbn [fst]. rewrite map_id. apply dedupe_nodup. exact ps_nodup. Qed.

  Lemma fold_aadd_f : forall l acc0, NoDup (acc0 ++ l) -> acc0 ++ l <> [] ->
    fold_left (fun acc p => aadd f p acc) l (match acc0 with [] => [] | _ => [(f, acc0)] end) = [(f, acc0 ++ l)].
  Proof.
    intros l. induction l as [|x l IH]; intros acc0 Hnd Hne.
    - rewrite app_nil_r in *. destruct acc0; [contradiction | reflexivity].
    - cbn [fold_left].
      assert (E : aadd f x (match acc0 with [] => [] | _ => [(f, acc0)] end) = [(f, acc0 ++ [x])]).
      { destruct acc0 as [|a acc0]; cbn [aadd]; [reflexivity|]. rewrite Nat.eqb_refl. f_equal. f_equal.
        apply set_add_notin. intros H. apply NoDup_remove_2 in Hnd. apply Hnd. apply in_app_iff. left. exact H. }
      rewrite E. specialize (IH (acc0 ++ [x])). rewrite <- app_assoc in IH. cbn [app] in IH.
      destruct (acc0 ++ [x]) as [|a t] eqn:Ea; [destruct acc0; discriminate|]. rewrite <- Ea in *.
      apply IH; [exact Hnd | exact Hne].
  Qed.

  Lemma star_pbd : pbd_of g = [(f, ps)].
  Proof.
    unfold pbd_of. rewrite star_adj_keys.
    assert (E : forall l acc, incl l ps ->
              fold_left (fun acc p => gdp (List.length g) g p (children g p) acc) l acc = fold_left (fun acc p => aadd f p acc) l acc).
    { intros l. induction l as [|p l IH]; intros acc Hin; cbn [fold_left]; [reflexivity|].
      rewrite star_children_root by (apply Hin; left; reflexivity).
      assert (Hg : gdp (List.length g) g p [f] acc = aadd f p acc).
      { unfold g at 1, star_g. cbn [List.length gdp fold_left]. rewrite star_children_f. destruct (List.length (map root_node rs)); reflexivity. }
      rewrite Hg. apply IH. intros y Hy. apply Hin. right. exact Hy. }
    rewrite E by apply incl_refl.
    exact (fold_aadd_f ps [] ps_nodup ps_nonempty).
  Qed.

  Lemma star_p2c : p2c_of g = [(f, ps)].
  Proof.
    unfold p2c_of. rewrite star_pbd. cbn [map fst snd]. f_equal. f_equal.
    assert (Hgap : gap (S (List.length g)) [(f, ps)] ps = ps).
    { rewrite (gap_S _ _ _ ps_nonempty).
      assert (Hz : forall l rs0, incl l ps -> fold_left (fun rs1 p => set_union rs1 (gap (List.length g) [(f, ps)] (aget0 p [(f, ps)]))) l rs0 = rs0).
      { intros l. induction l as [|p l IH]; intros rs0 Hin; cbn [fold_left]; [reflexivity|].
        assert (Hp : In p ps) by (apply Hin; left; reflexivity).
        assert (Hpf : Nat.eqb p f = false).
        { apply Nat.eqb_neq. intros E. subst p. exact (f_notin_ps Hp). }
        assert (Ea : aget0 p [(f, ps)] = []) by (unfold aget0; cbn [aget]; rewrite Hpf; reflexivity).
        rewrite Ea, gap_nil, set_union_nil_r. apply IH.
        intros y Hy. apply Hin. right. exact Hy. }
      rewrite Hz by apply incl_refl. reflexivity. }
    rewrite Hgap. apply set_union_incl. apply incl_refl.
  Qed.

  Lemma star_closure_f : closure g f = ps.
  Proof. unfold closure, aget0. rewrite star_p2c. cbn [aget]. rewrite Nat.eqb_refl. reflexivity. Qed.
  Lemma star_closure_other : forall u, u <> f -> closure g u = [].
  Proof. intros u Hu. unfold closure, aget0. rewrite star_p2c. cbn [aget]. apply Nat.eqb_neq in Hu. rewrite Hu. reflexivity. Qed.

  Lemma star_node_order : node_order g = f :: ps.
  Proof.
    unfold node_order, g, star_g. cbn [flat_map fid fins cons_node].
    rewrite roots_order_ids. change (f :: ps ++ map sr_id rs) with ((f :: ps) ++ map sr_id rs). apply dedupe_app_incl.
    - constructor; [exact f_notin_ps | exact ps_nodup].
    - intros x Hx. right. destruct Hok as (_ & _ & _ & Hp). exact (Permutation_in _ (Permutation_sym Hp) Hx).
  Qed.

  Lemma star_indeg_f : indeg g f <> 0.
  Proof.
    unfold indeg. rewrite star_edges. pose proof ps_nonempty as Hne. destruct ps as [|a t]; [contradiction|].
    cbn [map filter snd]. rewrite Nat.eqb_refl. cbn. discriminate.
  Qed.
  Lemma star_indeg_root : forall p, In p ps -> indeg g p = 0.
  Proof.
    intros p Hp. apply indeg_zero. intros q Hq. apply edges_parent in Hq. rewrite star_edges in Hq.
    apply in_map_iff in Hq. destruct Hq as [x [E Hx]]. injection E as E1 E2. subst p. exact (f_notin_ps Hp).
  Qed.
  Lemma star_roots : roots g = ps.
  Proof.
    unfold roots. rewrite star_node_order. cbn [filter].
    destruct (Nat.eqb (indeg g f) 0) eqn:E; [apply Nat.eqb_eq in E; exfalso; exact (star_indeg_f E)|].
    assert (H : forall l, incl l ps -> filter (fun u => Nat.eqb (indeg g u) 0) l = l).
    { intros l. induction l as [|x l IH]; intros Hin; cbn [filter]; [reflexivity|].
      rewrite (star_indeg_root x) by (apply Hin; left; reflexivity). cbn. f_equal. apply IH. intros y Hy. apply Hin. right. exact Hy. }
    apply H. apply incl_refl.
  Qed.

  (* the DFS queue: the roots in the order of the consumer's parent set, then the consumer *)
  Lemma star_queue : queue_of g = ps ++ [f].
  Proof.
    unfold queue_of, dfs_all. rewrite star_roots.
    assert (Hlen : exists m, List.length g = S m) by (unfold g, star_g; cbn; eexists; reflexivity).
    destruct Hlen as [m Hm]. rewrite Hm.
    (* state after the roots l0 were processed: visited contains f iff l0 <> []; the queue is ps (++ [f]) *)
    assert (H : forall l vis q, incl l ps -> NoDup l -> (forall x, In x l -> ~ In x vis) ->
              (In f vis -> In f q) ->
              snd (fold_left (fun st r => dfs (S (S m)) g r st) l (vis, q)) = match l with [] => q | _ => if mem f vis then q else q ++ [f] end).
    { intros l. induction l as [|r l IH]; intros vis q Hin Hnd Hvis Hfq; [reflexivity|].
      assert (Hr : In r ps) by (apply Hin; left; reflexivity).
      inversion Hnd; subst.
      cbn [fold_left]. cbn [dfs]. assert (Hrv : mem r vis = false) by (apply mem_false; apply Hvis; left; reflexivity).
      cbn [fst snd]. rewrite Hrv. rewrite (star_children_root r Hr). cbn [fold_left fst snd].
      assert (Hfr : Nat.eqb f r = false).
      { apply Nat.eqb_neq. intros E. subst r. exact (f_notin_ps Hr). }
      cbn [mem existsb]. rewrite Hfr. cbn [orb]. fold (mem f vis).
      destruct (mem f vis) eqn:Efv.
      + (* f already visited *)
        cbn [dfs fst snd]. cbn [mem existsb]. rewrite Hfr. cbn [orb]. fold (mem f vis). rewrite Efv.
        rewrite IH.
        * destruct l; [reflexivity|]. cbn [mem existsb]. rewrite Hfr. cbn [orb]. fold (mem f vis). rewrite Efv. reflexivity.
        * intros y Hy. apply Hin. right. exact Hy.
        * assumption.
        * intros x Hx [E|Hv]; [subst x; contradiction | exact (Hvis x (or_intror Hx) Hv)].
        * intros _. apply Hfq. apply mem_In. exact Efv.
      + cbn [dfs fst snd]. cbn [mem existsb]. rewrite Hfr. cbn [orb]. fold (mem f vis). rewrite Efv.
        rewrite star_children_f. cbn [fold_left].
        rewrite IH.
        * destruct l; [reflexivity|]. cbn [mem existsb]. rewrite Nat.eqb_refl. reflexivity.
        * intros y Hy. apply Hin. right. exact Hy.
        * assumption.
        * intros x Hx [E|[E|Hv]]; [subst x; exact (f_notin_ps (Hin f (or_intror Hx))) | subst x; contradiction | exact (Hvis x (or_intror Hx) Hv)].
        * intros _. apply in_app_iff. right. left. reflexivity. }
    rewrite H.
    - pose proof ps_nonempty as Hne. destruct ps; [contradiction | reflexivity].
    - apply incl_refl.
    - exact ps_nodup.
    - intros x _ [].
    - intros [].
  Qed.

  (* node lookups *)
  Lemma star_nodup_ids : NoDup (ids g).
  Proof. rewrite star_ids. apply Hok. Qed.
  Lemma star_node_f : node_of g f = Some (cons_node f C cc ps).
  Proof. unfold node_of, g, star_g. cbn [find fid cons_node]. rewrite Nat.eqb_refl. reflexivity. Qed.
  Lemma star_node_root : forall r, In r rs -> node_of g (sr_id r) = Some (root_node r).
  Proof.
    intros r Hr. change (sr_id r) with (fid (root_node r)). apply node_of_complete; [exact star_nodup_ids|].
    right. apply in_map. exact Hr.
  Qed.
  Lemma star_grp_f : grp_of g f = C. Proof. unfold grp_of. rewrite star_node_f. reflexivity. Qed.
  Lemma star_cfw_f : cfw_of g f = cc. Proof. unfold cfw_of. rewrite star_node_f. reflexivity. Qed.
  Lemma star_req_f : isreq g f = true. Proof. unfold isreq. rewrite star_node_f. reflexivity. Qed.
  Lemma star_grp_root : forall r, In r rs -> grp_of g (sr_id r) = sr_grp r.
  Proof. intros r Hr. unfold grp_of. rewrite (star_node_root r Hr). reflexivity. Qed.
  Lemma star_cfw_root : forall r, In r rs -> cfw_of g (sr_id r) = sr_cfw r.
  Proof. intros r Hr. unfold cfw_of. rewrite (star_node_root r Hr). reflexivity. Qed.
  Lemma star_req_root : forall r, In r rs -> isreq g (sr_id r) = false.
  Proof. intros r Hr. unfold isreq. rewrite (star_node_root r Hr). reflexivity. Qed.

  (* the root with a given id / class *)
  Lemma root_by_id_unique : forall r r', In r rs -> In r' rs -> sr_id r = sr_id r' -> r = r'.
  Proof.
    intros r r' Hr Hr' E. destruct Hok as (H1 & _). apply NoDup_cons_iff in H1. destruct H1 as [_ H1].
    exact (nodup_map_inj sroot sr_id rs H1 r r' Hr Hr' E).
  Qed.
  Lemma root_by_grp_unique : forall r r', In r rs -> In r' rs -> sr_grp r = sr_grp r' -> r = r'.
  Proof.
    intros r r' Hr Hr' E. destruct Hok as (_ & H1 & _). apply NoDup_cons_iff in H1. destruct H1 as [_ H1].
    exact (nodup_map_inj sroot sr_grp rs H1 r r' Hr Hr' E).
  Qed.
  Lemma C_not_root_grp : forall r, In r rs -> sr_grp r <> C.
  Proof. intros r Hr E. destruct Hok as (_ & H1 & _). apply NoDup_cons_iff in H1. destruct H1 as [H2 _]. apply H2. apply in_map_iff. exists r. split; [exact E | exact Hr]. Qed.

  (* nodes_per_feature_group *)
  Lemma star_members_root : forall r, In r rs -> members g (queue_of g) (sr_grp r) = [sr_id r].
  Proof.
    intros r Hr. unfold members. rewrite star_queue, filter_app. cbn [filter]. rewrite star_grp_f.
    assert (EC : Nat.eqb C (sr_grp r) = false) by (apply Nat.eqb_neq; intros E; exact (C_not_root_grp r Hr (eq_sym E))).
    rewrite EC, app_nil_r.
    assert (Hin : In (sr_id r) ps) by (apply in_ps_root; exists r; split; [exact Hr | reflexivity]).
    assert (H : forall l, NoDup l -> incl l ps -> filter (fun u => Nat.eqb (grp_of g u) (sr_grp r)) l = if mem (sr_id r) l then [sr_id r] else []).
    { intros l. induction l as [|x l IH]; intros Hnd Hsub; [reflexivity|]. inversion Hnd; subst.
      assert (Hx : In x ps) by (apply Hsub; left; reflexivity). apply in_ps_root in Hx. destruct Hx as [rx [Hrx Ex]]. subst x.
      cbn [filter mem existsb]. rewrite (star_grp_root rx Hrx). rewrite IH; [|assumption | intros y Hy; apply Hsub; right; exact Hy].
      destruct (Nat.eqb (sr_grp rx) (sr_grp r)) eqn:E.
      - apply Nat.eqb_eq in E. pose proof (root_by_grp_unique rx r Hrx Hr E). subst rx. rewrite Nat.eqb_refl. cbn [orb].
        fold (mem (sr_id r) l). assert (Hm : mem (sr_id r) l = false) by (apply mem_false; assumption). rewrite Hm. reflexivity.
      - assert (En : Nat.eqb (sr_id r) (sr_id rx) = false).
        { apply Nat.eqb_neq. intros E'. pose proof (root_by_id_unique r rx Hr Hrx E'). subst rx. rewrite Nat.eqb_refl in E. discriminate. }
        rewrite En. cbn [orb]. reflexivity. }
    rewrite H; [|exact ps_nodup | apply incl_refl]. apply mem_In in Hin. rewrite Hin. apply dedupe_nodup. constructor; [intros [] | constructor].
  Qed.
  Lemma star_members_C : members g (queue_of g) C = [f].
  Proof.
    unfold members. rewrite star_queue, filter_app. cbn [filter]. rewrite star_grp_f, Nat.eqb_refl.
    assert (H : forall l, incl l ps -> filter (fun u => Nat.eqb (grp_of g u) C) l = []).
    { intros l. induction l as [|x l IH]; intros Hsub; [reflexivity|].
      assert (Hx : In x ps) by (apply Hsub; left; reflexivity). apply in_ps_root in Hx. destruct Hx as [rx [Hrx Ex]]. subst x.
      cbn [filter]. rewrite (star_grp_root rx Hrx).
      assert (E : Nat.eqb (sr_grp rx) C = false) by (apply Nat.eqb_neq; exact (C_not_root_grp rx Hrx)). rewrite E.
      apply IH. intros y Hy. apply Hsub. right. exact Hy. }
    rewrite H by apply incl_refl. cbn [app]. apply dedupe_nodup. constructor; [intros [] | constructor].
  Qed.
End Star.
