(* Two roots on TWO compute frameworks, one Link, one consumer on the framework of one of the roots: the exact plan for every
   join type, both consumer sides, every dict / set order and oracle.  Shows which table ends up LEFT in the JoinStep. *)
From Coq Require Import List Bool Arith Lia Permutation String.
Import ListNotations.
Require Import MV.Model.Orch MV.Model.OrchCheck MV.Model.Grouping MV.Model.PlannerA MV.Model.LinkSel MV.Model.PlannerL.
Require Import MV.Spec.PlannerASpec MV.Spec.PlannerLSpec.
Require Import MV.Proofs.PlannerASets MV.Proofs.PlannerAOrder MV.Proofs.PlannerAGraph MV.Proofs.LinkSelP.
Require Import MV.Proofs.OrchP MV.Proofs.PlanSimP MV.Proofs.PlannerAP.
Require Import MV.Proofs.PlannerLBase MV.Proofs.PlannerLStar MV.Proofs.PlannerLStages MV.Proofs.PlannerLStarData MV.Proofs.PlannerLStarPlan.
Open Scope nat_scope.
Open Scope list_scope.

Lemma nodup_all_eq : forall (A : Type) (l : list A) (x : A), NoDup l -> In x l -> (forall y, In y l -> y = x) -> l = [x].
Proof.
  intros A l x Hnd Hx Hall. destruct l as [|a l]; [destruct Hx|]. assert (a = x) by (apply Hall; left; reflexivity). subst a.
  destruct l as [|b l]; [reflexivity|]. exfalso. assert (b = x) by (apply Hall; right; left; reflexivity). subst b.
  apply NoDup_cons_iff in Hnd. apply (proj1 Hnd). left. reflexivity.
Qed.
Lemma perm_two : forall (a b : nat) l, Permutation l [a; b] -> l = [a; b] \/ l = [b; a].
Proof.
  intros a b l H. pose proof (Permutation_length H) as Hl. destruct l as [|x [|y [|z l]]]; try discriminate Hl.
  assert (Hx : In x [a; b]) by (apply (Permutation_in _ H); left; reflexivity).
  assert (Hy : In y [a; b]) by (apply (Permutation_in _ H); right; left; reflexivity).
  assert (Ha : In a [x; y]) by (apply (Permutation_in _ (Permutation_sym H)); left; reflexivity).
  assert (Hb : In b [x; y]) by (apply (Permutation_in _ (Permutation_sym H)); right; left; reflexivity).
  cbn in Hx, Hy, Ha, Hb.
  destruct Hx as [Hx|[Hx|[]]], Hy as [Hy|[Hy|[]]]; subst; auto.
  - destruct Hb as [Hb|[Hb|[]]]; subst; auto.
  - destruct Ha as [Ha|[Ha|[]]]; subst; auto.
Qed.

Section TwoCross.
  Variables (ord : oparam) (mro : cls -> list cls) (l : plink).
  Variables (ra rb : sroot) (rs : list sroot) (f C cc : nat) (ps : list nat).
  Let links := [l].
  Hypothesis Hord : ord_ok ord.
  Hypothesis Hrs : Permutation [ra; rb] rs.
  Hypothesis Hok : star_ok rs f C ps.
  Hypothesis Hlinks : links_ok links (f :: map sr_id rs).
  Hypothesis Hflat : flat_roots mro rs.
  Hypothesis HL : lfg (pl_l l) = sr_grp ra.
  Hypothesis HR : rfg (pl_l l) = sr_grp rb.
  Hypothesis Hcross : sr_cfw ra <> sr_cfw rb.
  Hypothesis Hcc : cc = sr_cfw ra \/ cc = sr_cfw rb.
  Let g := star_g rs f C cc ps.
  Let ia := sr_id ra.
  Let ib := sr_id rb.
  Let ca := sr_cfw ra.
  Let cb := sr_cfw rb.
  Let u := pl_uid l.
  Let k0 : lkey := (u, (ca, cb)).
  Let k0' : lkey := (u, (cb, ca)).

  Lemma in_rs : forall r, In r rs <-> r = ra \/ r = rb.
  Proof.
    intros r. split.
    - intros H. apply (Permutation_in _ (Permutation_sym Hrs)) in H. destruct H as [H|[H|[]]]; auto.
    - intros [->| ->]; apply (Permutation_in _ Hrs); [left | right; left]; reflexivity.
  Qed.
  Lemma ra_in : In ra rs. Proof. apply in_rs. left. reflexivity. Qed.
  Lemma rb_in : In rb rs. Proof. apply in_rs. right. reflexivity. Qed.
  Lemma needed_l : needed_by rs l ra rb.
  Proof. repeat split; [exact ra_in | exact rb_in | exact HL | exact HR]. Qed.

  Lemma ia_ib : ia <> ib.
  Proof.
    intros E. pose proof (root_by_id_unique rs f C ps Hok ra rb ra_in rb_in E) as E'.
    apply Hcross. rewrite E'. reflexivity.
  Qed.
  Lemma ps_two : ps = [ia; ib] \/ ps = [ib; ia].
  Proof.
    apply perm_two. destruct Hok as (_ & _ & _ & Hp). apply (Permutation_trans Hp).
    apply Permutation_sym. exact (Permutation_map sr_id Hrs).
  Qed.

  Definition KS2 := ks ord mro links rs f C cc ps.
  Lemma KS2_eq : KS2 = [k0].
  Proof.
    unfold KS2. apply nodup_all_eq.
    - apply ks_nodup.
    - apply (ks_In ord mro links rs f C cc ps Hord Hok Hlinks Hflat). exists l, ra, rb. split; [left; reflexivity|]. split; [exact needed_l | reflexivity].
    - intros k Hk. apply (ks_In ord mro links rs f C cc ps Hord Hok Hlinks Hflat) in Hk.
      destruct Hk as [l' [ri [rj [[<-|[]] [Hn Ek]]]]]. destruct (needed_unique rs f C ps Hok l ri rj ra rb Hn needed_l) as [-> ->]. exact Ek.
  Qed.

  (* facts about ids *)
  Lemma f_ia : Nat.eqb f ia = false.
  Proof. apply Nat.eqb_neq. intros E. apply (f_notin_ps rs f C ps Hok). rewrite E. apply (in_ps_root rs f C ps Hok). exists ra. split; [exact ra_in | reflexivity]. Qed.
  Lemma f_ib : Nat.eqb f ib = false.
  Proof. apply Nat.eqb_neq. intros E. apply (f_notin_ps rs f C ps Hok). rewrite E. apply (in_ps_root rs f C ps Hok). exists rb. split; [exact rb_in | reflexivity]. Qed.
  Lemma ia_f : Nat.eqb ia f = false. Proof. rewrite Nat.eqb_sym. exact f_ia. Qed.
  Lemma ib_f : Nat.eqb ib f = false. Proof. rewrite Nat.eqb_sym. exact f_ib. Qed.
  Lemma ia_ib_b : Nat.eqb ia ib = false. Proof. apply Nat.eqb_neq. exact ia_ib. Qed.
  Lemma ib_ia_b : Nat.eqb ib ia = false. Proof. rewrite Nat.eqb_sym. exact ia_ib_b. Qed.
  Lemma ca_cb : Nat.eqb ca cb = false. Proof. apply Nat.eqb_neq. exact Hcross. Qed.
  Lemma cb_ca : Nat.eqb cb ca = false. Proof. rewrite Nat.eqb_sym. exact ca_cb. Qed.

  Lemma g_cfw_a : cfw_of g ia = ca. Proof. exact (star_cfw_root rs f C cc ps Hok ra ra_in). Qed.
  Lemma g_cfw_b : cfw_of g ib = cb. Proof. exact (star_cfw_root rs f C cc ps Hok rb rb_in). Qed.
  Lemma g_cfw_f : cfw_of g f = cc. Proof. exact (star_cfw_f rs f C cc ps). Qed.
  Lemma g_grp_a : grp_of g ia = sr_grp ra. Proof. exact (star_grp_root rs f C cc ps Hok ra ra_in). Qed.
  Lemma g_grp_b : grp_of g ib = sr_grp rb. Proof. exact (star_grp_root rs f C cc ps Hok rb rb_in). Qed.

  Lemma k0_k0' : key_eqb k0 k0' = false.
  Proof. unfold key_eqb, k0, k0', k_uid, k_l, k_r. cbn [fst snd]. rewrite Nat.eqb_refl, ca_cb. reflexivity. Qed.
  Lemma k0'_k0 : key_eqb k0' k0 = false.
  Proof. unfold key_eqb, k0, k0', k_uid, k_l, k_r. cbn [fst snd]. rewrite Nat.eqb_refl, cb_ca. reflexivity. Qed.

  Lemma plink_u : plink_of links u = Some l.
  Proof. unfold plink_of, links, u. cbn [find]. rewrite Nat.eqb_refl. reflexivity. Qed.

  Definition d2 : tdata := tsingle f [k0].
  Definition t2 : trek := {| t_data := d2; t_dor := d2; t_order := [] |}.
  Definition tinv : trek := {| t_data := [(k0', [f])]; t_dor := [(k0', [f])]; t_order := [] |}.

  Definition is_right : bool := jt_eqb (jt (pl_l l)) RIGHT.
  (* the framework the consumer computes on after ResolveComputeFrameworks.links; = the LEFT framework of the JoinStep *)
  Definition cn : nat := if is_right then cb else cc.
  (* was the trekker key inverted *)
  Definition inverted : bool := if is_right then Nat.eqb cc ca else Nat.eqb cc cb.
  Definition t3 : trek := if inverted then tinv else t2.
  Definition cm2 : cfwmap := [(f, [cn])].

  Definition PQ2 : list pitem := map (pg_root rs f C cc ps) ps ++ [PL k0] ++ [PG C [f]].

  Lemma trekked2_root : forall p, Nat.eqb p f = false -> trekked_of t2 p = [].
  Proof. intros p Hp. unfold trekked_of, t2, d2. cbn [t_dor tsingle map filter snd mem existsb]. rewrite Hp. reflexivity. Qed.

  Lemma no_chain_single : forall (k : lkey) (v : list nat), no_chain (tkeys [(k, v)]).
  Proof. intros k v a b [<-|[]] [<-|[]]. left. reflexivity. Qed.

  Lemma rcf2 : rcf_links ord g links PQ2 t2 = Ok (PQ2, t3, cm2).
  Proof.
    unfold rcf_links, PQ2. rewrite !fold_left_app.
    assert (H1 : forall lst, (forall p, In p lst -> Nat.eqb p f = false) ->
              fold_left (rcf_group ord g links) (map (pg_root rs f C cc ps) lst) (Ok (t2, [])) = Ok (t2, [])).
    { intros lst. induction lst as [|p lst IH]; intros Hl; [reflexivity|]. cbn [map fold_left].
      assert (E : rcf_group ord g links (Ok (t2, [])) (pg_root rs f C cc ps p) = Ok (t2, [])).
      { unfold pg_root, rcf_group. rewrite (ord_single ord _ _ Hord). rewrite trekked2_root by (apply Hl; left; reflexivity). reflexivity. }
      rewrite E. apply IH. intros q Hq. apply Hl. right. exact Hq. }
    rewrite H1.
    2:{ intros p Hp. apply Nat.eqb_neq. intros E. subst p. exact (f_notin_ps rs f C ps Hok Hp). }
    cbn [fold_left rcf_group]. rewrite (ord_single ord _ _ Hord).
    assert (Et : trekked_of t2 f = [k0]).
    { unfold trekked_of, t2, d2. cbn [t_dor tsingle map filter snd mem existsb fst]. rewrite Nat.eqb_refl. reflexivity. }
    rewrite Et. cbn [fold_left].
    assert (Ecf : cfws_of g [] f = [cc]) by (unfold cfws_of; cbn [aget]; rewrite g_cfw_f; reflexivity).
    rewrite Ecf. unfold rtl_step. unfold jt_of. cbn [k_uid k0 fst]. rewrite plink_u.
    unfold cm2, t3, cn, inverted, is_right. cbn [k_l k_r k0 fst snd mem existsb].
    assert (Hinv : adjuster t2 [k0] [f] = Ok tinv).
    { assert (Eg : tget0 k0 (t_dor t2) = [f]).
      { unfold tget0, t2, d2. cbn [t_dor tsingle map tget]. rewrite key_eqb_refl. reflexivity. }
      unfold adjuster. cbn [fold_left]. rewrite Eg. cbn [fold_left mem existsb]. rewrite Nat.eqb_refl. cbn [orb].
      unfold invert_link. change (k_inv k0) with k0'.
      assert (E1 : thas k0' (t_dor t2) = false).
      { unfold thas, t2, d2. cbn [t_dor tsingle map tget]. rewrite k0'_k0. reflexivity. }
      assert (E2 : tpos k0 (t_dor t2) = Some 0).
      { unfold t2, d2. cbn [t_dor tsingle map tpos]. rewrite key_eqb_refl. reflexivity. }
      rewrite E1, E2. unfold t2, d2. cbn [t_dor t_data t_order tsingle map tinsert_at firstn skipn app tadd].
      rewrite k0'_k0. cbn [tadd]. unfold tremove. cbn [flat_map fst snd app]. rewrite key_eqb_refl, k0_k0'.
      cbn [filter negb app]. rewrite Nat.eqb_refl. cbn [negb app]. reflexivity. }
    assert (Hoq : forall pq t cm, order_links_by_frameworks (t_data t) (t_order t) = Some [] -> t_order t = [] ->
              (match order_links_by_frameworks (t_data t) (t_order t) with
               | None => Err e_internal
               | Some o => Ok (order_queue ord o pq, {| t_data := t_data t; t_dor := t_dor t; t_order := o |}, cm)
               end : res (list pitem * trek * cfwmap))
              = Ok (pq, t, cm)).
    { intros pq t cm E E0. rewrite E. rewrite order_queue_nil_orders. destruct t. cbn in *. subst. reflexivity. }
    assert (Ho2 : order_links_by_frameworks (t_data t2) (t_order t2) = Some []).
    { unfold order_links_by_frameworks. cbn [t_data t_order t2]. rewrite (olbf_no_chain d2 [] (no_chain_single k0 [f])). reflexivity. }
    assert (Hoi : order_links_by_frameworks (t_data tinv) (t_order tinv) = Some []).
    { unfold order_links_by_frameworks. cbn [t_data t_order tinv]. rewrite (olbf_no_chain _ [] (no_chain_single k0' [f])). reflexivity. }
    destruct Hcc as [Ec|Ec]; rewrite Ec; fold ca cb; rewrite ?Nat.eqb_refl, ?ca_cb, ?cb_ca; cbn [orb];
      destruct (jt (pl_l l)); cbn [jt_eqb fst snd set_add mem existsb app fold_left aset];
      rewrite ?Hinv; first [ exact (Hoq _ t2 _ Ho2 eq_refl) | exact (Hoq _ tinv _ Hoi eq_refl) ].
  Qed.

  (* ---------- the feature-group steps ---------- *)
  Lemma cfw_now2_f : cfw_now ord g cm2 f = cn.
  Proof. unfold cfw_now, cfws_of, cm2. cbn [aget]. rewrite Nat.eqb_refl. rewrite (ord_single ord _ _ Hord). reflexivity. Qed.
  Lemma cfw_now2_a : cfw_now ord g cm2 ia = ca.
  Proof. unfold cfw_now, cfws_of, cm2. cbn [aget]. rewrite ia_f. rewrite (ord_single ord _ _ Hord). cbn [hd]. exact g_cfw_a. Qed.
  Lemma cfw_now2_b : cfw_now ord g cm2 ib = cb.
  Proof. unfold cfw_now, cfws_of, cm2. cbn [aget]. rewrite ib_f. rewrite (ord_single ord _ _ Hord). cbn [hd]. exact g_cfw_b. Qed.

  Lemma in_ps2 : forall p, In p ps <-> p = ia \/ p = ib.
  Proof. intros p. destruct ps_two as [-> | ->]; cbn [In]; intuition. Qed.

  Definition root_step2 (p : nat) : lstep :=
    LFG {| sid := 0; skind := KFG; uuids := [p]; req := []; requested := false |} (grp_of g p) (cfw_of g p) (cir_of (p2c_of g) [p]) [] p.
  Definition cons_step2 : lstep :=
    LFG {| sid := 0; skind := KFG; uuids := [f]; req := ord 3 (ps ++ [u]); requested := true |} C cn (cir_of (p2c_of g) [f]) [] f.

  Lemma mk_root_step2 : forall p, In p ps -> mk_step_L ord g cm2 [] (grp_of g p) [p] = root_step2 p.
  Proof.
    intros p Hp. unfold mk_step_L, root_step2. rewrite (ord_single ord _ _ Hord). cbn [hd].
    assert (Ec : cfw_now ord g cm2 p = cfw_of g p).
    { apply in_ps2 in Hp. destruct Hp as [-> | ->]; [rewrite cfw_now2_a, g_cfw_a | rewrite cfw_now2_b, g_cfw_b]; reflexivity. }
    rewrite Ec.
    assert (Er : req_of_level (PlannerL.cl g) [p] = []).
    { unfold req_of_level, PlannerL.cl. cbn [fold_left]. unfold g. rewrite (star_p2c rs f C cc ps Hok). cbn [aget].
      assert (E : Nat.eqb p f = false) by (apply Nat.eqb_neq; intros E; subst p; exact (f_notin_ps rs f C ps Hok Hp)). rewrite E. reflexivity. }
    rewrite Er. cbn [set_union fold_left]. rewrite (ord_nil ord _ Hord).
    assert (Eq : existsb (isreq g) [p] = false).
    { cbn [existsb]. apply (in_ps_root rs f C ps Hok) in Hp. destruct Hp as [r [Hr E]]. subst p.
      unfold g. rewrite (star_req_root rs f C cc ps Hok r Hr). reflexivity. }
    rewrite Eq. reflexivity.
  Qed.

  Lemma u_fresh : ~ In u (ps ++ [f]) /\ ~ In (js_uid u) (ps ++ [f]) /\ ~ In (tfs_uid u) (ps ++ [f]).
  Proof.
    destruct Hlinks as (_ & _ & _ & _ & Hfresh & _). destruct (Hfresh l (or_introl eq_refl)) as (F1 & F2 & F3).
    assert (Hsub : forall x, In x (ps ++ [f]) -> In x (f :: map sr_id rs)).
    { intros x Hx. apply in_app_iff in Hx. destruct Hx as [Hx|[Hx|[]]]; [right | left; exact Hx].
      destruct Hok as (_ & _ & _ & Hp). exact (Permutation_in _ Hp Hx). }
    repeat split; intros H; [apply F1 | apply F2 | apply F3]; apply Hsub; exact H.
  Qed.

  Lemma mk_cons_step2 : mk_step_L ord g cm2 [u] C [f] = cons_step2.
  Proof.
    unfold mk_step_L, cons_step2. rewrite (ord_single ord _ _ Hord). cbn [hd]. rewrite cfw_now2_f.
    assert (Er : req_of_level (PlannerL.cl g) [f] = ps).
    { unfold req_of_level, PlannerL.cl. cbn [fold_left]. unfold g. rewrite (star_p2c rs f C cc ps Hok). cbn [aget]. rewrite Nat.eqb_refl.
      fold (dedupe ps). apply dedupe_nodup. exact (ps_nodup rs f C ps Hok). }
    rewrite Er.
    assert (Eu : set_union ps [u] = ps ++ [u]).
    { apply set_union_nodup_l; [constructor; [intros [] | constructor]|]. intros x [<-|[]] Hin.
      destruct u_fresh as [F _]. apply F. apply in_app_iff. left. exact Hin. }
    rewrite Eu.
    assert (Eq : existsb (isreq g) [f] = true) by (cbn [existsb]; unfold g; rewrite star_req_f; reflexivity).
    rewrite Eq. reflexivity.
  Qed.

  Definition d3 : tdata := t_data t3.
  Lemma d3_cases : d3 = [(k0, [f])] \/ d3 = [(k0', [f])].
  Proof. unfold d3, t3. destruct inverted; [right | left]; reflexivity. Qed.

  Lemma links_pre2_root : forall p, In p ps -> links_pre d3 [p] = [].
  Proof.
    intros p Hp. assert (E : Nat.eqb p f = false) by (apply Nat.eqb_neq; intros E; subst p; exact (f_notin_ps rs f C ps Hok Hp)).
    unfold links_pre, child_links. cbn [fold_left]. destruct d3_cases as [-> | ->]; cbn [filter snd mem existsb]; rewrite E; reflexivity.
  Qed.
  Lemma links_pre2_f : links_pre d3 [f] = [u].
  Proof.
    unfold links_pre, child_links. cbn [fold_left]. destruct d3_cases as [-> | ->]; cbn [filter snd mem existsb]; rewrite Nat.eqb_refl; reflexivity.
  Qed.

  Lemma sog_one : forall cm pre grp u0, ~ In u0 (aget0 u0 (p2c_of g)) ->
    steps_of_group_L ord g cm pre grp [u0] = [mk_step_L ord g cm pre grp [u0]].
  Proof. exact (steps_of_group_L_one ord rs f C cc ps Hord). Qed.
  Lemma cl2_root : forall p, In p ps -> aget0 p (p2c_of g) = [].
  Proof. exact (g_closure_root rs f C cc ps Hok). Qed.
  Lemma cl2_f : aget0 f (p2c_of g) = ps.
  Proof. exact (g_closure_f rs f C cc ps Hok). Qed.

  Definition PP2 : list xitem := map XS (map root_step2 ps) ++ [XL k0] ++ [XS cons_step2].

  Lemma pre_plan2 : pre_plan ord g cm2 d3 PQ2 = PP2.
  Proof.
    unfold pre_plan, PQ2, PP2. rewrite !flat_map_app. f_equal; [|f_equal].
    - assert (H : forall lst, incl lst ps ->
                flat_map (fun it => match it with
                                    | PL k => [XL k]
                                    | PG grp ms => map XS (steps_of_group_L ord g cm2 (links_pre d3 ms) grp ms)
                                    end) (map (pg_root rs f C cc ps) lst) = map XS (map root_step2 lst)).
      { intros lst. induction lst as [|p lst IH]; intros Hsub; [reflexivity|]. cbn [map flat_map].
        assert (Hp : In p ps) by (apply Hsub; left; reflexivity).
        rewrite IH by (intros y Hy; apply Hsub; right; exact Hy).
        unfold pg_root at 1. rewrite (links_pre2_root p Hp).
        rewrite sog_one by (rewrite (cl2_root p Hp); intros []).
        fold g. rewrite (mk_root_step2 p Hp). reflexivity. }
      apply H. apply incl_refl.
    - cbn [flat_map app]. rewrite links_pre2_f.
      rewrite sog_one by (rewrite cl2_f; exact (f_notin_ps rs f C ps Hok)).
      rewrite mk_cons_step2. reflexivity.
  Qed.

  (* ---------- run_link ---------- *)
  Lemma fsc2 : fsc_of PP2 = FSC f ps.
  Proof.
    unfold PP2, FSC, fsc_of. rewrite !flat_map_app. f_equal.
    generalize ps. intros lst. induction lst as [|p lst IH]; [reflexivity|]. cbn [map flat_map root_step2 uuids app]. rewrite IH. reflexivity.
  Qed.

  Lemma filt_a : filter (fun x => Nat.eqb (cfw_now ord g cm2 x) ca) ps = [ia].
  Proof. destruct ps_two as [E|E]; rewrite E; cbn [filter]; rewrite cfw_now2_a, cfw_now2_b, Nat.eqb_refl, cb_ca; reflexivity. Qed.
  Lemma filt_b : filter (fun x => Nat.eqb (cfw_now ord g cm2 x) cb) ps = [ib].
  Proof. destruct ps_two as [E|E]; rewrite E; cbn [filter]; rewrite cfw_now2_a, cfw_now2_b, Nat.eqb_refl, ca_cb; reflexivity. Qed.

  Lemma reduce2 : reduce_children g [f] = Some [f].
  Proof. exact (reduce_children_f rs f C cc ps Hok). Qed.
  Lemma req0_2 : set_union [] (aget0 f (PlannerL.cl g)) = ps.
  Proof. unfold PlannerL.cl. rewrite cl2_f. fold (dedupe ps). apply dedupe_nodup. exact (ps_nodup rs f C ps Hok). Qed.

  Lemma pso_two : pso ord f ps = [ia; ib] \/ pso ord f ps = [ib; ia].
  Proof.
    apply perm_two. unfold pso. apply (Permutation_trans (Hord _ _)). destruct ps_two as [E|E]; rewrite E; [apply Permutation_refl | apply perm_swap].
  Qed.

  (* not inverted, not RIGHT (the consumer computes on the framework of the Link's left class): the double loop finds (ra, rb) *)
  Lemma solve2 : cn = ca ->
    solve_lr ord g mro cm2 k0 (pl_l l) (map (fun p => (p, [p])) (pso ord f ps)) = (1, Some ([ia], [ib])).
  Proof.
    intros Ecn. unfold solve_lr.
    assert (Ia : issub mro (grp_of g ia) (lfg (pl_l l)) = true).
    { rewrite g_grp_a, (issub_flat mro rs Hflat ra _ ra_in), HL. apply Nat.eqb_refl. }
    assert (Ib : issub mro (grp_of g ib) (rfg (pl_l l)) = true).
    { rewrite g_grp_b, (issub_flat mro rs Hflat rb _ rb_in), HR. apply Nat.eqb_refl. }
    destruct pso_two as [E|E]; rewrite E; cbn [map fold_left fst snd k_l k_r k0];
      rewrite ?cfw_now2_a, ?cfw_now2_b, ?Nat.eqb_refl, ?ca_cb, ?cb_ca, ?ia_ib_b, ?ib_ia_b; cbn [negb]; rewrite ?Ia, ?Ib; cbn [negb];
      rewrite ?cfw_now2_a, ?cfw_now2_b, ?Nat.eqb_refl, ?ca_cb, ?cb_ca, ?ia_ib_b, ?ib_ia_b; cbn [negb]; rewrite ?Ia, ?Ib; reflexivity.
  Qed.

  Definition a_left : bool := Nat.eqb cn ca.
  Definition jstep (lf rf : nat) (lus rus : list nat) : lstep :=
    LJOIN {| sid := 0; skind := KJOIN; uuids := [js_uid u; u]; req := ps; requested := false |} u lf rf lus rus.
  Definition join2 : lstep := if a_left then jstep ca cb [ia] [ib] else jstep cb ca [ib] [ia].

  Lemma cn_cases : (is_right = false /\ cc = ca /\ cn = ca /\ inverted = false) \/
                   (is_right = false /\ cc = cb /\ cn = cb /\ inverted = true) \/
                   (is_right = true /\ cc = cb /\ cn = cb /\ inverted = false) \/
                   (is_right = true /\ cc = ca /\ cn = cb /\ inverted = true).
  Proof.
    unfold cn, inverted. destruct is_right; destruct Hcc as [E|E]; fold ca cb in E; rewrite E, ?Nat.eqb_refl, ?ca_cb, ?cb_ca; auto 10.
  Qed.

  Lemma run_link2 :
    run_link ord g mro links cm2 t3 (FSC f ps) k0 =
      if is_set_jt (jt (pl_l l)) then Err e_appendunion else Ok (Some join2).
  Proof.
    unfold run_link. cbn [k_uid k0 fst]. rewrite plink_u. fold k0.
    assert (Eself : Nat.eqb (lfg (pl_l l)) (rfg (pl_l l)) = false).
    { apply Nat.eqb_neq. destruct Hlinks as (_ & _ & _ & Hs & _). apply (Hs l). left. reflexivity. }
    assert (Et2 : tget0 k0 (t_data t2) = [f]).
    { unfold tget0, t2, d2. cbn [t_data tsingle map tget]. rewrite key_eqb_refl. reflexivity. }
    assert (Eti : tget0 k0 (t_data tinv) = []).
    { unfold tget0, tinv. cbn [t_data tget]. rewrite k0_k0'. reflexivity. }
    assert (Eti' : tget0 (k_inv k0) (t_data tinv) = [f]).
    { change (k_inv k0) with k0'. unfold tget0, tinv. cbn [t_data tget]. rewrite key_eqb_refl. reflexivity. }
    assert (Eo2 : t_order t2 = []) by reflexivity. assert (Eoi : t_order tinv = []) by reflexivity.
    unfold join2, a_left, jstep.
    destruct cn_cases as [(Er & Ec & En & Ei)|[(Er & Ec & En & Ei)|[(Er & Ec & En & Ei)|(Er & Ec & En & Ei)]]];
      unfold t3; rewrite Ei; fold is_right; rewrite Er, ?Et2, ?Eti, ?Eti', ?Eo2, ?Eoi; cbn [k_l k_r k0 fst snd];
      rewrite reduce2, (ord_single ord _ _ Hord); cbn [fold_left]; rewrite req0_2, ?filt_a, ?filt_b;
      unfold is_valid; rewrite Eself; cbn [k_l k0 fst snd]; rewrite cfw_now2_f, En, ?Nat.eqb_refl, ?ca_cb, ?cb_ca.
    - (* consumer on the framework of the Link's left class *)
      unfold PlannerL.cl. rewrite cl2_f. fold (pso ord f ps). rewrite (star_find_feature_uuids ord rs f C ps Hord Hok).
      pose proof (solve2 En) as Hs. unfold is_right in Er.
      destruct (map (fun p : nat => (p, [p])) (pso ord f ps)) as [|e0 et] eqn:EX.
      + exfalso. apply map_eq_nil in EX. destruct pso_two as [E|E]; rewrite E in EX; discriminate.
      + rewrite Hs. destruct (jt (pl_l l)); try discriminate Er; reflexivity.
    - destruct (is_set_jt (jt (pl_l l))); reflexivity.
    - destruct (is_set_jt (jt (pl_l l))); reflexivity.
    - destruct (is_set_jt (jt (pl_l l))); reflexivity.
  Qed.

  (* ---------- add_joinstep, add_tfs ---------- *)
  Definition plan2 : list lstep := map root_step2 ps ++ [join2; cons_step2].

  Lemma add_joinstep2 :
    add_joinstep ord g mro links cm2 t3 PP2 =
      if is_set_jt (jt (pl_l l)) then Err e_appendunion else Ok (plan2, [(u, [])]).
  Proof.
    unfold add_joinstep. cbv zeta. rewrite fsc2. unfold PP2. rewrite !fold_left_app.
    assert (H1 : forall (lst : list lstep) out jc jr,
              fold_left (fun st x =>
                match st with
                | Err e => Err e
                | Ok (out, jc, jr) =>
                  match x with
                  | XS s => Ok (out ++ [s], jc, jr)
                  | XL k =>
                    match run_link ord g mro links cm2 t3 (FSC f ps) k with
                    | Err e => Err e
                    | Ok None => Ok (out, jc, jr)
                    | Ok (Some js) =>
                      match js with
                      | LJOIN _ uid lf rf _ _ => Ok (out ++ [js], jc ++ [(uid, (lf, rf))], jr ++ [(uid, jc_required jc lf rf)])
                      | _ => Ok (out ++ [js], jc, jr)
                      end
                    end
                  end
                end) (map XS lst) (Ok (out, jc, jr)) = Ok (out ++ lst, jc, jr)).
    { intros lst. induction lst as [|x lst IH]; intros out jc jr; cbn [map fold_left]; [rewrite app_nil_r; reflexivity|].
      rewrite IH, <- app_assoc. reflexivity. }
    rewrite H1. cbn [app fold_left]. rewrite run_link2. destruct (is_set_jt (jt (pl_l l))); [reflexivity|].
    unfold plan2, join2, jstep. destruct a_left; cbn [jc_required fold_left app]; rewrite <- app_assoc; reflexivity.
  Qed.

  Definition tfs2 (lf rf : nat) : lstep :=
    let key := join_tfs_key links u lf rf in
    LTFS {| sid := 0; skind := KTFS; uuids := [tfs_uid u]; req := ps; requested := false |}
         (fst (fst key)) (snd (fst key)) (fst (snd key)) (snd (snd key)) (Some u).
  Definition jstep' (lf rf : nat) (lus rus : list nat) : lstep :=
    LJOIN {| sid := 0; skind := KJOIN; uuids := [js_uid u; u]; req := ps ++ [tfs_uid u]; requested := false |} u lf rf lus rus.
  (* the final plan: the two root steps, the transform step moving the RIGHT table to the LEFT framework, the join, the consumer *)
  Definition final2 : list lstep :=
    map root_step2 ps ++
    (if a_left then [tfs2 ca cb; jstep' ca cb [ia] [ib]] else [tfs2 cb ca; jstep' cb ca [ib] [ia]]) ++ [cons_step2].

  Lemma a_left_cn : (a_left = true /\ cn = ca) \/ (a_left = false /\ cn = cb).
  Proof.
    unfold a_left. destruct cn_cases as [(_ & _ & En & _)|[(_ & _ & En & _)|[(_ & _ & En & _)|(_ & _ & En & _)]]]; rewrite En, ?Nat.eqb_refl, ?cb_ca; auto.
  Qed.

  Lemma add_tfs2 : add_tfs ord g links cm2 [(u, [])] plan2 = (final2, false).
  Proof.
    rewrite add_tfs_eq. unfold plan2, final2.
    assert (Hroot : forall p cur, In p ps -> fg_tfs_needed ord g cm2 cur (cfw_of g p) p = false).
    { intros p cur Hp. unfold fg_tfs_needed, PlannerL.cl. rewrite (cl2_root p Hp). reflexivity. }
    assert (Htf : set_add (tfs_uid u) ps = ps ++ [tfs_uid u]).
    { apply set_add_notin. intros H. destruct u_fresh as (_ & _ & F). apply F. apply in_app_iff. left. exact H. }
    assert (Hcons : forall r1 r2 t lf rf lus rus, (Nat.eqb cn lf || Nat.eqb cn rf) = true ->
              fg_tfs_needed ord g cm2 [r1; r2; LJOIN (set_req (ps ++ [tfs_uid u]) t) u lf rf lus rus; cons_step2] cn f = false).
    { intros r1 r2 t lf rf lus rus Hm. unfold fg_tfs_needed, PlannerL.cl. rewrite cl2_f.
      apply not_true_is_false. intros H. apply existsb_exists in H. destruct H as [p [Hp H]].
      assert (Hj : existsb (fun x => match x with
                                     | LJOIN s0 _ lf0 rf0 _ _ => mem p (req s0) && (Nat.eqb cn lf0 || Nat.eqb cn rf0)
                                     | _ => false end)
                     [r1; r2; LJOIN (set_req (ps ++ [tfs_uid u]) t) u lf rf lus rus; cons_step2] = true).
      { cbn [existsb]. cbn [req set_req]. assert (Hmem : mem p (ps ++ [tfs_uid u]) = true) by (apply mem_In; apply in_app_iff; left; exact Hp).
        rewrite Hmem, Hm. cbn [andb]. rewrite !orb_true_r. reflexivity. }
      rewrite Hj in H. discriminate. }
    destruct ps_two as [E|E]; rewrite E; cbn [map app List.length seq fold_left];
      unfold tfs_body at 4; cbn [nth_error root_step2 uuids];
      (rewrite Hroot by (rewrite E; cbn; auto)); cbn [orb];
      unfold tfs_body at 3; cbn [nth_error root_step2 uuids];
      (rewrite Hroot by (rewrite E; cbn; auto)); cbn [orb];
      unfold tfs_body at 2; cbn [nth_error]; unfold join2, jstep;
      destruct a_left_cn as [[Ea En]|[Ea En]]; rewrite Ea; rewrite ?ca_cb, ?cb_ca; cbn [existsb negb req];
      rewrite Htf; unfold aget0; cbn [aget]; rewrite Nat.eqb_refl; cbn [set_union fold_left replace_nth app];
      unfold tfs_body; cbn [nth_error cons_step2 uuids];
      (rewrite Hcons by (rewrite En, Nat.eqb_refl; reflexivity)); cbn [orb];
      unfold tfs2, jstep'; rewrite ?E; reflexivity.
  Qed.

  (* ---------- validation and the theorem ---------- *)
  Lemma final2_wf : (exists order, wf_plan order (number 0 (map core final2)) = true) /\ validate_A (number 0 (map core final2)) = true.
  Proof.
    destruct u_fresh as (F1 & F2 & F3).
    assert (Hia : In ia ps) by (apply in_ps2; left; reflexivity). assert (Hib : In ib ps) by (apply in_ps2; right; reflexivity).
    assert (N1 : forall x, In x ps -> x <> u /\ x <> js_uid u /\ x <> tfs_uid u /\ x <> f).
    { intros x Hx. repeat split; intros E; subst x; [apply F1 | apply F2 | apply F3 | exact (f_notin_ps rs f C ps Hok Hx)]; apply in_app_iff; left; exact Hx. }
    assert (N2 : f <> u /\ f <> js_uid u /\ f <> tfs_uid u).
    { repeat split; intros E; [apply F1 | apply F2 | apply F3]; rewrite <- E; apply in_app_iff; right; left; reflexivity. }
    assert (Hreq : forall x, In x (ord 3 (ps ++ [u])) <-> In x ps \/ x = u).
    { intros x. rewrite (ord_In ord _ _ _ Hord), in_app_iff. cbn [In]. intuition. }
    apply topo_wf.
    - intros s Hs. unfold final2 in Hs. rewrite !map_app in Hs. apply in_app_iff in Hs. destruct Hs as [Hs|Hs].
      + rewrite map_map in Hs. apply in_map_iff in Hs. destruct Hs as [p [<- _]]. discriminate.
      + destruct a_left; cbn in Hs; destruct Hs as [<-|[<-|[<-|[]]]]; discriminate.
    - unfold final2. rewrite !map_app, !flat_map_app.
      assert (E1 : flat_map uuids (map core (map root_step2 ps)) = ps).
      { generalize ps. intros lst. induction lst as [|p lst IH]; [reflexivity|]. cbn [map flat_map core root_step2 uuids app]. rewrite IH. reflexivity. }
      rewrite E1.
      assert (E2 : flat_map uuids (map core (if a_left then [tfs2 ca cb; jstep' ca cb [ia] [ib]] else [tfs2 cb ca; jstep' cb ca [ib] [ia]]))
                   = [tfs_uid u; js_uid u; u]) by (destruct a_left; reflexivity).
      rewrite E2. cbn [map flat_map core cons_step2 uuids app].
      apply NoDup_app_intro_gen; [exact (ps_nodup rs f C ps Hok)| |].
      + destruct N2 as (M1 & M2 & M3). unfold js_uid, tfs_uid in *. repeat constructor; cbn [In]; intuition lia.
      + intros x Hx Hin. destruct (N1 x Hx) as (A1 & A2 & A3 & A4). cbn [In] in Hin. intuition.
    - intros i s Hi x Hx. unfold final2 in *.
      destruct ps_two as [E|E]; rewrite E in *; destruct a_left; cbn [map app core] in Hi |- *;
        destruct i as [|[|[|[|[|i]]]]]; cbn [nth_error] in Hi; try discriminate Hi; try (destruct i; discriminate Hi);
        injection Hi as <-; cbn [req root_step2 tfs2 jstep' cons_step2 core firstn flat_map uuids app In] in Hx |- *;
        try contradiction; rewrite ?E in Hx; try (apply Hreq in Hx; rewrite ?E in Hx); cbn [In app] in Hx; intuition.
  Qed.

  Theorem two_root_cross :
    prepare_L ord g mro links =
      if is_set_jt (jt (pl_l l)) then LRejected e_appendunion [] else LPlanned (number_L 0 final2).
  Proof.
    unfold prepare_L, stages_L.
    assert (Hv : validate_rejects (map pl_l links) = false) by apply Hlinks. rewrite Hv.
    rewrite (star_no_self links rs f Hlinks). cbn [negb].
    assert (Hne : links <> []) by discriminate.
    assert (Ht : trek_data ord g mro links = tsingle f KS2) by exact (L_trek ord mro links rs f C cc ps Hok Hlinks Hne).
    rewrite Ht, KS2_eq. fold d2.
    assert (Hconf : conflicting_data links d2 = false).
    { unfold conflicting_data, d2. cbn [tsingle map tkeys existsb fst]. rewrite jt_eqb_refl. cbn. rewrite !andb_false_r. reflexivity. }
    rewrite Hconf.
    rewrite (get_ordered_data_no_chain d2); [|repeat constructor; intros [] | exact (no_chain_single k0 [f])].
    cbn [t_dor]. unfold d2.
    assert (Hlq : link_queue (queue_of g) (tsingle f KS2) = map QF ps ++ map QL KS2 ++ [QF f]) by exact (L_lq ord mro links rs f C cc ps Hok).
    assert (Hpq : planned_queue_L g (queue_of g) (map QF ps ++ map QL KS2 ++ [QF f]) = map (pg_root rs f C cc ps) ps ++ map PL KS2 ++ [PG C [f]])
      by exact (L_pq ord mro links rs f C cc ps Hok).
    rewrite KS2_eq in Hlq, Hpq. rewrite Hlq, Hpq. cbn [map]. fold d2. fold t2. fold PQ2. rewrite rcf2. fold d3. rewrite pre_plan2.
    rewrite add_joinstep2. destruct (is_set_jt (jt (pl_l l))); [reflexivity|].
    rewrite add_tfs2. cbn [fst snd]. unfold plan_of_L. cbn [st_raw]. rewrite map_core_number_L.
    destruct final2_wf as [[order Hwf] Hval]. rewrite Hval. cbn [negb]. rewrite (sim_complete order _ Hwf). reflexivity.
  Qed.
End TwoCross.
