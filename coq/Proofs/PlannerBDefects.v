(* The defect predicates of Model/PlanDefects.v are sound for the Stage-B1 planner model: when the model's plan lies outside
   kf_tfs_missing and kf_tfs_partial (evaluated on the plan and the feature graph as the harness exports them), every
   maximal input of every feature-group step that lives on another framework is served by a transform step the consumer
   waits for and that itself waits for the producer of the input (Spec/PlannerBSpec.v tfs_spec).

     waitsb_sound       the executable wait-for closure (OrchCheck.waits_for) is contained in the relation `waits`
     xcl_adj_of         the ancestor lists the predicates compute from the exported graph are the planner's closure
     max_inputs_complete  every maximal input in the sense of the specification is in the computed list
     defects_sound      the theorem *)
From Coq Require Import List Bool Arith Lia Permutation.
Import ListNotations.
Require Import MV.Model.Orch MV.Model.OrchCheck MV.Model.Grouping MV.Model.PlannerA MV.Spec.PlannerASpec.
Require Import MV.Model.PlannerB MV.Spec.PlannerBSpec MV.Model.PlanDefects.
Require Import MV.Proofs.OrchP MV.Proofs.OrchTermP MV.Proofs.PlannerASets MV.Proofs.PlannerAGraph MV.Proofs.PlannerAQueue.
Require Import MV.Proofs.PlannerALevels MV.Proofs.PlannerAOrder MV.Proofs.PlanSimP MV.Proofs.PlannerAP MV.Proofs.PlannerBErase.
Require Import MV.Proofs.PlannerBP MV.Proofs.PlannerBWf.

(* ---------- small list facts ---------- *)
Lemma existsb_false_forall : forall (A : Type) (f : A -> bool) l, existsb f l = false -> forall x, In x l -> f x = false.
Proof.
  intros A f l H x Hx. destruct (f x) eqn:E; [|reflexivity].
  assert (Ht : existsb f l = true) by (apply existsb_exists; exists x; split; assumption). rewrite Ht in H. discriminate.
Qed.

Lemma NoDup_app_iff_local : forall (A : Type) (a b : list A), NoDup (a ++ b) -> NoDup b.
Proof. intros A a b H. induction a as [|x a IH]; [exact H|]. cbn in H. apply NoDup_cons_iff in H. apply IH. apply H. Qed.

Lemma unique_producer : forall (xp : bplan) x x' u, NoDup (flat_map (fun b => uuids (bs b)) xp) ->
  In x xp -> In x' xp -> In u (uuids (bs x)) -> In u (uuids (bs x')) -> x = x'.
Proof.
  intros xp. induction xp as [|b xp IH]; intros x x' u Hnd Hx Hx' Hu Hu'; [destruct Hx|].
  cbn [flat_map] in Hnd. destruct Hx as [Hx|Hx]; destruct Hx' as [Hx'|Hx'].
  - subst. reflexivity.
  - subst x. exfalso. apply (NoDup_app_disj_gen _ _ _ u Hnd Hu). apply in_flat_map. exists x'. split; assumption.
  - subst x'. exfalso. apply (NoDup_app_disj_gen _ _ _ u Hnd Hu'). apply in_flat_map. exists x. split; assumption.
  - apply (IH x x' u); try assumption. apply NoDup_app_iff_local in Hnd. apply Hnd.
Qed.

Lemma all_uuids_steps_of : forall xp : bplan, all_uuids (steps_of xp) = flat_map (fun b => uuids (bs b)) xp.
Proof. intros xp. unfold all_uuids, steps_of. apply flat_map_map. Qed.

Lemma producer_spec : forall (xp : bplan) x u, NoDup (all_uuids (steps_of xp)) -> In x xp -> In u (uuids (bs x)) ->
  producer xp u = Some x.
Proof.
  intros xp x u Hnd Hx Hu. unfold producer. rewrite all_uuids_steps_of in Hnd.
  destruct (find (fun b => mem u (uuids (bs b))) xp) as [x'|] eqn:E.
  - apply find_some in E. destruct E as [Hx' Hm]. apply mem_In in Hm. f_equal. exact (unique_producer xp x' x u Hnd Hx' Hx Hm Hu).
  - exfalso. pose proof (find_none _ _ E x Hx) as Hn. cbn in Hn. apply mem_false in Hn. contradiction.
Qed.

Lemma producer_in : forall (xp : bplan) x u, producer xp u = Some x -> In x xp /\ In u (uuids (bs x)).
Proof. intros xp x u H. unfold producer in H. apply find_some in H. destruct H as [H1 H2]. split; [exact H1 | apply mem_In; exact H2]. Qed.

(* ---------- the executable wait-for closure is sound ---------- *)
Lemma step_of_in : forall p i s, step_of p i = Some s -> In s p /\ sid s = i.
Proof. intros p i s H. unfold step_of in H. apply find_some in H. destruct H as [H1 H2]. split; [exact H1 | apply Nat.eqb_eq; exact H2]. Qed.

Lemma sid_unique : forall (p : plan) s s', NoDup (map sid p) -> In s p -> In s' p -> sid s = sid s' -> s = s'.
Proof.
  intros p. induction p as [|a p IH]; intros s s' Hnd Hs Hs' E; [destruct Hs|]. cbn [map] in Hnd. apply NoDup_cons_iff in Hnd.
  destruct Hnd as [Ha Hnd]. destruct Hs as [Hs|Hs]; destruct Hs' as [Hs'|Hs'].
  - subst. reflexivity.
  - subst a. exfalso. apply Ha. rewrite E. apply in_map. exact Hs'.
  - subst a. exfalso. apply Ha. rewrite <- E. apply in_map. exact Hs.
  - exact (IH s s' Hnd Hs Hs' E).
Qed.

Lemma direct_waits_sound : forall p s j, In s p -> In j (direct_waits p s) -> exists t, In t p /\ sid t = j /\ waits p s t.
Proof.
  intros p s j Hs Hj. unfold direct_waits in Hj. apply in_flat_map in Hj. destruct Hj as [u [Hu Hj]].
  destruct (find_producer p u) as [t|] eqn:E; [|destruct Hj]. destruct Hj as [Hj|[]]. subst j.
  unfold find_producer in E. apply find_some in E. destruct E as [Ht Hm]. apply mem_In in Hm.
  exists t. split; [exact Ht|]. split; [reflexivity|]. exact (waits_direct p s t u Hs Ht Hu Hm).
Qed.

Lemma waits_closure_sound : forall p s, NoDup (map sid p) -> In s p -> forall fuel frontier acc,
  (forall i, In i frontier -> i = sid s \/ exists t, In t p /\ sid t = i /\ waits p s t) ->
  (forall i, In i acc -> exists t, In t p /\ sid t = i /\ waits p s t) ->
  forall i, In i (waits_closure fuel p frontier acc) -> exists t, In t p /\ sid t = i /\ waits p s t.
Proof.
  intros p s Hnd Hs fuel. induction fuel as [|f IH]; intros frontier acc Hfr Hacc i Hi; cbn [waits_closure] in Hi; [exact (Hacc i Hi)|].
  set (next := filter (fun x => negb (mem x acc))
                 (flat_map (fun i => match step_of p i with Some s0 => direct_waits p s0 | None => [] end) frontier)) in *.
  assert (Hnext : forall j, In j next -> exists t, In t p /\ sid t = j /\ waits p s t).
  { intros j Hj. unfold next in Hj. apply filter_In in Hj. destruct Hj as [Hj _]. apply in_flat_map in Hj.
    destruct Hj as [k [Hk Hj]]. destruct (step_of p k) as [s0|] eqn:E0; [|destruct Hj].
    apply step_of_in in E0. destruct E0 as [Hs0 Ek].
    destruct (direct_waits_sound p s0 j Hs0 Hj) as [t [Ht [Et Hw]]]. exists t. split; [exact Ht|]. split; [exact Et|].
    destruct (Hfr k Hk) as [E|[t0 [Ht0 [Et0 Hw0]]]].
    - assert (s0 = s) by (apply (sid_unique p s0 s Hnd Hs0 Hs); congruence). subst s0. exact Hw.
    - assert (s0 = t0) by (apply (sid_unique p s0 t0 Hnd Hs0 Ht0); congruence). subst s0. exact (waits_trans p s t0 t Hw0 Hw). }
  destruct next as [|n0 nt] eqn:En; [exact (Hacc i Hi)|]. rewrite <- En in *.
  apply (IH next (acc ++ next)); [intros j Hj; right; exact (Hnext j Hj) | | exact Hi].
  intros j Hj. apply in_app_iff in Hj. destruct Hj as [Hj|Hj]; [exact (Hacc j Hj) | exact (Hnext j Hj)].
Qed.

Theorem waitsb_sound : forall (xp : bplan) s t, NoDup (map sid (steps_of xp)) -> In s xp -> In t xp ->
  waitsb xp s t = true -> waits (steps_of xp) (bs s) (bs t).
Proof.
  intros xp s t Hnd Hs Ht H. unfold waitsb in H. apply mem_In in H. unfold waits_for in H.
  assert (Hs' : In (bs s) (steps_of xp)) by (apply in_map; exact Hs).
  assert (Ht' : In (bs t) (steps_of xp)) by (apply in_map; exact Ht).
  destruct (waits_closure_sound (steps_of xp) (bs s) Hnd Hs' _ [sid (bs s)] []
              (fun i Hi => match Hi with or_introl E => or_introl (eq_sym E) | or_intror F => match F with end end)
              (fun i Hi => match Hi with end) _ H) as [t0 [Ht0 [E Hw]]].
  assert (t0 = bs t) by (apply (sid_unique (steps_of xp) t0 (bs t) Hnd Ht0 Ht'); exact E). subst t0. exact Hw.
Qed.

(* ---------- the ancestor lists computed from the exported graph ---------- *)
Lemma filter_all_false : forall (A : Type) (f : A -> bool) l, (forall x, In x l -> f x = false) -> filter f l = [].
Proof.
  intros A f l H. induction l as [|x l IH]; [reflexivity|]. cbn. rewrite (H x (or_introl eq_refl)). apply IH.
  intros y Hy. apply H. right. exact Hy.
Qed.

Lemma xcl_adj_of : forall g, graph_ok g -> xcl (adj_of g) = p2c_of g.
Proof.
  intros g (Hnd & Hcl & _). unfold xcl, gadj.
  assert (Hk : map fst (adj_of g) = ids g) by (unfold adj_of, ids; rewrite map_map; reflexivity).
  rewrite Hk.
  assert (Hx : filter (fun p => negb (mem p (ids g))) (flat_map snd (adj_of g)) = []).
  { apply filter_all_false. intros p Hp. apply negb_false_iff. apply mem_In. unfold adj_of in Hp. rewrite flat_map_map in Hp.
    apply in_flat_map in Hp. destruct Hp as [n [Hn Hp]]. cbn in Hp. apply (Hcl p (fid n)). exists n. repeat split; assumption. }
  rewrite Hx. cbn [dedupe set_union fold_left map]. rewrite app_nil_r. unfold adj_of. rewrite map_map.
  apply (p2c_of_remap (fun n => strip_node (fid n, fins n))); intros n; reflexivity.
Qed.

Section Sound.
  Variables (ord : oparam) (g : fgraph).
  Hypothesis Hord : ord_ok ord.
  Hypothesis Hok : graph_ok g.
  Hypothesis Hgc : group_cfw g.

  Local Notation cl := (p2c_of g).
  Local Notation R := (raw_plan ord g).
  Local Notation P := (raw_plan_B ord g).
  Local Notation XP := (plan_B ord g).
  Local Notation ADJ := (adj_of g).

  (* ---------- the numbered plan ---------- *)
  Lemma XP_sids : NoDup (map sid (steps_of XP)).
  Proof. rewrite (steps_of_plan_B ord g), map_sid_number. apply seq_NoDup. Qed.

  Lemma XP_uuids : NoDup (all_uuids (steps_of XP)).
  Proof.
    rewrite (steps_of_plan_B ord g), all_uuids_number. destruct (planB_raw_facts ord g Hord Hok Hgc) as (_ & B2 & _). exact B2.
  Qed.

  Lemma XP_of_raw : forall b0, In b0 P -> exists j, In (bset_sid j b0) XP.
  Proof. intros b0 Hb. destruct (In_nth_error _ _ Hb) as [j Hj]. exists j. exact (bnumber_In P 0 j b0 Hj). Qed.

  Lemma XP_kinds : forall b, In b XP -> (is_fg b = true \/ is_tfs b = true) /\ is_join b = false /\ b_link b = false.
  Proof.
    intros b Hb. destruct (in_plan_B ord g b Hb) as (j & b0 & _ & E & Hb0). subst b.
    apply (in_planB_raw ord g) in Hb0. destruct Hb0 as [x [_ [E|[e [_ [_ E]]]]]]; subst b0.
    - unfold is_fg, is_tfs, is_join. cbn. repeat split; try reflexivity. left. reflexivity.
    - unfold is_fg, is_tfs, is_join. cbn [bs bset_sid]. unfold set_sid. cbn [skind]. rewrite kind_mk_tfs.
      repeat split; try reflexivity; [right; reflexivity|]. unfold mk_tfs. destruct (te_key e) as [[[a b] c] d]. reflexivity.
  Qed.

  (* the feature-group step of the plan that computes feature u *)
  Lemma XP_producer : forall u, In u (ids g) -> exists x s, In x XP /\ is_fg x = true /\ In s R /\ In u (uuids (bs x)) /\
    uuids (bs x) = uuids s /\ b_cfw x = cfw_of g u /\ b_grp x = grp_of g u.
  Proof.
    intros u Hu. destruct (raw_facts ord g Hord Hok Hgc) as (F1 & _ & F3 & _ & F5).
    apply F3 in Hu. apply in_flat_map in Hu. destruct Hu as [s [Hs Hus]].
    destruct (E0_spec ord g) as (ncF & S1 & _ & _).
    assert (Hin : In s (map fst (E0 ord g))) by (rewrite S1; exact Hs).
    apply in_map_iff in Hin. destruct Hin as [x0 [Ex Hx0]].
    assert (Hb0 : In (mk_fg g cl (fst x0) (snd x0)) P) by (apply (in_planB_raw ord g); exists x0; split; [exact Hx0 | left; reflexivity]).
    destruct (XP_of_raw _ Hb0) as [j Hj]. exists (bset_sid j (mk_fg g cl (fst x0) (snd x0))), s.
    split; [exact Hj|]. rewrite Ex. cbn. split; [reflexivity|]. split; [exact Hs|]. split; [exact Hus|]. split; [reflexivity|].
    pose proof (any_in_step ord g Hord Hok Hgc s Hs) as Hany. unfold any_of in Hany.
    assert (Eg : grp_of g (hd 0 (uuids s)) = grp_of g u) by (apply (F5 s); assumption).
    split; [|exact Eg]. apply (cfw_same_group g Hok Hgc); [| |exact Eg].
    - apply F3. apply in_flat_map. exists s. split; assumption.
    - apply F3. apply in_flat_map. exists s. split; assumption.
  Qed.

  Lemma XP_fg : forall c, In c XP -> is_fg c = true ->
    exists s, In s R /\ uuids (bs c) = uuids s /\ b_cfw c = cfw_of g (any_of s) /\ b_grp c = grp_of g (any_of s).
  Proof.
    intros c Hc Hfg. destruct (in_plan_B ord g c Hc) as (j & b0 & _ & E & Hb0). subst c.
    destruct (planB_raw_facts ord g Hord Hok Hgc) as (_ & _ & _ & B4 & _).
    destruct (B4 b0 Hb0 Hfg) as (s & evs & Hs & Eu & _ & Ec & Eg & _). exists s. repeat split; assumption.
  Qed.

  (* ---------- the computed maximal inputs ---------- *)
  Lemma in_step_ancs : forall c u, In u (step_ancs ADJ c) <-> step_anc g c u.
  Proof.
    intros c u. unfold step_ancs, anc_list. rewrite (xcl_adj_of g Hok), In_dedupe, in_flat_map. unfold step_anc.
    split; intros [f [Hf Ha]]; exists f; (split; [exact Hf | apply (closure_correct g Hok); exact Ha]).
  Qed.

  Lemma max_inputs_complete : forall c u, max_input g c u -> In u (max_inputs ADJ c).
  Proof.
    intros c u [Ha Hmax]. unfold max_inputs. apply filter_In. split; [apply in_step_ancs; exact Ha|].
    apply negb_true_iff. destruct (existsb (fun v => mem u (anc_list ADJ v)) (step_ancs ADJ c)) eqn:E; [|reflexivity]. exfalso.
    apply existsb_exists in E. destruct E as [v [Hv Hm]]. apply mem_In in Hm. unfold anc_list in Hm. rewrite (xcl_adj_of g Hok) in Hm.
    apply (Hmax v); [apply in_step_ancs; exact Hv | apply (closure_correct g Hok); exact Hm].
  Qed.

  Lemma not_joined : forall c, joined XP c = false.
  Proof.
    intros c. unfold joined. destruct (existsb _ (req (bs c))) eqn:E; [|reflexivity]. exfalso.
    apply existsb_exists in E. destruct E as [u [_ Hj]]. destruct (producer XP u) as [x|] eqn:Ep; [|discriminate].
    apply producer_in in Ep. rewrite (proj1 (proj2 (XP_kinds x (proj1 Ep)))) in Hj. discriminate.
  Qed.

  (* ---------- the theorem ---------- *)
  Theorem defects_sound : kf_tfs_missing XP ADJ = false -> kf_tfs_partial XP ADJ = false -> tfs_spec g XP.
  Proof.
    intros Hm Hp c u Hc Hfg Hmax Hcf.
    assert (Hcons : In c (consumers XP)).
    { unfold consumers. apply filter_In. split; [exact Hc|]. rewrite Hfg, not_joined. reflexivity. }
    pose proof (max_inputs_complete c u Hmax) as Hin.
    pose proof (existsb_false_forall _ _ _ (existsb_false_forall _ _ _ Hm c Hcons) u Hin) as Hmu.
    pose proof (existsb_false_forall _ _ _ (existsb_false_forall _ _ _ Hp c Hcons) u Hin) as Hpu.
    destruct Hmax as [[f [Hf Hanc]] _].
    destruct (anc_in_ids g Hok u f Hanc) as [Hu _].
    destruct (XP_producer u Hu) as (x & s & Hx & Hxfg & _ & Hux & _ & Excf & Exg).
    assert (Ep : producer XP u = Some x) by (apply producer_spec; [exact XP_uuids | exact Hx | exact Hux]).
    assert (Ecross : cross XP c u = Some x).
    { unfold cross. rewrite Ep, Hxfg, Excf. apply Nat.eqb_neq in Hcf. rewrite Hcf. reflexivity. }
    unfold missing_at in Hmu. unfold partial_at in Hpu. rewrite Ecross in Hmu, Hpu.
    destruct (servers XP c x) as [|t0 ts] eqn:Es; [discriminate|].
    apply negb_false_iff in Hpu. apply existsb_exists in Hpu. destruct Hpu as [t [Ht Hwtx]].
    rewrite <- Es in Ht. unfold servers in Ht. apply filter_In in Ht. destruct Ht as [Htin Hcond].
    repeat (apply andb_true_iff in Hcond; destruct Hcond as [Hcond ?]).
    exists t. unfold serves. split; [exact Htin|]. split; [exact Hcond|].
    repeat match goal with H : Nat.eqb _ _ = true |- _ => apply Nat.eqb_eq in H end.
    split; [congruence|]. split; [assumption|]. split; [congruence|]. split; [assumption|].
    split; [apply (waitsb_sound XP c t XP_sids Hc Htin); assumption|].
    exists x. split; [exact Hx|]. split; [exact Hux|]. exact (waitsb_sound XP t x XP_sids Htin Hx Hwtx).
  Qed.
End Sound.
