(* Lemmas about the chained-name parser model (C16). *)
From Coq Require Import List Bool Ascii Arith Lia.
Import ListNotations.
Require Import MV.Model.ChainParser MV.Spec.ChainName.
Open Scope list_scope.

(* ---------------------------------------------------------------------------------------------------------- *)
(* characters and string equality                                                                              *)
Lemma us_word : is_word us = true. Proof. reflexivity. Qed.
Lemma nl_not_word : is_word nl = false. Proof. reflexivity. Qed.
Lemma us_not_nl : Ascii.eqb us nl = false. Proof. reflexivity. Qed.

Lemma str_eqb_eq : forall a b, str_eqb a b = true <-> a = b.
Proof.
  induction a as [|x a IH]; destruct b as [|y b]; cbn; split; intros H; try congruence; try discriminate.
  - apply andb_true_iff in H as [H1 H2]. apply Ascii.eqb_eq in H1. apply IH in H2. congruence.
  - injection H as -> ->. rewrite Ascii.eqb_refl. cbn. apply IH. reflexivity.
Qed.
Lemma str_eqb_refl : forall a, str_eqb a a = true.
Proof. intros; apply str_eqb_eq; reflexivity. Qed.
Lemma str_eqb_neq : forall a b, str_eqb a b = false <-> a <> b.
Proof.
  intros a b; split; intros H.
  - intros E; apply str_eqb_eq in E; congruence.
  - destruct (str_eqb a b) eqn:E; auto. apply str_eqb_eq in E; contradiction.
Qed.

Lemma contains_In : forall c x, contains c x = true <-> In c x.
Proof.
  induction x as [|a x IH]; cbn; split; intros H; try discriminate; try contradiction.
  - apply orb_true_iff in H as [H|H]; [left; apply Ascii.eqb_eq in H; auto | right; apply IH; auto].
  - apply orb_true_iff. destruct H as [->|H]; [left; apply Ascii.eqb_refl | right; apply IH; auto].
Qed.

Lemma wordb_app : forall a b, wordb (a ++ b) = wordb a && wordb b.
Proof. intros; unfold wordb; apply forallb_app. Qed.

Lemma wordb_no_nl : forall x, wordb x = true -> ~ In nl x.
Proof.
  unfold wordb; intros x H I. rewrite forallb_forall in H. apply H in I. rewrite nl_not_word in I; discriminate.
Qed.

(* ---------------------------------------------------------------------------------------------------------- *)
(* the separator                                                                                               *)
Lemma strip_dunder_some : forall x r, strip_dunder x = Some r <-> x = us :: us :: r.
Proof.
  intros x r; destruct x as [|c1 [|c2 t]]; cbn; split; intros H; try discriminate.
  - destruct (Ascii.eqb c1 us) eqn:E1, (Ascii.eqb c2 us) eqn:E2; cbn in H; try discriminate.
    apply Ascii.eqb_eq in E1, E2. congruence.
  - injection H as -> -> ->. reflexivity.
Qed.

Lemma strip_dunder_none_cons : forall c t, Ascii.eqb c us = false -> strip_dunder (c :: t) = None.
Proof. intros c [|d t] H; cbn; auto. rewrite H; reflexivity. Qed.

Lemma has_dunder_occurs : forall x, has_dunder x = true <-> occurs_dunder x.
Proof.
  induction x as [|c t IH]; split; intros H.
  - discriminate.
  - destruct H as (a & b & E); destruct a; discriminate.
  - cbn [has_dunder] in H. destruct (strip_dunder (c :: t)) as [r|] eqn:E.
    + apply strip_dunder_some in E. exists [], r. exact E.
    + apply IH in H as (a & b & ->). exists (c :: a), b. reflexivity.
  - destruct H as (a & b & E). cbn [has_dunder]. destruct (strip_dunder (c :: t)) eqn:S; auto.
    destruct a as [|c' a].
    + cbn in E. assert (strip_dunder (c :: t) = Some b) by (apply strip_dunder_some; exact E). congruence.
    + injection E as -> ->. apply IH. exists a, b; reflexivity.
Qed.

Lemma has_dunder_false_occurs : forall x, has_dunder x = false <-> ~ occurs_dunder x.
Proof.
  intros x; rewrite <- has_dunder_occurs. destruct (has_dunder x); split; intros; try congruence; auto.
Qed.

Lemma has_dunder_app_l : forall a b, has_dunder a = true -> has_dunder (a ++ b) = true.
Proof.
  intros a b H; apply has_dunder_occurs in H as (x & y & ->); apply has_dunder_occurs.
  exists x, (y ++ b). rewrite <- app_assoc. reflexivity.
Qed.
Lemma has_dunder_app_r : forall a b, has_dunder b = true -> has_dunder (a ++ b) = true.
Proof.
  intros a b H; apply has_dunder_occurs in H as (x & y & ->); apply has_dunder_occurs.
  exists (a ++ x), y. rewrite <- app_assoc. reflexivity.
Qed.
Lemma has_dunder_cons : forall c x, has_dunder x = true -> has_dunder (c :: x) = true.
Proof. intros c x H; apply (has_dunder_app_r [c]); exact H. Qed.
Lemma has_dunder_tail_false : forall c x, has_dunder (c :: x) = false -> has_dunder x = false.
Proof. intros c x H; destruct (has_dunder x) eqn:E; auto. rewrite (has_dunder_cons c x E) in H; discriminate. Qed.
Lemma has_dunder_app_false : forall a b, has_dunder (a ++ b) = false -> has_dunder a = false /\ has_dunder b = false.
Proof.
  intros a b H; split.
  - destruct (has_dunder a) eqn:E; auto. rewrite (has_dunder_app_l a b E) in H; discriminate.
  - destruct (has_dunder b) eqn:E; auto. rewrite (has_dunder_app_r a b E) in H; discriminate.
Qed.

Lemma last_is_us_app1 : forall a c, last_is_us (a ++ [c]) = Ascii.eqb c us.
Proof. intros; unfold last_is_us; rewrite rev_app_distr; reflexivity. Qed.

Lemma last_is_us_cons : forall c x, x <> [] -> last_is_us (c :: x) = last_is_us x.
Proof.
  intros c x H. destruct (exists_last H) as (y & d & ->).
  change (c :: y ++ [d]) with ((c :: y) ++ [d]). rewrite !last_is_us_app1. reflexivity.
Qed.

Lemma has_dunder_cons2 : forall c d t,
  has_dunder (c :: d :: t) = (Ascii.eqb c us && Ascii.eqb d us) || has_dunder (d :: t).
Proof. intros; cbn [has_dunder strip_dunder]. destruct (Ascii.eqb c us && Ascii.eqb d us); reflexivity. Qed.
Lemma has_dunder_single : forall c, has_dunder [c] = false.
Proof. reflexivity. Qed.

(* "__" in a ++ b : inside a, inside b, or straddling the seam *)
Lemma has_dunder_app : forall a b,
  has_dunder (a ++ b) = has_dunder a || has_dunder b || (last_is_us a && head_is_us b).
Proof.
  induction a as [|c a IH]; intros b.
  - cbn. rewrite orb_false_r. reflexivity.
  - destruct a as [|d a].
    + unfold last_is_us; cbn [rev app]. rewrite has_dunder_single.
      destruct b as [|e b].
      * cbn. rewrite andb_false_r. reflexivity.
      * rewrite has_dunder_cons2. cbn [head_is_us orb]. apply orb_comm.
    + specialize (IH b). rewrite last_is_us_cons by discriminate.
      change ((c :: d :: a) ++ b) with (c :: d :: a ++ b).
      rewrite !has_dunder_cons2. change (d :: a ++ b) with ((d :: a) ++ b). rewrite IH.
      rewrite !orb_assoc. reflexivity.
Qed.

(* two occurrences: the later one lies in what follows the first character of the earlier one *)
Lemma later_occurrence : forall a a' b b',
  a ++ us :: us :: b = a' ++ us :: us :: b' -> List.length a < List.length a' -> has_dunder (us :: b) = true.
Proof.
  induction a as [|c a IH]; intros a' b b' E L.
  - destruct a' as [|c' a']; cbn in L; [lia|]. cbn in E. injection E as <- E.
    apply has_dunder_occurs. exists a', b'. exact E.
  - destruct a' as [|c' a']; cbn in L; [lia|]. cbn in E. injection E as <- E.
    eapply IH; [exact E | lia].
Qed.

Lemma app_eq_len : forall (a a' x y : str), List.length a = List.length a' -> a ++ x = a' ++ y -> a = a' /\ x = y.
Proof.
  induction a as [|c a IH]; intros [|c' a'] x y L E; cbn in *; try discriminate; auto.
  injection E as -> E. injection L as L. destruct (IH _ _ _ L E) as [-> ->]; auto.
Qed.

(* ---------------------------------------------------------------------------------------------------------- *)
(* rsplit                                                                                                      *)
Lemma rsplit_none : forall x, rsplit x = None <-> has_dunder x = false.
Proof.
  induction x as [|c t IH]; cbn [rsplit has_dunder]; [tauto|].
  destruct (rsplit t) as [[a b]|] eqn:R.
  - split; intros H; [discriminate|].
    destruct (strip_dunder (c :: t)); [discriminate|].
    apply IH in H; discriminate.
  - destruct (strip_dunder (c :: t)); split; intros H; try discriminate; auto.
    + apply IH; reflexivity.
Qed.

Lemma rsplit_some : forall x a b, rsplit x = Some (a, b) -> x = a ++ us :: us :: b /\ has_dunder (us :: b) = false.
Proof.
  induction x as [|c t IH]; intros a b H; cbn [rsplit] in H; [discriminate|].
  destruct (rsplit t) as [[a' b']|] eqn:R.
  - injection H as <- <-. destruct (IH _ _ eq_refl) as [-> Hb]. split; auto.
  - destruct (strip_dunder (c :: t)) eqn:S; [|discriminate]. injection H as <- <-.
    apply strip_dunder_some in S. split; [exact S|].
    injection S as -> ->. apply rsplit_none; exact R.
Qed.

Lemma rsplit_complete : forall a b, has_dunder (us :: b) = false -> rsplit (a ++ us :: us :: b) = Some (a, b).
Proof.
  induction a as [|c a IH]; intros b H.
  - cbn [app rsplit]. fold (rsplit (us :: b)).
    assert (R : rsplit (us :: b) = None) by (apply rsplit_none; exact H).
    cbn [rsplit] in R. rewrite R. cbn. reflexivity.
  - cbn [app rsplit]. rewrite (IH b H). reflexivity.
Qed.

Lemma rsplit_refines_spec : forall x, rsplit_spec x (rsplit x).
Proof.
  intros x; unfold rsplit_spec. destruct (rsplit x) as [[a b]|] eqn:R.
  - apply rsplit_some in R as [E H]. split; auto. apply has_dunder_false_occurs; exact H.
  - apply has_dunder_false_occurs. apply rsplit_none; exact R.
Qed.

(* ---------------------------------------------------------------------------------------------------------- *)
(* the regular expression                                                                                      *)
Lemma at_end_spec : forall suf t, at_end suf t = true <-> exists e, nlopt e /\ t = us :: suf ++ e.
Proof.
  intros suf t; unfold at_end; rewrite orb_true_iff, !str_eqb_eq. split.
  - intros [->| ->]; [exists []; split; [left; auto | rewrite app_nil_r; auto]
                     | exists [nl]; split; [right; auto | auto]].
  - intros (e & [->| ->] & ->); [left; rewrite app_nil_r; auto | right; auto].
Qed.

Lemma wgroup_sound : forall suf r g, wgroup suf r = Some g ->
  exists e, nlopt e /\ r = g ++ us :: suf ++ e /\ g <> [] /\ wordb g = true.
Proof.
  induction r as [|c t IH]; intros g H; cbn [wgroup] in H; [discriminate|].
  destruct (is_word c) eqn:W; [|discriminate].
  destruct (wgroup suf t) as [g'|] eqn:G.
  - injection H as <-. destruct (IH _ eq_refl) as (e & He & -> & _ & Wg).
    exists e; repeat split; auto; try discriminate. unfold wordb in *; cbn; rewrite W, Wg; auto.
  - destruct (at_end suf t) eqn:A; [|discriminate]. injection H as <-.
    apply at_end_spec in A as (e & He & ->). exists e; repeat split; auto; try discriminate.
    unfold wordb; cbn; rewrite W; auto.
Qed.

Lemma wgroup_complete : forall suf g e, wordb g = true -> g <> [] -> nlopt e ->
  exists g', wgroup suf (g ++ us :: suf ++ e) = Some g'.
Proof.
  induction g as [|c g IH]; intros e W N He; [congruence|].
  unfold wordb in W; cbn in W; apply andb_true_iff in W as [Wc Wg].
  cbn [app wgroup]. rewrite Wc. destruct g as [|d g].
  - cbn [app]. destruct (wgroup suf (us :: suf ++ e)); eauto.
    assert (A : at_end suf (us :: suf ++ e) = true) by (apply at_end_spec; eauto). rewrite A; eauto.
  - destruct (IH e Wg ltac:(discriminate) He) as (g' & ->). eauto.
Qed.

(* a shape's tail determines the group *)
Lemma tail_unique : forall suf a a' e e', wordb suf = true -> nlopt e -> nlopt e' ->
  a ++ us :: suf ++ e = a' ++ us :: suf ++ e' -> a = a' /\ e = e'.
Proof.
  intros suf a a' e e' W He He' E.
  assert (K : forall (p q : str), p ++ us :: suf = q ++ us :: suf ++ [nl] -> False).
  { intros p q F. apply (f_equal (@rev ascii)) in F.
    replace (q ++ us :: suf ++ [nl]) with ((q ++ us :: suf) ++ [nl]) in F by (rewrite <- app_assoc; reflexivity).
    rewrite (rev_app_distr (q ++ us :: suf)) in F. cbn [rev app] in F.
    rewrite rev_app_distr in F. cbn [rev] in F.
    destruct (rev suf) as [|x s] eqn:R.
    - cbn in F. injection F as F _. discriminate.
    - cbn in F. injection F as F _. subst x.
      assert (I : In nl suf) by (apply in_rev; rewrite R; left; auto).
      apply wordb_no_nl in W; contradiction. }
  destruct He as [->| ->], He' as [->| ->].
  - rewrite !app_nil_r in E. change (us :: suf) with ([us] ++ suf) in E.
    rewrite !app_assoc in E. apply app_inv_tail in E. apply app_inv_tail in E. auto.
  - rewrite app_nil_r in E. exfalso; eapply K; eauto.
  - rewrite app_nil_r in E. exfalso; eapply K; eauto.
  - split; auto. change (us :: suf ++ [nl]) with ([us] ++ suf ++ [nl]) in E.
    rewrite !app_assoc in E. do 3 apply app_inv_tail in E. auto.
Qed.

Lemma wgroup_exact : forall suf g e, wordb suf = true -> wordb g = true -> g <> [] -> nlopt e ->
  wgroup suf (g ++ us :: suf ++ e) = Some g.
Proof.
  intros suf g e Ws W N He. destruct (wgroup_complete suf g e W N He) as (g' & G). rewrite G.
  apply wgroup_sound in G as (e' & He' & E & _ & _).
  apply tail_unique in E as [-> _]; auto.
Qed.

Lemma tail_match_sound : forall suf x g, tail_match suf x = Some g ->
  exists e, shape suf x [] g e.
Proof.
  unfold tail_match; intros suf x g H. destruct (strip_dunder x) as [r|] eqn:S; [|discriminate].
  apply strip_dunder_some in S as ->. apply wgroup_sound in H as (e & He & -> & N & W).
  exists e. unfold shape; cbn [app]. repeat split; auto.
Qed.

Lemma tail_match_complete : forall suf x g e, shape suf x [] g e -> exists g', tail_match suf x = Some g'.
Proof.
  unfold shape, tail_match; intros suf x g e (-> & He & _ & N & W). cbn [app strip_dunder].
  rewrite Ascii.eqb_refl; cbn. apply wgroup_complete; auto.
Qed.

Lemma shape_cons : forall suf c x pre g e, shape suf x pre g e -> Ascii.eqb c nl = false -> shape suf (c :: x) (c :: pre) g e.
Proof.
  unfold shape; intros suf c x pre g e (-> & He & Hn & N & W) C. repeat split; auto.
  intros [I|I]; [subst c; rewrite Ascii.eqb_refl in C; discriminate | contradiction].
Qed.

Lemma shape_uncons : forall suf c x c' pre g e, shape suf (c :: x) (c' :: pre) g e -> shape suf x pre g e /\ c' = c /\ c <> nl.
Proof.
  unfold shape; intros suf c x c' pre g e (E & He & Hn & N & W). cbn in E. injection E as <- ->.
  repeat split; auto. intros I; apply Hn; right; exact I. intros ->; apply Hn; left; reflexivity.
Qed.

(* re.match for the family returns a shape, and of all shapes the one with the longest `pre`; None = no shape *)
Lemma re_match_refines_spec : forall suf x, regex_spec suf x (re_match suf x).
Proof.
  intros suf; induction x as [|c x IH].
  - cbn [re_match]. unfold regex_spec. destruct (tail_match suf []) eqn:T; [discriminate T|].
    intros pre g e (E & _). destruct pre; discriminate.
  - cbn [re_match]. destruct (Ascii.eqb c nl) eqn:C.
    + apply Ascii.eqb_eq in C; subst c.
      assert (T : tail_match suf (nl :: x) = None) by (unfold tail_match; rewrite strip_dunder_none_cons; auto).
      rewrite T. intros pre g e Sh. destruct pre as [|c' pre].
      * destruct Sh as (E & _); discriminate.
      * apply shape_uncons in Sh as (_ & _ & F); congruence.
    + destruct (re_match suf x) as [g|] eqn:R.
      * destruct IH as (pre & e & Sh & Mx). exists (c :: pre), e. split; [apply shape_cons; auto|].
        intros pre' g' e' Sh'. destruct pre' as [|c' pre']; cbn; [lia|].
        apply shape_uncons in Sh' as (Sh' & _ & _). apply Mx in Sh'. lia.
      * cbn in IH. destruct (tail_match suf (c :: x)) as [g|] eqn:T.
        -- apply tail_match_sound in T as (e & Sh). exists [], e. split; auto.
           intros pre' g' e' Sh'. destruct pre' as [|c' pre']; cbn; [lia|].
           apply shape_uncons in Sh' as (Sh' & _ & _). apply IH in Sh'. contradiction.
        -- intros pre g e Sh. destruct pre as [|c' pre].
           ++ apply tail_match_complete in Sh as (g' & G). congruence.
           ++ apply shape_uncons in Sh as (Sh & _ & _). apply IH in Sh. contradiction.
Qed.

Lemma re_match_sound : forall suf x g, re_match suf x = Some g -> exists pre e, shape suf x pre g e.
Proof.
  intros suf x g H. pose proof (re_match_refines_spec suf x) as S. rewrite H in S.
  destruct S as (pre & e & Sh & _). eauto.
Qed.

Lemma re_match_no_dunder : forall suf x, has_dunder x = false -> re_match suf x = None.
Proof.
  intros suf x H. destruct (re_match suf x) as [g|] eqn:R; auto.
  apply re_match_sound in R as (pre & e & (-> & _)).
  apply has_dunder_app_false in H as [_ H]. cbn in H. discriminate.
Qed.

(* the longest-pre shape is found *)
Lemma re_match_cons : forall suf c t,
  re_match suf (c :: t) =
  if Ascii.eqb c nl then tail_match suf (c :: t)
  else match re_match suf t with Some g => Some g | None => tail_match suf (c :: t) end.
Proof. reflexivity. Qed.

Lemma re_match_complete : forall suf pre g e, wordb suf = true -> ~ In nl pre -> wordb g = true -> g <> [] -> nlopt e ->
  re_match suf (us :: g ++ us :: suf ++ e) = None ->
  re_match suf (pre ++ us :: us :: g ++ us :: suf ++ e) = Some g.
Proof.
  intros suf pre g e Ws; induction pre as [|c pre IH]; intros Hn W N He Mx.
  - cbn [app]. rewrite re_match_cons, us_not_nl, Mx.
    unfold tail_match. cbn [strip_dunder]. rewrite Ascii.eqb_refl; cbn [andb].
    apply wgroup_exact; auto.
  - cbn [app]. rewrite re_match_cons. destruct (Ascii.eqb c nl) eqn:C.
    + apply Ascii.eqb_eq in C; subst c. exfalso; apply Hn; left; reflexivity.
    + rewrite IH; auto. intros I; apply Hn; right; exact I.
Qed.

(* ---------------------------------------------------------------------------------------------------------- *)
(* parse_feature_name with one pattern                                                                         *)
Lemma parse1_cases : forall suf name,
  match parse_feature_name [suf] name with
  | Parsed op src => re_match suf name = Some op /\ src <> [] /\ exists b, rsplit name = Some (src, b)
  | PErr => exists op b, re_match suf name = Some op /\ rsplit name = Some ([], b)
  | NoParse => re_match suf name = None
  end.
Proof.
  intros suf name; cbn [parse_feature_name]. destruct (re_match suf name) as [g|] eqn:R; auto.
  destruct (rsplit name) as [[a b]|] eqn:S.
  - destruct a as [|c a]; [eauto | repeat split; eauto; discriminate].
  - exfalso. apply rsplit_none in S. rewrite (re_match_no_dunder suf name S) in R. discriminate.
Qed.

Lemma parse_no_separator : forall sufs name, has_dunder name = false -> parse_feature_name sufs name = NoParse.
Proof.
  induction sufs as [|suf sufs IH]; intros name H; cbn [parse_feature_name]; auto.
  rewrite (re_match_no_dunder suf name H). auto.
Qed.

(* soundness of a successful parse *)
Lemma parse_sound : forall suf name op src, parse_feature_name [suf] name = Parsed op src ->
  src <> [] /\ op <> [] /\ wordb op = true /\
  (exists b, name = src ++ us :: us :: b /\ has_dunder (us :: b) = false) /\
  (exists pre e, shape suf name pre op e /\
                 forall pre' g' e', shape suf name pre' g' e' -> List.length pre' <= List.length pre).
Proof.
  intros suf name op src H. pose proof (parse1_cases suf name) as C. rewrite H in C.
  destruct C as (R & N & b & S). apply rsplit_some in S as [E Hb].
  pose proof (re_match_refines_spec suf name) as Sp. rewrite R in Sp. destruct Sp as (pre & e & Sh & Mx).
  pose proof Sh as (_ & _ & _ & Ng & Wg).
  repeat split; eauto.
Qed.

(* render / parse round trip *)
Lemma wf_op_parts : forall op, wf_op op = true -> wordb op = true /\ op <> [] /\ has_dunder (us :: op ++ [us]) = false.
Proof.
  unfold wf_op; intros op H. apply andb_true_iff in H as [W D]. apply negb_true_iff in D.
  repeat split; auto. intros ->. cbn in D. discriminate.
Qed.
Lemma wf_suf_parts : forall suf, wf_suf suf = true -> wordb suf = true /\ has_dunder (us :: suf) = false.
Proof. unfold wf_suf; intros suf H. apply andb_true_iff in H as [W D]. apply negb_true_iff in D. auto. Qed.
Lemma wf_src_parts : forall src, wf_src src = true -> src <> [] /\ ~ In nl src.
Proof.
  unfold wf_src; intros src H. apply andb_true_iff in H as [N C]. apply negb_true_iff in N, C.
  split; [intros ->; discriminate | intros I; apply contains_In in I; congruence].
Qed.

Lemma op_suf_no_dunder : forall op suf, wf_op op = true -> wf_suf suf = true ->
  has_dunder (us :: op ++ us :: suf) = false.
Proof.
  intros op suf Ho Hs. apply wf_op_parts in Ho as (_ & _ & Do). apply wf_suf_parts in Hs as (_ & Ds).
  replace (us :: op ++ us :: suf) with ((us :: op ++ [us]) ++ suf) by (cbn; rewrite <- app_assoc; reflexivity).
  rewrite has_dunder_app, Do. cbn [orb].
  change (us :: op ++ [us]) with ((us :: op) ++ [us]). rewrite last_is_us_app1. cbn [Ascii.eqb andb].
  assert (T : has_dunder suf = false) by (eapply has_dunder_tail_false; eauto). rewrite T. cbn [orb].
  destruct suf as [|c suf]; cbn; auto.
  rewrite has_dunder_cons2 in Ds. apply orb_false_iff in Ds as [Ds _]. exact Ds.
Qed.

Lemma roundtrip_l : forall suf src op, wf_suf suf = true -> wf_src src = true -> wf_op op = true ->
  parse_feature_name [suf] (render src op suf) = Parsed op src.
Proof.
  intros suf src op Hs Hr Ho. pose proof (op_suf_no_dunder op suf Ho Hs) as D.
  destruct (wf_op_parts _ Ho) as (Wo & No & _). destruct (wf_suf_parts _ Hs) as (Ws & _).
  destruct (wf_src_parts _ Hr) as (Nr & Nn).
  unfold render; cbn [parse_feature_name].
  assert (R : re_match suf (src ++ us :: us :: op ++ us :: suf) = Some op).
  { pose proof (re_match_complete suf src op [] Ws Nn Wo No (or_introl eq_refl)) as K.
    rewrite !app_nil_r in K. apply K. apply re_match_no_dunder; exact D. }
  rewrite R. rewrite (rsplit_complete src (op ++ us :: suf) D).
  destruct src; [congruence | reflexivity].
Qed.

(* ---------------------------------------------------------------------------------------------------------- *)
(* where rsplit and the regular expression agree, and where they do not                                        *)
Lemma split_consistent_l : forall suf name op src, wf_suf suf = true ->
  parse_feature_name [suf] name = Parsed op src ->
  (last_is_us op = false <-> exists e, nlopt e /\ name = src ++ us :: us :: op ++ us :: suf ++ e).
Proof.
  intros suf name op src Hs H. destruct (wf_suf_parts _ Hs) as (Ws & Ds).
  destruct (parse_sound _ _ _ _ H) as (Nsrc & Nop & Wop & (b & E & Hb) & (pre & e & Sh & Mx)).
  pose proof Sh as (E2 & He & Hn & _ & _).
  (* has_dunder of what follows the first "_" of the regex split *)
  assert (F : has_dunder (us :: op ++ us :: suf ++ e) = has_dunder (us :: op) || last_is_us op).
  { replace (us :: op ++ us :: suf ++ e) with ((us :: op) ++ (us :: suf ++ e)) by reflexivity.
    rewrite has_dunder_app. rewrite last_is_us_cons by auto. cbn [head_is_us]. rewrite Ascii.eqb_refl, andb_true_r.
    replace (has_dunder (us :: suf ++ e)) with false; [rewrite orb_false_r; reflexivity|].
    replace (us :: suf ++ e) with ((us :: suf) ++ e) by reflexivity. rewrite has_dunder_app, Ds.
    destruct He as [->| ->]; cbn; rewrite ?andb_false_r; reflexivity. }
  split.
  - intros L. exists e; split; auto.
    destruct (Nat.lt_trichotomy (List.length pre) (List.length src)) as [Lt|[Eq|Gt]].
    + exfalso. (* a later "__" inside "_" op ... : it is inside "_" op, which yields a shape with a longer pre *)
      assert (D : has_dunder (us :: op ++ us :: suf ++ e) = true).
      { eapply later_occurrence; [|exact Lt]. rewrite <- E2. exact E. }
      rewrite F, L, orb_false_r in D. apply has_dunder_occurs in D as (y & z & Ez).
      assert (Nz : z <> []).
      { intros ->. assert (Q : last_is_us (us :: op) = true).
        { rewrite Ez. replace (y ++ [us; us]) with ((y ++ [us]) ++ [us]) by (rewrite <- app_assoc; reflexivity).
          apply last_is_us_app1. }
        rewrite last_is_us_cons in Q by auto. congruence. }
      assert (Wy : wordb (y ++ us :: us :: z) = true) by (rewrite <- Ez; unfold wordb; cbn; exact Wop).
      rewrite wordb_app in Wy. apply andb_true_iff in Wy as [Wy Wz].
      unfold wordb in Wz; cbn in Wz. fold (wordb z) in Wz.
      assert (Sh' : shape suf name (pre ++ us :: y) z e).
      { unfold shape; repeat split; auto.
        - rewrite E2. rewrite <- app_assoc. cbn [app]. f_equal. f_equal.
          change (us :: op ++ us :: suf ++ e) with ((us :: op) ++ us :: suf ++ e). rewrite Ez.
          rewrite <- app_assoc. reflexivity.
        - intros I. apply in_app_or in I as [I|[I|I]]; [contradiction | discriminate |].
          apply wordb_no_nl in Wy. contradiction. }
      apply Mx in Sh'. rewrite app_length in Sh'. cbn in Sh'. lia.
    + rewrite E2 in E. destruct (app_eq_len _ _ _ _ Eq E) as [-> _]. exact E2.
    + exfalso. assert (D : has_dunder (us :: b) = true).
      { eapply later_occurrence; [|exact Gt]. rewrite <- E. exact E2. }
      congruence.
  - intros (e' & He' & E3).
    destruct (last_is_us op) eqn:L; auto. exfalso.
    rewrite E in E3. apply app_inv_head in E3. injection E3 as ->.
    assert (D : has_dunder (us :: op ++ us :: suf ++ e') = true).
    { replace (us :: op ++ us :: suf ++ e') with ((us :: op) ++ (us :: suf ++ e')) by reflexivity.
      rewrite has_dunder_app. rewrite last_is_us_cons by auto. rewrite L. cbn [head_is_us].
      rewrite Ascii.eqb_refl. cbn. rewrite !orb_true_r. reflexivity. }
    congruence.
Qed.
