(* The reference description of the pandas engine (Model/MergeLibRef.v) coincides with the relational
   operators outside its two deviation domains (matching null keys, overlapping column names).
   This says nothing about pandas itself: the description is tied to pandas only by the correspondence check. *)
From Coq Require Import List String ZArith Bool Permutation.
Import ListNotations.
Require Import MV.Spec.Rel MV.Model.MergePyDict MV.Model.MergeLibRef MV.Proofs.RelLemmas MV.Proofs.MergePyDictP.
Open Scope string_scope.
Open Scope list_scope.

Lemma flat_map_ext_in : forall (A B : Type) (f g : A -> list B) l,
  (forall x, In x l -> f x = g x) -> flat_map f l = flat_map g l.
Proof.
  induction l as [|x t IH]; simpl; intros H; auto.
  rewrite H by auto. rewrite IH; auto.
Qed.

Lemma rel_join_as_join_by : forall jt lk rk L R,
  rel_join jt lk rk L R = join_by (matches lk rk) row_union (pad (table_cols R)) (pad (table_cols L)) jt L R.
Proof. destruct jt; reflexivity. Qed.

Lemma join_by_ext : forall (m1 m2 : row -> row -> bool) p lo ro jt L R,
  (forall l r, In l L -> In r R -> m1 l r = m2 l r) ->
  join_by m1 p lo ro jt L R = join_by m2 p lo ro jt L R.
Proof.
  intros m1 m2 p lo ro jt L R H.
  assert (I : inner_by m1 p L R = inner_by m2 p L R).
  { unfold inner_by. apply flat_map_ext_in. intros l Hl. f_equal. apply filter_ext_in. intros r Hr. auto. }
  assert (LO : left_only_by m1 L R = left_only_by m2 L R).
  { unfold left_only_by. apply filter_ext_in. intros l Hl. f_equal. apply existsb_ext_in. intros r Hr. auto. }
  assert (RO : right_only_by m1 L R = right_only_by m2 L R).
  { unfold right_only_by. apply filter_ext_in. intros r Hr. f_equal. apply existsb_ext_in. intros l Hl. auto. }
  destruct jt; simpl; congruence.
Qed.

Lemma join_by_teq : forall m p lo1 ro1 lo2 ro2 jt L R,
  (forall r, row_equiv (lo1 r) (lo2 r)) -> (forall r, row_equiv (ro1 r) (ro2 r)) ->
  teq (join_by m p lo1 ro1 jt L R) (join_by m p lo2 ro2 jt L R).
Proof.
  intros. destruct jt; simpl; try apply teq_refl;
    repeat (apply teq_app; try apply teq_refl); apply teq_map; auto.
Qed.

Lemma rename_row_nil : forall sfx r, rename_row sfx [] r = r.
Proof.
  intros. unfold rename_row. rewrite <- (map_id r) at 2. apply map_ext. intros [c v]. reflexivity.
Qed.

Lemma map_rename_row_nil : forall sfx t, map (rename_row sfx []) t = t.
Proof. intros. rewrite <- (map_id t) at 2. apply map_ext. intro. apply rename_row_nil. Qed.

Lemma map_rename_col_nil : forall sfx ks, map (rename_col sfx []) ks = ks.
Proof. intros. rewrite <- (map_id ks) at 2. apply map_ext. intro. reflexivity. Qed.

Theorem pandas_ref_refines_partial_l : forall jt lk rk lcols rcols L R,
  pandas_overlap lk rk lcols rcols = [] ->
  kf_null_key jt L R lk rk = false ->
  bag_eq (pandas_ref jt lk rk lcols rcols L R) (rel_join jt lk rk L R).
Proof.
  intros jt lk rk lcols rcols L R OV NK.
  destruct (is_join jt) eqn:J.
  - assert (E : pandas_ref jt lk rk lcols rcols L R =
                join_by (fun l r => key_eqb (key_of lk l) (key_of rk r)) row_union (fun r => r) (fun r => r) jt L R).
    { unfold pandas_ref. rewrite OV, !map_rename_row_nil, !map_rename_col_nil. destruct jt; try discriminate; reflexivity. }
    rewrite E, rel_join_as_join_by.
    rewrite (join_by_ext (fun l r => key_eqb (key_of lk l) (key_of rk r)) (matches lk rk)).
    + apply teq_bag_eq. apply join_by_teq; intro r; apply row_equiv_sym; apply pad_equiv.
    + intros l r Hl Hr. symmetry. eapply matches_key_eqb; eauto.
  - destruct jt; try discriminate; apply bag_eq_refl.
Qed.
